"""E1 -- the resolved program: module table, class table with MRO, method and
property lookup, closure classes, constructor-call binding.

Built from ``ast`` only.  Class names are unique in ``odl`` outside
``odl/contrib`` and ``odl/test`` (checked on every build: a duplicate makes
resolution by name ambiguous and is an AnalysisError).
"""
from __future__ import annotations

import ast
import os

from .core import AnalysisError, Undecided

SKIP_DIRS = ('odl/test', 'odl/contrib')


class ClassInfo(object):
    def __init__(self, name, rel, node, encl):
        self.name = name
        self.rel = rel
        self.node = node
        self.encl = encl          # list of enclosing FunctionDef/ClassDef
        self.bases = []
        for b in node.bases:
            if isinstance(b, ast.Name):
                self.bases.append(b.id)
            elif isinstance(b, ast.Attribute):
                self.bases.append(b.attr)
            else:
                self.bases.append(ast.unparse(b))
        self.methods = {}
        self.class_attrs = {}
        for n in node.body:
            if isinstance(n, ast.FunctionDef):
                # property setters etc.: keep the first (getter) definition
                self.methods.setdefault(n.name, n)
            elif isinstance(n, ast.Assign):
                for t in n.targets:
                    if isinstance(t, ast.Name):
                        self.class_attrs[t.id] = n.value

    @property
    def enclosing_function(self):
        for e in reversed(self.encl):
            if isinstance(e, ast.FunctionDef):
                return e
        return None

    @property
    def qual(self):
        return '.'.join([e.name for e in self.encl] + [self.name])

    def is_property(self, name):
        m = self.methods.get(name)
        if m is None:
            return False
        for d in m.decorator_list:
            if isinstance(d, ast.Name) and d.id == 'property':
                return True
        return False

    def __repr__(self):
        return '<class %s in %s>' % (self.qual, self.rel)


class Model(object):
    def __init__(self, ctx, include_contrib=False):
        self.ctx = ctx
        self.classes = {}
        self.functions = {}       # (rel, name) -> FunctionDef (top level)
        self.func_by_name = {}    # name -> [(rel, FunctionDef)]
        self.rels = []
        root = os.path.join(ctx.repo, 'odl')
        if not os.path.isdir(root):
            raise AnalysisError('package directory odl/ not found under %s'
                                % ctx.repo)
        for d, dirs, files in os.walk(root):
            dirs.sort()
            reld = os.path.relpath(d, ctx.repo)
            if any(reld == s or reld.startswith(s + os.sep)
                   for s in SKIP_DIRS):
                continue
            for f in sorted(files):
                if f.endswith('.py'):
                    self.rels.append(os.path.join(reld, f))
        for rel in self.rels:
            tree = ctx.tree(rel)
            self._collect(rel, tree, [])
            for n in tree.body:
                if isinstance(n, ast.FunctionDef):
                    self.functions[(rel, n.name)] = n
                    self.func_by_name.setdefault(n.name, []).append((rel, n))
        self._mro = {}

    def _collect(self, rel, node, encl):
        for n in ast.iter_child_nodes(node):
            if isinstance(n, ast.ClassDef):
                ci = ClassInfo(n.name, rel, n, list(encl))
                if n.name in self.classes:
                    other = self.classes[n.name]
                    raise AnalysisError(
                        'class name %s defined twice (%s, %s): resolution by '
                        'name is ambiguous' % (n.name, other.rel, rel))
                self.classes[n.name] = ci
                self._collect(rel, n, encl + [n])
            elif isinstance(n, (ast.FunctionDef,)):
                self._collect(rel, n, encl + [n])
            elif isinstance(n, (ast.If, ast.Try, ast.With, ast.For,
                                ast.While)):
                self._collect(rel, n, encl)

    # ---- hierarchy -------------------------------------------------------
    def get(self, name):
        ci = self.classes.get(name)
        if ci is None:
            raise AnalysisError('anchor vanished: class %s' % name)
        return ci

    def mro(self, ci):
        """C3 linearisation over the classes known to the model (unknown
        bases such as ``object`` are dropped)."""
        if ci.name in self._mro:
            return self._mro[ci.name]
        bases = [self.classes[b] for b in ci.bases if b in self.classes]
        seqs = [list(self.mro(b)) for b in bases] + [list(bases)]
        res = [ci]
        while True:
            seqs = [s for s in seqs if s]
            if not seqs:
                break
            for s in seqs:
                cand = s[0]
                if not any(cand in t[1:] for t in seqs):
                    break
            else:
                raise AnalysisError('inconsistent MRO for %s' % ci.name)
            res.append(cand)
            for s in seqs:
                if s and s[0] is cand:
                    del s[0]
        self._mro[ci.name] = res
        return res

    def is_subclass(self, ci, basename):
        return any(c.name == basename for c in self.mro(ci))

    def subclasses(self, basename):
        return [c for c in self.classes.values()
                if self.is_subclass(c, basename)]

    def lookup(self, ci, attr, skip_first=0):
        """First definition of method/class attribute ``attr`` along the MRO:
        returns (defining ClassInfo, node) or (None, None)."""
        for c in self.mro(ci)[skip_first:]:
            if attr in c.methods:
                return c, c.methods[attr]
            if attr in c.class_attrs:
                return c, c.class_attrs[attr]
        return None, None

    def is_abstract(self, ci):
        """A class is abstract if an MRO method raising NotImplementedError
        is not overridden (only used to find *concrete* classes)."""
        for name in ('_call',):
            c, m = self.lookup(ci, name)
            if m is None:
                return True
        return False


# -------------------------------------------------------------------------
# call binding
def bind_call(call, fdef, skip_first=True):
    """Bind the arguments of ``call`` to the parameters of ``fdef``.

    Returns ``{param: ast expr}``; parameters left to their default map to the
    default expression; missing required parameters are absent.  ``*args`` /
    ``**kwargs`` at the call site make the binding Undecided.
    """
    a = fdef.args
    params = [p.arg for p in a.posonlyargs + a.args]
    if skip_first and params:
        params = params[1:]
    defaults = {}
    all_pos = (a.posonlyargs + a.args)
    for p, d in zip(reversed(all_pos), reversed(a.defaults)):
        defaults[p.arg] = d
    for p, d in zip(a.kwonlyargs, a.kw_defaults):
        if d is not None:
            defaults[p.arg] = d
    kwonly = [p.arg for p in a.kwonlyargs]
    out = {}
    for arg in call.args:
        if isinstance(arg, ast.Starred):
            raise Undecided('starred argument in %s' % ast.unparse(call))
    if len(call.args) > len(params) and a.vararg is None:
        raise Undecided('too many positional arguments in %s'
                        % ast.unparse(call))
    for p, arg in zip(params, call.args):
        out[p] = arg
    extra_kw = {}
    for k in call.keywords:
        if k.arg is None:
            raise Undecided('**kwargs in %s' % ast.unparse(call))
        if k.arg in params or k.arg in kwonly:
            if k.arg in out:
                raise Undecided('argument %s given twice' % k.arg)
            out[k.arg] = k.value
        else:
            extra_kw[k.arg] = k.value
    for p in params + kwonly:
        if p not in out and p in defaults:
            out[p] = defaults[p]
    return out, extra_kw


def return_exprs(fdef):
    """All ``return <expr>`` nodes in a function (not in nested defs)."""
    out = []

    def walk(n):
        for c in ast.iter_child_nodes(n):
            if isinstance(c, (ast.FunctionDef, ast.ClassDef, ast.Lambda)):
                continue
            if isinstance(c, ast.Return):
                out.append(c)
            walk(c)
    walk(fdef)
    return out


def norm(node):
    """Normalised text of an expression (for argument-role comparison)."""
    return ast.unparse(node)


def bind_values(fdef, args, kwargs, skip_first=False):
    """Bind evaluated positional / keyword argument *values* to the parameter
    names of ``fdef``; a call Python would reject raises Undecided."""
    a = fdef.args
    params = [p.arg for p in a.posonlyargs + a.args]
    if skip_first and params:
        params = params[1:]
    kwonly = [p.arg for p in a.kwonlyargs]
    if len(args) > len(params):
        raise Undecided('too many positional arguments for %s' % fdef.name)
    out = dict(zip(params, args))
    for k, v in kwargs.items():
        if k in out or k not in params + kwonly:
            raise Undecided('bad keyword %s for %s' % (k, fdef.name))
        out[k] = v
    return out
