"""E2 -- effect / alias analysis of a function body, path by path.

For a function with *tracked* buffer parameters (typically ``x`` and ``out``
of an operator ``_call``) every feasible path is turned into a sequence of
events on the tracked cells:

* ``R``    the content of the cell is read
* ``W``    the whole cell is overwritten (a *kill*)
* ``PW``   part of the cell is overwritten
* ``RMW``  read-modify-write (``+=``, ``*=`` ...)

The effect table below is this repository's API for mutating elements and
arrays.  Creating a view (``.asarray()``, ``.data``, ``.tensor``, ``x[i]``,
``.real``, ``with writable_array(out) as a``) is an alias, not an event.
Identity tests, ``isinstance``/``len``/``type`` and metadata attributes are
not content reads.  Module-level helpers and ``self._helper(...)`` methods
that receive a tracked buffer are inlined (depth <= 3) unless they have an
entry in ``SUMMARIES``.
"""
from __future__ import annotations

import ast

from .core import Undecided
from .forks import Fork, explore

META_ATTRS = {'shape', 'dtype', 'space', 'size', 'ndim', 'itemsize',
              'is_real', 'is_complex', 'nbytes', 'order', 'flags', 'impl',
              'strides', 'real_dtype', 'complex_dtype', 'field'}
FULL_WRITE_METHODS = {'lincomb', 'assign', 'set_zero'}
VIEW_ATTRS = {'data', 'tensor', 'parts', 'T'}
VIEW_CALLS = {'asarray', 'ravel', 'reshape', '__array__', 'view',
              'swapaxes', 'squeeze', 'transpose'}
NP_POS_OUT = {'multiply', 'add', 'subtract', 'divide', 'maximum', 'minimum',
              'power', 'true_divide', 'floor_divide', 'copyto'}

# Helpers that are summarised instead of inlined:
#   name -> {param: effect}, effect in
#     'W'  : the parameter is fully written before any read of it
#     'R'  : only read
#     'RW' : read, then written (destroyed)
#   '__returns__': name of the parameter whose object is returned, or None
#   '__verify__' : predicate(ast.FunctionDef) -> bool, structural re-check
SUMMARIES = {
    'finite_diff': {
        'f': 'R', 'out': 'W', '__returns__': 'out',
        '__why__': 'C13-R1 proves every output row is written before the '
                   'final division for all 30 configurations; input only '
                   'read'},
    'resize_array': {
        'arr': 'R', 'out': 'W', '__returns__': 'out',
        '__why__': 'intersection copy + per-axis padding cover the array '
                   '(C16-R3b); input only read (adjoint direction pads a '
                   'copy)'},
    'point_collocation': {
        'func': 'R', 'points': 'R', 'out': 'W', '__returns__': 'out',
        '__why__': 'writes func(points) into out (in-place evaluation) and '
                   'returns it'},
    'pyfftw_call': {
        'array_in': 'R', 'array_out': 'W', '__returns__': None,
        '__why__': 'FFTW plan execution: array_out fully written; '
                   'array_in destroyed only for multi-dim c2r (C03-R8)'},
    'dft_preprocess_data': {
        'arr': 'R', 'out': 'W', '__returns__': 'out',
        '__why__': 'out = arr * phase factors (np.multiply with out=)'},
    'linear_deform': {
        'template': 'R', 'displacement': 'R', 'out': 'W',
        '__returns__': 'out',
        '__why__': 'interpolates the template at the displaced points; with '
                   'out= the interpolator zero-fills / assigns out and then '
                   'accumulates node values of the template into it '
                   '(_PerAxisInterpolator._evaluate: out[:] = 0.0 before '
                   'the reads of self.values): not safe for out sharing '
                   'memory with the template'},
    'dft_postprocess_data': {
        'arr': 'R', 'out': 'W', '__returns__': 'out',
        '__why__': 'out = arr * factors'},
}


class Event(object):
    __slots__ = ('cell', 'kind', 'via', 'line', 'text', 'loop', 'stmt_id')

    def __init__(self, cell, kind, via, node, loop, stmt_id):
        self.cell = cell
        self.kind = kind
        self.via = via          # root parameter name through which accessed
        self.line = getattr(node, 'lineno', 0)
        self.text = ast.unparse(node).replace('\n', ' ')[:90]
        self.loop = loop        # tuple of enclosing loop ids
        self.stmt_id = stmt_id

    def __repr__(self):
        return '%s:%s@%d' % (self.cell, self.kind, self.line)


class PathResult(object):
    def __init__(self):
        self.events = []
        self.returns = []      # (lineno, value node or None)
        self.raised = False
        self.unknown = []      # (lineno, text): tracked buffer handed to an
        #                        unknown callee
        self.alias_kernel = []  # (lineno, text): a summarised kernel gets
        #                         the shared buffer as input and as output
        self.assume = {}
        self.ret_alias = None  # cell/via of a returned tracked name


class _Stop(Exception):
    pass


class Analyzer(object):
    def __init__(self, model, ci, fn, tracked, forced=None, skip_self=True,
                 max_depth=3, alias_mode=False, set_zero_kills=True):
        """``tracked``: {param name: cell name}.  ``forced``: {condition
        text: bool}.  ``alias_mode``: x and out are one object (``x is out``
        is True)."""
        self.model = model
        self.ci = ci
        self.fn = fn
        self.tracked = dict(tracked)
        self.forced = dict(forced or {})
        self.max_depth = max_depth
        self.alias_mode = alias_mode
        # whether E.set_zero() overwrites without reading the old content
        # (derived from _lincomb_impl by C01, not assumed)
        self.set_zero_kills = set_zero_kills

    def _advanced_index(self, sl):
        """Is the subscript expression NumPy *advanced* indexing (result is
        a copy)?  Decided for ``self.<attr>`` whose constructor assigns an
        integer/boolean index array produced by a NumPy call."""
        if isinstance(sl, ast.Attribute) and isinstance(
                sl.value, ast.Name) and sl.value.id == 'self' and self.ci:
            c, init = self.model.lookup(self.ci, '__init__')
            if isinstance(init, ast.FunctionDef):
                for n in ast.walk(init):
                    if isinstance(n, ast.Assign) and any(
                            ast.unparse(t) == ast.unparse(sl)
                            for t in n.targets) and isinstance(
                                n.value, ast.Call):
                        fn_ = ast.unparse(n.value.func)
                        if fn_ in ('np.ravel_multi_index', 'np.nonzero',
                                   'np.where', 'np.flatnonzero',
                                   'np.argsort', 'np.array', 'np.asarray'):
                            return True
        return False

    # ------------------------------------------------------------------
    def run(self, limit=600):
        def once(assume):
            return self._explore(assume)
        leaves = explore(once, limit=limit)
        out = []
        for a, r in leaves:
            r.assume = a
            out.append(r)
        return out

    # ------------------------------------------------------------------
    def _explore(self, assume):
        A = self
        res = PathResult()
        alias = {}      # name -> (cell, partial, via)
        for p, c in A.tracked.items():
            alias[p] = (c, False, p)
        loops = []
        counter = [0]
        closures = {}
        frames = []     # per inlined callee: {condition text: bool}

        def cell(n):
            return alias.get(n)

        def base(e):
            """Strip view-producing wrappers: -> (name, partial)."""
            partial = False
            while True:
                if isinstance(e, ast.Name):
                    return e.id, partial
                if isinstance(e, ast.Attribute) and e.attr in VIEW_ATTRS:
                    e = e.value
                    continue
                if isinstance(e, ast.Attribute) and e.attr in ('real',
                                                               'imag'):
                    e = e.value
                    partial = True
                    continue
                if isinstance(e, ast.Call) and isinstance(
                        e.func, ast.Attribute) and e.func.attr in VIEW_CALLS:
                    e = e.func.value
                    continue
                w = _wrapper_arg(e)
                if w is not None:
                    e = w
                    continue
                if isinstance(e, ast.Subscript):
                    if A._advanced_index(e.slice):
                        return None, False      # fancy indexing: a copy
                    sl = ast.unparse(e.slice)
                    if isinstance(e.value, ast.Name) and cell(e.value.id) \
                            and len(cell(e.value.id)) > 3 and sl == '0':
                        # part 0 of a one-element wrapper: the object itself
                        e = e.value
                        continue
                    if sl not in (':', '...', 'slice(None)', 'Ellipsis'):
                        partial = True
                    e = e.value
                    continue
                if isinstance(e, ast.Starred):
                    e = e.value
                    continue
                return None, False

        def emit(c, kind, node, partial=False):
            k = kind
            if (partial or c[1]) and kind == 'W':
                k = 'PW'
            res.events.append(Event(c[0], k, c[2], node, tuple(loops),
                                    counter[0]))

        def names_in(e):
            return [n for n in ast.walk(e) if isinstance(n, ast.Name)]

        def scan_reads(e, stmt, skip=frozenset()):
            meta = set()
            for n in ast.walk(e):
                if isinstance(n, ast.Attribute) and n.attr in META_ATTRS:
                    b, _ = base(n.value)
                    for m in names_in(n.value):
                        meta.add(id(m))
                if isinstance(n, ast.Compare) and all(
                        isinstance(o, (ast.Is, ast.IsNot)) for o in n.ops):
                    for m in [n.left] + n.comparators:
                        if isinstance(m, ast.Name):
                            meta.add(id(m))
                if isinstance(n, ast.Call) and ast.unparse(n.func) in (
                        'isinstance', 'len', 'type', 'id', 'callable') \
                        and n.args:
                    for m in names_in(n.args[0]):
                        meta.add(id(m))
            for n in ast.walk(e):
                if isinstance(n, ast.Name) and isinstance(n.ctx, ast.Load) \
                        and id(n) not in skip and id(n) not in meta \
                        and cell(n.id):
                    emit(cell(n.id), 'R', stmt if stmt is not None else e)

        def cond(t):
            if isinstance(t, ast.BoolOp):
                if isinstance(t.op, ast.And):
                    for v in t.values:
                        if not cond(v):
                            return False
                    return True
                for v in t.values:
                    if cond(v):
                        return True
                return False
            if isinstance(t, ast.UnaryOp) and isinstance(t.op, ast.Not):
                return not cond(t.operand)
            s = ast.unparse(t)
            if frames:
                if s in frames[-1]:
                    return frames[-1][s]
            elif s in A.forced:
                return A.forced[s]
            # identity of two tracked params
            if isinstance(t, ast.Compare) and len(t.ops) == 1 and isinstance(
                    t.ops[0], (ast.Is, ast.IsNot)):
                l, r = t.left, t.comparators[0]
                if isinstance(l, ast.Name) and isinstance(r, ast.Name) and \
                        l.id in A.tracked and r.id in A.tracked:
                    same = A.alias_mode and (cell(l.id) is not None
                                             and cell(r.id) is not None)
                    if A.alias_mode and (cell(l.id) is None
                                         or cell(r.id) is None):
                        same = False      # one was rebound to a copy
                    return same if isinstance(t.ops[0], ast.Is) else not same
                if isinstance(r, ast.Constant) and r.value is None and \
                        isinstance(l, ast.Name) and l.id in A.tracked:
                    # tracked param is None?
                    isnone = cell(l.id) is None and l.id not in alias
                    v = A.forced.get('%s is None' % l.id)
                    if v is None:
                        v = False
                    return v if isinstance(t.ops[0], ast.Is) else not v
            scan_reads(t, t)
            if s not in assume:
                raise Fork(s)
            return assume[s]

        def mark_skip(e, skip):
            for n in names_in(e):
                skip.add(id(n))

        def callee_summary(fname):
            return SUMMARIES.get(fname)

        def resolve_callee(f):
            """-> ('method', FunctionDef) / ('func', FunctionDef) / None"""
            if isinstance(f, ast.Attribute) and isinstance(
                    f.value, ast.Name) and f.value.id == 'self' and A.ci:
                c, m = A.model.lookup(A.ci, f.attr)
                if isinstance(m, ast.FunctionDef) and not A.ci.is_property(
                        f.attr) and not (c and c.is_property(f.attr)):
                    return ('method', m)
            if isinstance(f, ast.Name):
                if f.id in closures:
                    return ('func', closures[f.id])
                cands = A.model.func_by_name.get(f.id, [])
                if A.ci is not None:
                    same = [fn for rel, fn in cands if rel == A.ci.rel]
                    if same:
                        return ('func', same[0])
                if len(cands) >= 1:
                    return ('func', cands[0][1])
            return None

        def call_effects(c, stmt, depth):
            """-> (writes, skip-ids) ; writes = [(cell, kind, partial)]"""
            wr = []
            skip = set()
            f = c.func
            wa = _wrapper_arg(c)
            if wa is not None:
                # a wrapper around the buffer: alias, not an event
                nm, _p = base(wa)
                if nm and cell(nm):
                    mark_skip(wa, skip)
                return wr, skip
            fname = f.attr if isinstance(f, ast.Attribute) else (
                f.id if isinstance(f, ast.Name) else None)
            tracked_args = []
            for a in list(c.args) + [k.value for k in c.keywords]:
                nm, partial = base(a)
                if nm and cell(nm):
                    tracked_args.append(a)
            # summarised helpers ------------------------------------------------
            if isinstance(f, ast.Name) and f.id in SUMMARIES and tracked_args:
                summ = SUMMARIES[f.id]
                r = resolve_callee(f)
                params = []
                if r:
                    params = [p.arg for p in r[1].args.args]
                bound = {}
                for p, a in zip(params, c.args):
                    bound[p] = a
                for k in c.keywords:
                    if k.arg:
                        bound[k.arg] = k.value
                effs = set()
                for p, a in bound.items():
                    nm, partial = base(a)
                    if nm and cell(nm) and summ.get(p) in ('R', 'W', 'RW'):
                        effs.add(summ.get(p)[0])
                if A.alias_mode and {'R', 'W'} <= effs and not summ.get(
                        '__alias_safe__'):
                    # under `x is out` the kernel receives one buffer as its
                    # input and as its output; a summarised kernel promises
                    # nothing about the order of its reads and writes
                    res.alias_kernel.append((c.lineno, ast.unparse(c)[:80]))
                for p, a in bound.items():
                    nm, partial = base(a)
                    if nm and cell(nm):
                        eff = summ.get(p)
                        if eff is None:
                            res.unknown.append((c.lineno, ast.unparse(c)[:80]))
                        elif eff == 'W':
                            mark_skip(a, skip)
                            wr.append((cell(nm), 'W', partial))
                        elif eff == 'RW':
                            wr.append((cell(nm), 'RMW', partial))
                        # 'R': plain read (left to scan_reads)
                return wr, skip
            # keyword out= ---------------------------------------------------------
            handled = set()
            for k in c.keywords:
                if k.arg == 'out':
                    nm, partial = base(k.value)
                    if nm and cell(nm):
                        mark_skip(k.value, skip)
                        wr.append((cell(nm), 'W', partial))
                        handled.add(id(k.value))
            # receiver.lincomb / assign / set_zero ------------------------------
            if isinstance(f, ast.Attribute) and f.attr in FULL_WRITE_METHODS:
                nm, partial = base(f.value)
                if nm and cell(nm):
                    if f.attr == 'set_zero' and not A.set_zero_kills:
                        # 0*x + 0*x keeps NaN/inf: a read-modify-write
                        wr.append((cell(nm), 'RMW', partial))
                    else:
                        mark_skip(f.value, skip)
                        wr.append((cell(nm), 'W', partial))
                    handled.add(id(f.value))
                else:
                    # space.lincomb(a, x1, b, x2, out)
                    pos = {'lincomb': 4}.get(f.attr)
                    if pos is not None and len(c.args) > pos:
                        nm, partial = base(c.args[pos])
                        if nm and cell(nm):
                            mark_skip(c.args[pos], skip)
                            wr.append((cell(nm), 'W', partial))
                            handled.add(id(c.args[pos]))
            if isinstance(f, ast.Attribute) and f.attr in ('multiply',
                                                           'divide'):
                nm0, _ = base(f.value)
                if not (nm0 and cell(nm0)) and len(c.args) > 2:
                    nm, partial = base(c.args[2])
                    if nm and cell(nm):
                        mark_skip(c.args[2], skip)
                        wr.append((cell(nm), 'W', partial))
                        handled.add(id(c.args[2]))
            # np.<ufunc>(a, b, out) positional ------------------------------------
            if isinstance(f, ast.Attribute) and isinstance(
                    f.value, ast.Name) and f.value.id == 'np':
                if f.attr in NP_POS_OUT and len(c.args) == 3:
                    nm, partial = base(c.args[2])
                    if nm and cell(nm):
                        mark_skip(c.args[2], skip)
                        wr.append((cell(nm), 'W', partial))
                        handled.add(id(c.args[2]))
                if f.attr == 'copyto' and len(c.args) >= 1:
                    nm, partial = base(c.args[0])
                    if nm and cell(nm):
                        mark_skip(c.args[0], skip)
                        wr.append((cell(nm), 'W', partial))
                        handled.add(id(c.args[0]))
            # in-place array methods ------------------------------------------------
            if isinstance(f, ast.Attribute) and f.attr in ('fill', 'sort',
                                                           'put', 'itemset',
                                                           'resize',
                                                           'setfield',
                                                           'partition'):
                nm, partial = base(f.value)
                if nm and cell(nm):
                    kind = 'W' if f.attr == 'fill' else 'RMW'
                    if kind == 'W':
                        mark_skip(f.value, skip)
                    wr.append((cell(nm), kind, partial))
                    handled.add(id(f.value))
            # positional hand-off to repository code: inline -----------------
            unhandled = [a for a in tracked_args if id(a) not in handled]
            if unhandled:
                r = resolve_callee(f)
                pure = _is_pure_callee(f)
                if r is not None and depth < A.max_depth and not pure:
                    kind, m = r
                    off = 1 if kind == 'method' else 0
                    params = [p.arg for p in m.args.args][off:]
                    kwonly = [p.arg for p in m.args.kwonlyargs]
                    saved = dict(alias)
                    newal = {}
                    for p_, a in zip(params, c.args):
                        nm, partial = base(a)
                        if nm and cell(nm):
                            cc = cell(nm)
                            newal[p_] = (cc[0], cc[1] or partial, cc[2])
                    for k in c.keywords:
                        nm, partial = base(k.value)
                        if k.arg and nm and cell(nm):
                            cc = cell(nm)
                            newal[k.arg] = (cc[0], cc[1] or partial, cc[2])
                    # callee locals shadow caller names
                    alias.clear()
                    alias.update(newal)
                    saved_returns = list(res.returns)
                    # which parameters of the callee are None?
                    fr = {}
                    given = {}
                    for p_, a in zip(params, c.args):
                        given[p_] = a
                    for k in c.keywords:
                        if k.arg:
                            given[k.arg] = k.value
                    dflt = {}
                    allp = m.args.args
                    for p_, d in zip(reversed(allp), reversed(
                            m.args.defaults)):
                        dflt[p_.arg] = d
                    for p_, d in zip(m.args.kwonlyargs, m.args.kw_defaults):
                        if d is not None:
                            dflt[p_.arg] = d
                    for p_ in params + kwonly:
                        v = given.get(p_, dflt.get(p_))
                        if v is None:
                            continue
                        isnone = None
                        if isinstance(v, ast.Constant):
                            isnone = v.value is None
                        elif p_ in newal:
                            isnone = False
                        elif isinstance(v, ast.Name):
                            # caller variable: inherit a forced fact
                            key = '%s is None' % v.id
                            src = frames[-1] if frames else A.forced
                            if key in src:
                                isnone = src[key]
                        if isnone is not None:
                            fr['%s is None' % p_] = isnone
                            fr['%s is not None' % p_] = not isnone
                    frames.append(fr)
                    try:
                        try:
                            for t in m.body:
                                do(t, depth + 1)
                        except _Stop:
                            pass
                    finally:
                        frames.pop()
                        ret_cells = [rr for rr in res.returns
                                     if rr not in saved_returns]
                        res.returns[:] = saved_returns
                        if res.raised:
                            # an exception inside a helper ends the path
                            alias.clear()
                            alias.update(saved)
                            raise _Stop()
                        alias.clear()
                        alias.update(saved)
                    for a in list(c.args) + [k.value for k in c.keywords]:
                        mark_skip(a, skip)
                    # what does the helper return?
                    c._ret_cells = ret_cells
                    return wr, skip
                if not pure and r is None:
                    for a in unhandled:
                        nm, partial = base(a)
                        cc = cell(nm)
                        # an unknown callee might write the buffer
                        if cc[0] != 'X' and not (
                                isinstance(f, ast.Attribute)
                                and isinstance(f.value, ast.Name)):
                            res.unknown.append((c.lineno,
                                                ast.unparse(c)[:80]))
                        elif isinstance(f, ast.Attribute) and isinstance(
                                f.value, ast.Name) and f.value.id not in (
                                    'np', 'scipy', 'self', 'math') and \
                                not cell(f.value.id):
                            # method of an untracked object, e.g. op(x):
                            # treated as a read (operators do not write
                            # their input: that is this very rule, applied
                            # to the callee)
                            pass
            return wr, skip

        def do_simple(s, depth):
            counter[0] += 1
            calls = [n for n in ast.walk(s) if isinstance(n, ast.Call)]
            skip = set()
            wr = []
            for c in calls:
                w, sk = call_effects(c, s, depth)
                wr += w
                skip |= sk
            if isinstance(s, ast.Assign):
                for t in s.targets:
                    tl = t.elts if isinstance(t, ast.Tuple) else [t]
                    for tt in tl:
                        if isinstance(tt, (ast.Subscript, ast.Attribute)):
                            nm, partial = base(tt)
                            if nm and cell(nm):
                                for n in names_in(tt):
                                    if n.id == nm:
                                        skip.add(id(n))
                                if isinstance(tt, ast.Attribute) and \
                                        tt.attr not in ('real', 'imag') \
                                        and tt.attr not in VIEW_ATTRS:
                                    continue     # attribute of the object
                                wr.append((cell(nm), 'W', partial))
            if isinstance(s, ast.AugAssign):
                nm, partial = base(s.target)
                if nm and cell(nm):
                    for n in names_in(s.target):
                        if n.id == nm:
                            skip.add(id(n))
                    wr.append((cell(nm), 'RMW', partial))
            scan_reads(s, s, skip)
            for c_, k, partial in wr:
                emit(c_, k, s, partial)
            # aliasing by assignment
            if isinstance(s, ast.Assign) and len(s.targets) == 1:
                t = s.targets[0]
                if isinstance(t, ast.Name):
                    bind_alias(t, s.value, s)
                elif isinstance(t, ast.Tuple) and isinstance(s.value,
                                                             ast.Tuple):
                    vals = [base(v) for v in s.value.elts]
                    cells_ = [cell(nm) if nm else None for nm, _ in vals]
                    for tt, (nm, partial), cc in zip(t.elts, vals, cells_):
                        if isinstance(tt, ast.Name):
                            if cc:
                                alias[tt.id] = (cc[0], cc[1] or partial,
                                                cc[2])
                            else:
                                alias.pop(tt.id, None)
                elif isinstance(t, ast.Tuple):
                    for tt in t.elts:
                        if isinstance(tt, ast.Name):
                            alias.pop(tt.id, None)
            if isinstance(s, ast.AugAssign) and isinstance(s.target,
                                                           ast.Name):
                pass

        def bind_alias(t, value, s):
            nm, partial = base(value)
            is_view = nm is not None and _is_pure_view(value)
            if nm and cell(nm) and is_view:
                cc = cell(nm)
                if _is_wrapper_element(value):
                    alias[t.id] = (cc[0], cc[1] or partial, cc[2], 'wrap')
                else:
                    alias[t.id] = (cc[0], cc[1] or partial, cc[2])
                # creating a view is not a read
                while res.events and res.events[-1].kind == 'R' and \
                        res.events[-1].stmt_id == counter[0]:
                    res.events.pop()
                return
            # IfExp choosing between views/None
            if isinstance(value, ast.IfExp):
                try:
                    v = value.body if cond(value.test) else value.orelse
                    return bind_alias(t, v, s)
                except Fork:
                    raise
            # result of an inlined helper that returns its out parameter
            if isinstance(value, ast.Call):
                rc = getattr(value, '_ret_cells', None)
                if rc:
                    for ln, node, al in rc:
                        if al is not None:
                            alias[t.id] = al
                            return
                # op(x, out=out) returns out
                for k in value.keywords:
                    if k.arg == 'out':
                        nm2, p2 = base(k.value)
                        if nm2 and cell(nm2):
                            cc = cell(nm2)
                            if isinstance(k.value, ast.Name):
                                alias[t.id] = cell(k.value.id)
                            else:
                                alias[t.id] = (cc[0], cc[1] or p2, cc[2])
                            return
                fn_ = value.func
                if isinstance(fn_, ast.Name) and fn_.id in SUMMARIES:
                    rp = SUMMARIES[fn_.id].get('__returns__')
                    # returned object is the out parameter
                    if rp:
                        for k in value.keywords:
                            if k.arg == rp:
                                nm2, p2 = base(k.value)
                                if nm2 and cell(nm2):
                                    cc = cell(nm2)
                                    alias[t.id] = (cc[0], cc[1] or p2, cc[2])
                                    return
            alias.pop(t.id, None)

        def do(s, depth=0):
            if isinstance(s, ast.Expr) and isinstance(s.value, ast.Constant):
                return
            if isinstance(s, (ast.Import, ast.ImportFrom, ast.Pass,
                              ast.Assert, ast.Global, ast.Nonlocal,
                              ast.ClassDef)):
                return
            if isinstance(s, ast.FunctionDef):
                closures[s.name] = s
                return
            if isinstance(s, ast.Raise):
                res.raised = True
                raise _Stop()
            if isinstance(s, ast.If):
                for t in (s.body if cond(s.test) else s.orelse):
                    do(t, depth)
                return
            if isinstance(s, ast.Return):
                al = None
                if s.value is not None:
                    do_simple(ast.Expr(value=s.value, lineno=s.lineno),
                              depth)
                    nm, partial = base(s.value)
                    if nm and cell(nm) and _is_pure_view(s.value):
                        cc = cell(nm)
                        al = cc if not partial else \
                            (cc[0], True, cc[2]) + tuple(cc[3:])
                        # returning the object itself is not a content read
                        while res.events and res.events[-1].kind == 'R' and \
                                res.events[-1].stmt_id == counter[0]:
                            res.events.pop()
                res.returns.append((s.lineno, s.value, al))
                raise _Stop()
            if isinstance(s, ast.With):
                for it in s.items:
                    ce = it.context_expr
                    ov = it.optional_vars
                    if isinstance(ce, ast.IfExp):
                        ce = ce.body if cond(ce.test) else ce.orelse
                    if isinstance(ov, ast.Name) and (
                            (isinstance(ce, ast.Call) and ast.unparse(
                                ce.func) == 'writable_array')
                            or isinstance(ce, ast.Name)):
                        nm, partial = base(ce)
                        if nm and cell(nm):
                            cc = cell(nm)
                            alias[ov.id] = (cc[0], cc[1] or partial, cc[2])
                        else:
                            alias.pop(ov.id, None)
                    else:
                        do_simple(ast.Expr(value=ce, lineno=s.lineno), depth)
                        if isinstance(ov, ast.Name):
                            alias.pop(ov.id, None)
                for t in s.body:
                    do(t, depth)
                return
            if isinstance(s, ast.For):
                it = s.iter
                saved = dict(alias)

                def bind(t, a):
                    nm, partial = base(a)
                    if isinstance(t, ast.Name) and nm and cell(nm):
                        cc = cell(nm)
                        # a component of a product-space element: writing
                        # every component in the loop covers the whole
                        alias[t.id] = (cc[0], cc[1], cc[2])
                        return True
                    if isinstance(t, ast.Name):
                        alias.pop(t.id, None)
                    return False
                if isinstance(it, ast.Call) and ast.unparse(it.func) == 'zip' \
                        and isinstance(s.target, ast.Tuple):
                    for t, a in zip(s.target.elts, it.args):
                        bind(t, a)
                elif isinstance(it, ast.Call) and ast.unparse(it.func) == \
                        'enumerate' and isinstance(s.target, ast.Tuple) \
                        and len(s.target.elts) == 2:
                    a = it.args[0]
                    if isinstance(a, ast.Call) and ast.unparse(a.func) == \
                            'zip' and isinstance(s.target.elts[1],
                                                 ast.Tuple):
                        for t, b in zip(s.target.elts[1].elts, a.args):
                            bind(t, b)
                    else:
                        bind(s.target.elts[1], a)
                else:
                    if not bind(s.target, it):
                        scan_reads(it, s)
                loops.append(id(s))
                peel = None
                if isinstance(s.target, ast.Name) and isinstance(
                        it, ast.Call) and ast.unparse(it.func) == 'range' \
                        and len(it.args) == 1:
                    peel = s.target.id
                try:
                    if peel is None:
                        for t in s.body:
                            do(t, depth)
                    else:
                        # first trip: induction variable is 0; later trips:
                        # it is not
                        keys = {'%s == 0' % peel: True, '%s != 0' % peel:
                                False, '%s > 0' % peel: False}
                        old_f = {k: A.forced.get(k) for k in keys}
                        for first in (True, False):
                            for k, v in keys.items():
                                A.forced[k] = v if first else not v
                            try:
                                for t in s.body:
                                    do(t, depth)
                            finally:
                                for k, v in old_f.items():
                                    if v is None:
                                        A.forced.pop(k, None)
                                    else:
                                        A.forced[k] = v
                finally:
                    loops.pop()
                for k in list(alias):
                    if k not in saved:
                        del alias[k]
                for k, v in saved.items():
                    alias.setdefault(k, v)
                return
            if isinstance(s, ast.While):
                try:
                    cond(s.test)
                except Fork:
                    pass
                loops.append(id(s))
                try:
                    for t in s.body:
                        do(t, depth)
                finally:
                    loops.pop()
                return
            if isinstance(s, ast.Try):
                for t in s.body:
                    do(t, depth)
                for t in s.orelse:
                    do(t, depth)
                for t in s.finalbody:
                    do(t, depth)
                return
            if isinstance(s, (ast.Break, ast.Continue)):
                return
            do_simple(s, depth)

        try:
            for s in A.fn.body:
                do(s)
        except _Stop:
            pass
        return res


def _wrapper_arg(e):
    """``writable_array(X)`` / ``<space>.element([X], cast=False)`` ->
    X (the wrapper shares X's memory / holds X itself as its only part)."""
    if isinstance(e, ast.Call):
        if isinstance(e.func, ast.Name) and e.func.id == 'writable_array' \
                and e.args:
            return e.args[0]
        if isinstance(e.func, ast.Attribute) and e.func.attr == 'element' \
                and len(e.args) == 1 and isinstance(e.args[0], ast.List) \
                and len(e.args[0].elts) == 1 and any(
                    k.arg == 'cast' and isinstance(k.value, ast.Constant)
                    and k.value.value is False for k in e.keywords):
            return e.args[0].elts[0]
    return None


def _is_wrapper_element(e):
    return (isinstance(e, ast.Call) and isinstance(e.func, ast.Attribute)
            and e.func.attr == 'element' and _wrapper_arg(e) is not None)


def _is_pure_view(e):
    """Is ``e`` a chain of view-producing wrappers around a name?"""
    while True:
        if isinstance(e, ast.Name):
            return True
        w = _wrapper_arg(e)
        if w is not None:
            e = w
            continue
        if isinstance(e, ast.Attribute) and (e.attr in VIEW_ATTRS or e.attr
                                             in ('real', 'imag')):
            e = e.value
            continue
        if isinstance(e, ast.Call) and isinstance(e.func, ast.Attribute) \
                and e.func.attr in VIEW_CALLS:
            e = e.func.value
            continue
        if isinstance(e, ast.Subscript):
            e = e.value
            continue
        return False


PURE_NP = {'np', 'numpy', 'math', 'scipy'}


def _is_pure_callee(f):
    """Callees that never write their positional arguments (NumPy functions
    without out=, builtins)."""
    if isinstance(f, ast.Name):
        return f.id in ('len', 'isinstance', 'type', 'zip', 'enumerate',
                        'range', 'list', 'tuple', 'float', 'int', 'complex',
                        'abs', 'max', 'min', 'sum', 'iter', 'str', 'repr',
                        'getattr', 'hasattr', 'callable', 'sorted', 'any',
                        'all', 'print', 'id', 'bool', 'super', 'slice',
                        'reversed', 'map', 'filter', 'set', 'dict')
    if isinstance(f, ast.Attribute):
        root = f
        while isinstance(root, ast.Attribute):
            root = root.value
        if isinstance(root, ast.Name) and root.id in PURE_NP:
            return f.attr not in NP_POS_OUT or True
    return False
