"""Quadratic-model evaluator shared by C07, C08, C09 (DESIGN.md, "Quadratic-
model evaluator").

The space is the real line with a symbolic positive weight ``w``:
``<x, y> = w*x*y``.  Vectors are ``t*e``; a generic leaf functional is the
convex quadratic ``F(t) = (a/2) t^2 + b t + c`` whose gradient, Lipschitz
constant, convex conjugate and proximal are known in closed form *in that
weighted space* (the oracle).  Derived functionals and proximal factories of
the repository are evaluated by the symbolic interpreter on this model and
compared with the oracle applied to their own denotation.
"""
from __future__ import annotations

import ast

from .core import Undecided
from .ratfun import Rat, Poly, SAtom, satom
from . import vs
from .symex import (Interp, Inst, OpV, Vec, SpaceV, FieldV, Func, Bound,
                    Builtin, Opaque, PyRaise, is_scalar, to_rat, NPV)
from .opalg import OpHooks, apply

E = ('sym', 'e')
W = Rat.var('w')
T = Rat.var('t')


def coef(v):
    """Coefficient of the 1-d vector."""
    lf = v.val if isinstance(v, Vec) else v
    # pointwise products of the basis vector with itself: e.e = e on the line
    if any(isinstance(k, tuple) and k and k[0] == 'mul' and all(
            f == E for f in k[1]) for k in lf):
        red = {}
        for k, c in lf.items():
            kk = E if (isinstance(k, tuple) and k and k[0] == 'mul' and all(
                f == E for f in k[1])) else k
            red[kk] = red.get(kk, vs.ZERO) + c
        lf = red
    extra = [k for k in lf if k != E]
    if extra:
        raise Undecided('vector outside the 1-d model: %s' % vs.show(lf))
    return lf.get(E, vs.ZERO)


def vec(r, space):
    r = to_rat(r)
    return Vec({E: r} if not r.is_zero() else {}, space)


class OFun1(vs.Op):
    """Operator t*e -> fn(t)*e (fn: Rat -> Rat)."""

    def __init__(self, fn, linear=False, name='op1'):
        self.fn = fn
        self.linear = linear
        self.name = name

    def apply(self, lf):
        r = self.fn(coef(lf))
        return {E: r} if not r.is_zero() else {}

    def adj(self):
        # a linear map t -> l*t on the weighted line is self-adjoint
        return self

    def deriv(self, pt):
        if self.linear:
            return self
        t0 = coef(pt)
        s = Rat.var('_d')
        d = self.fn(s).diff('_d').subs({'_d': t0})
        return OFun1(lambda h, d=d: d * h, True, 'D' + self.name)


class Quad(object):
    """F(t) = (a/2) t^2 + b t + c on the weighted line."""

    def __init__(self, a, b, c):
        self.a, self.b, self.c = to_rat(a), to_rat(b), to_rat(c)

    def value(self, t):
        return self.a * t * t / 2 + self.b * t + self.c

    def grad(self, t):
        return (self.a * t + self.b) / W

    def prox(self, sigma, t):
        return (W * t - sigma * self.b) / (W + sigma * self.a)

    def conj(self):
        # sup_x w*x*y - F(x) = (w y - b)^2 / (2a) - c
        return Quad(W * W / self.a, -W * self.b / self.a,
                    self.b * self.b / (self.a * 2) - self.c)

    def lipschitz(self):
        return self.a / W

    @staticmethod
    def of(expr, var='t'):
        """Quadratic with the given value expression (Rat in ``var``)."""
        if var in expr.d.vars():
            raise Undecided('denotation is not a polynomial in t: %r'
                            % (expr,))
        d1 = expr.diff(var)
        d2 = d1.diff(var)
        if var in d2.vars():
            raise Undecided('denotation is not quadratic in t: %r' % (expr,))
        zero = {var: Rat.const(0)}
        return Quad(d2, d1.subs(zero), expr.subs(zero))


class QHooks(OpHooks):
    """Leaf functionals are quadratics with oracle attributes; inner
    products and norms are those of the weighted line."""

    def __init__(self):
        OpHooks.__init__(self)
        self.X = SpaceV('X', 'R')
        self.leaves = {}
        self.unknown_lipschitz = set()   # leaves that declare no bound (nan)

    def leaf(self, I, name, q=None):
        if name in self.leaves:
            return self.leaves[name]
        if q is None:
            q = Quad(Rat.var('a_' + name), Rat.var('b_' + name),
                     Rat.var('c_' + name))
        term = vs.OSym(name, False, I.reg)
        f = OpV(term, self.X, self.X.field, False, functional=True)
        f.quad = q
        self.leaves[name] = f
        return f

    def fun_attrs(self, I, f, name):
        q = f.quad
        nm = f.term.name
        if name == 'gradient':
            return OpV(OFun1(q.grad, False, 'grad_' + nm), self.X, self.X,
                       False)
        if name == 'proximal':
            def prox(sigma=1.0):
                s = to_rat(sigma)
                return OpV(OFun1(lambda t, s=s: q.prox(s, t), False,
                                 'prox_' + nm), self.X, self.X, False)
            return Builtin('proximal', prox)
        if name == 'convex_conj':
            return self.leaf(I, nm + '*', q.conj())
        if name == 'grad_lipschitz':
            if nm in self.unknown_lipschitz:
                return Opaque('np.nan')
            return q.lipschitz()
        if name == 'translated':
            dc, m = I.model.lookup(I.model.get('Functional'), 'translated')
            return Bound(Func(m, I.env_of(dc.rel), dc), f)
        return None

    def on_getattr(self, interp, obj, name):
        I = interp
        if isinstance(obj, OpV) and getattr(obj, 'quad', None) is not None:
            r = self.fun_attrs(I, obj, name)
            if r is not None:
                return r
        if isinstance(obj, Vec):
            if name == 'inner':
                return Builtin('inner', lambda o: W * coef(obj) * coef(o))
            if name == 'norm':
                def norm():
                    c = coef(obj)
                    return Rat.var(satom('sqrt', W * c * c))
                return Builtin('norm', norm)
            if name == 'T':
                c = coef(obj)
                t = OFun1(lambda t, c=c: W * c * t, True, 'T')
                f = OpV(vs.OSym('T#%r' % (c,), True, I.reg), self.X,
                        self.X.field, True, functional=True)
                f.quad = Quad(0, W * c, 0)
                return f
        if isinstance(obj, SpaceV) and obj is self.X:
            if name == 'size':
                return 1
            if name == 'weighting':
                from .symex import Rec
                return Rec('NumpyTensorSpaceConstWeighting', const=W)
            if name == 'dtype':
                return Opaque('dtype')
        if is_scalar(obj) and name == 'imag':
            return 0
        if is_scalar(obj) and name == 'real':
            return obj
        if obj is NPV and name == 'sqrt':
            def sq(v):
                r = to_rat(v)
                if r.is_const() and r.constant() in (0, 1):
                    return r
                return Rat.var(satom('sqrt', r))
            return Builtin('np.sqrt', sq)
        return OpHooks.on_getattr(self, interp, obj, name)

    def on_call(self, interp, f, args, kwargs, node):
        if isinstance(f, OpV) and getattr(f, 'quad', None) is not None:
            x = args[0]
            if kwargs.get('out') is not None:
                raise PyRaise('TypeError')
            return f.quad.value(coef(x))
        return OpHooks.on_call(self, interp, f, args, kwargs, node)

    def on_decide(self, interp, cond, node):
        # parameters are generic positive numbers
        if cond.rat is not None:
            if cond.key.startswith('eq0:'):
                return False
            if cond.key.startswith(('Lt:', 'LtE:')):
                return False
            if cond.key.startswith(('Gt:', 'GtE:')):
                return True
        return OpHooks.on_decide(self, interp, cond, node)


class QInterp(Interp):
    """1-d pointwise products: (s e)(t e) = (s t) e."""

    def prim_multiply(self, x1, x2, out):
        r = {E: coef(x1) * coef(x2)}
        if out is None:
            return Vec(r, x1.space)
        out.val = r
        return out

    def prim_divide(self, x1, x2, out):
        r = {E: coef(x1) / coef(x2)}
        if out is None:
            return Vec(r, x1.space)
        out.val = r
        return out

    def assign(self, t, v, scope, func):
        # element access on the 1-d vector: x[0] / x[-1] is the coefficient
        if isinstance(t, ast.Subscript):
            obj = self.ev(t.value, scope, func)
            if isinstance(obj, Vec) and not isinstance(t.slice, ast.Slice):
                idx = self.ev(t.slice, scope, func)
                if idx in (0, -1) and is_scalar(v):
                    r = to_rat(v)
                    obj.val = {E: r} if not r.is_zero() else {}
                    return
        return Interp.assign(self, t, v, scope, func)

    def binop(self, op, l, r):
        if isinstance(l, Vec) and isinstance(r, Vec) and op in (ast.Mult,
                                                                ast.Div):
            c = coef(l) * coef(r) if op is ast.Mult else coef(l) / coef(r)
            return Vec({E: c}, l.space)
        if isinstance(l, Vec) and is_scalar(r) and op in (ast.Add, ast.Sub):
            raise Undecided('vector plus scalar in the 1-d model')
        if isinstance(r, Vec) and is_scalar(l) and op is ast.Div:
            return Vec({E: to_rat(l) / coef(r)}, r.space)
        return Interp.binop(self, op, l, r)


def sqrt_reduce(r):
    """Apply sqrt(z)^2 = z."""
    rules = {}
    for v in r.vars():
        if isinstance(v, SAtom) and v[0] == 'sqrt':
            z = v[1]
            if isinstance(z, Rat) and z.d.is_const():
                rules[(v, 2)] = z.n * Poly.const(1 / z.d.constant())
    if not rules:
        return r
    # clear denominators containing sqrt by multiplying with the conjugate
    # is not needed for the forms met here: reduce numerator and denominator
    return r.reduce(rules)


def req(a, b):
    """Equality of two Rats modulo sqrt(z)^2 = z (cross-multiplied)."""
    a, b = to_rat(a), to_rat(b)
    d = a - b
    n = sqrt_reduce(Rat(d.n))
    if n.is_zero():
        return True
    # odd powers of a sqrt may remain although the difference vanishes only
    # after one more reduction of the product
    return sqrt_reduce(n * n).is_zero() and False
