"""E6 -- affine slice algebra.

Abstract interpretation of straight-line NumPy slice code over 1-D arrays of
a *concrete* length ``n`` whose entries are *symbolic*: every array entry is
an affine form (``Aff``) over input entries and named constants with exact
``Fraction`` coefficients.  The interpreter understands exactly the statement
kinds listed in ``AffInterp.stmt``; anything else raises ``Undecided``.
"""
from __future__ import annotations

import ast
from fractions import Fraction as Fr

from .core import Undecided


class Aff(dict):
    """Affine form ``{key: Fraction}``; key ``'1'`` is the constant term."""

    def __add__(a, b):
        r = dict(a)
        for k, v in b.items():
            r[k] = r.get(k, 0) + v
        return Aff({k: v for k, v in r.items() if v != 0})

    def __neg__(a):
        return Aff({k: -v for k, v in a.items()})

    def __sub__(a, b):
        return a + (-b)

    def scale(a, s):
        return Aff({k: v * s for k, v in a.items() if v * s != 0})

    def const(a):
        """Fraction if the form is a pure number, else None."""
        if set(a) <= {'1'}:
            return a.get('1', Fr(0))
        return None

    @staticmethod
    def num(v):
        v = Fr(v)
        return Aff({'1': v}) if v != 0 else Aff()

    @staticmethod
    def sym(k):
        return Aff({k: Fr(1)})

    def show(a):
        if not a:
            return '0'
        parts = []
        for k in sorted(a, key=str):
            c = a[k]
            name = '' if k == '1' else (
                '%s[%d]' % k if isinstance(k, tuple) else str(k))
            parts.append('%s%s' % (c if (c != 1 or not name) else '',
                                   ('*' if c != 1 and name else '') + name))
        return ' + '.join(parts)


def num_of(node):
    """Exact rational value of a numeric literal (floats read exactly as
    written: 0.5 -> 1/2, 1.5 -> 3/2)."""
    if isinstance(node, ast.Constant) and isinstance(node.value, (int, float)) \
            and not isinstance(node.value, bool):
        if isinstance(node.value, int):
            return Fr(node.value)
        return Fr(repr(node.value))
    if isinstance(node, ast.UnaryOp) and isinstance(node.op, ast.USub):
        v = num_of(node.operand)
        return None if v is None else -v
    return None


class View(object):
    """A 1-D view: base array (python list of Aff/None) + index list."""

    def __init__(self, base, idx):
        self.base = base
        self.idx = list(idx)

    def __len__(self):
        return len(self.idx)

    def get(self):
        # an entry that was never written holds garbage (np.empty): it is
        # read as a poison symbol, so that a result that depends on it can
        # be reported instead of aborting the analysis
        return [Aff.sym(('UNDEF', i)) if self.base[i] is None
                else self.base[i] for i in self.idx]

    def sub(self, pyidx):
        """Apply a Python int or slice to this view (Python semantics)."""
        if isinstance(pyidx, slice):
            return View(self.base, self.idx[pyidx])
        k = pyidx
        if k < 0:
            k += len(self.idx)
        if not 0 <= k < len(self.idx):
            raise IndexError(pyidx)
        return Scalar(self.base, self.idx[k])


class Scalar(object):
    """A single entry of a base array (``a[k]``)."""

    def __init__(self, base, i):
        self.base = base
        self.i = i

    def get(self):
        v = self.base[self.i]
        if v is None:
            return Aff.sym(('UNDEF', self.i))
        return v


class AffInterp(object):
    """Interpreter for one function body at a concrete length ``n``.

    ``arrays``: name -> python list (the storage); entries ``None`` mean
    undefined.  ``env``: name -> python constant (str/int/bool) used to decide
    branch conditions.  ``scalars``: name -> Aff for symbolic scalars.
    ``ignore_div``: names ``d`` such that ``<arr> /= d`` over a whole array is
    counted (not applied) -- the common step-size division.
    """

    def __init__(self, arrays, env=None, scalars=None, count_div=()):
        self.arrays = dict(arrays)
        self.env = dict(env or {})
        self.scalars = dict(scalars or {})
        self.count_div = set(count_div)
        self.div_count = {}
        self.returned = None

    # ---- indices ---------------------------------------------------------
    def int_of(self, node):
        if node is None:
            return None
        v = num_of(node)
        if v is not None and v.denominator == 1:
            return int(v)
        if isinstance(node, ast.Name) and isinstance(
                self.env.get(node.id), int):
            return self.env[node.id]
        if isinstance(node, ast.BinOp):
            l, r = self.int_of(node.left), self.int_of(node.right)
            if isinstance(node.op, ast.Add):
                return l + r
            if isinstance(node.op, ast.Sub):
                return l - r
            if isinstance(node.op, ast.Mult):
                return l * r
            if isinstance(node.op, ast.FloorDiv):
                return l // r
        raise Undecided('index expression %s' % ast.unparse(node))

    def index(self, node):
        if isinstance(node, ast.Slice):
            return slice(self.int_of(node.lower), self.int_of(node.upper),
                         self.int_of(node.step))
        if isinstance(node, ast.Constant) and node.value is Ellipsis:
            return slice(None)
        return self.int_of(node)

    def ref(self, node):
        """``name`` or ``name[idx]`` -> View / Scalar of a tracked array."""
        if isinstance(node, ast.Name) and node.id in self.arrays:
            a = self.arrays[node.id]
            return View(a, range(len(a)))
        if isinstance(node, ast.Subscript):
            inner = self.ref(node.value)
            if inner is None or isinstance(inner, Scalar):
                return None
            return inner.sub(self.index(node.slice))
        return None

    # ---- expressions -----------------------------------------------------
    def val(self, node):
        """Evaluate to Aff (scalar) or list of Aff (vector)."""
        v = num_of(node)
        if v is not None:
            return Aff.num(v)
        if isinstance(node, ast.Name):
            if node.id in self.scalars:
                return self.scalars[node.id]
            if node.id in self.arrays:
                return self.ref(node).get()
            if isinstance(self.env.get(node.id), (int, float)):
                return Aff.num(Fr(repr(self.env[node.id])))
            raise Undecided('unknown name %s' % node.id)
        if isinstance(node, ast.Subscript):
            r = self.ref(node)
            if r is None:
                raise Undecided('subscript %s' % ast.unparse(node))
            return r.get()
        if isinstance(node, ast.UnaryOp):
            if isinstance(node.op, ast.USub):
                return self._map1(lambda a: -a, self.val(node.operand))
            if isinstance(node.op, ast.UAdd):
                return self.val(node.operand)
        if isinstance(node, ast.BinOp):
            l, r = self.val(node.left), self.val(node.right)
            if isinstance(node.op, ast.Add):
                return self._map2(lambda a, b: a + b, l, r)
            if isinstance(node.op, ast.Sub):
                return self._map2(lambda a, b: a - b, l, r)
            if isinstance(node.op, ast.Mult):
                return self._map2(self._mul, l, r)
            if isinstance(node.op, ast.Div):
                return self._map2(self._div, l, r)
        if isinstance(node, ast.Call):
            fn = ast.unparse(node.func)
            if fn in ('np.subtract', 'np.add', 'np.multiply', 'np.divide') \
                    and len(node.args) == 2 and not node.keywords:
                l, r = self.val(node.args[0]), self.val(node.args[1])
                op = {'np.subtract': lambda a, b: a - b,
                      'np.add': lambda a, b: a + b,
                      'np.multiply': self._mul,
                      'np.divide': self._div}[fn]
                return self._map2(op, l, r)
            if fn in ('np.negative',) and len(node.args) == 1:
                return self._map1(lambda a: -a, self.val(node.args[0]))
        raise Undecided('expression %s' % ast.unparse(node))

    @staticmethod
    def _mul(a, b):
        if a.const() is not None:
            return b.scale(a.const())
        if b.const() is not None:
            return a.scale(b.const())
        raise Undecided('product of two non-constant forms')

    @staticmethod
    def _div(a, b):
        c = b.const()
        if c is None or c == 0:
            raise Undecided('division by a non-constant form')
        return a.scale(1 / c)

    @staticmethod
    def _map1(f, a):
        return [f(x) for x in a] if isinstance(a, list) else f(a)

    @staticmethod
    def _map2(f, a, b):
        la, lb = isinstance(a, list), isinstance(b, list)
        if la and lb:
            if len(a) != len(b):
                if len(a) == 1:
                    a = a * len(b)
                elif len(b) == 1:
                    b = b * len(a)
                else:
                    raise Undecided('shape mismatch %d vs %d'
                                    % (len(a), len(b)))
            return [f(x, y) for x, y in zip(a, b)]
        if la:
            return [f(x, b) for x in a]
        if lb:
            return [f(a, y) for y in b]
        return f(a, b)

    # ---- conditions ------------------------------------------------------
    def test(self, node):
        if isinstance(node, ast.Compare) and len(node.ops) == 1:
            l, r = node.left, node.comparators[0]
            lv, rv = self.pyconst(l), self.pyconst(r)
            op = node.ops[0]
            if isinstance(op, ast.Eq):
                return lv == rv
            if isinstance(op, ast.NotEq):
                return lv != rv
            if isinstance(op, ast.In):
                return lv in rv
            if isinstance(op, ast.NotIn):
                return lv not in rv
            if isinstance(op, ast.Lt):
                return lv < rv
            if isinstance(op, ast.LtE):
                return lv <= rv
            if isinstance(op, ast.Gt):
                return lv > rv
            if isinstance(op, ast.GtE):
                return lv >= rv
        if isinstance(node, ast.BoolOp):
            vs = [self.test(v) for v in node.values]
            return all(vs) if isinstance(node.op, ast.And) else any(vs)
        if isinstance(node, ast.UnaryOp) and isinstance(node.op, ast.Not):
            return not self.test(node.operand)
        raise Undecided('condition %s' % ast.unparse(node))

    def pyconst(self, node):
        if isinstance(node, ast.Name) and node.id in self.env:
            return self.env[node.id]
        try:
            return ast.literal_eval(node)
        except Exception:
            raise Undecided('condition operand %s' % ast.unparse(node))

    # ---- statements ------------------------------------------------------
    def assign_to(self, target, value):
        """Store ``value`` (Aff or list) into View/Scalar ``target``."""
        if isinstance(target, Scalar):
            if isinstance(value, list):
                if len(value) != 1:
                    raise Undecided('vector stored to scalar entry')
                value = value[0]
            target.base[target.i] = value
        else:
            if not isinstance(value, list):
                value = [value] * len(target)
            if len(value) != len(target):
                if len(value) == 1:
                    value = value * len(target)
                else:
                    raise Undecided('store of %d values into %d entries'
                                    % (len(value), len(target)))
            for i, v in zip(target.idx, value):
                target.base[i] = v

    def stmt(self, s):
        if isinstance(s, ast.If):
            for t in (s.body if self.test(s.test) else s.orelse):
                self.stmt(t)
            return
        if isinstance(s, ast.Expr) and isinstance(s.value, ast.Constant):
            return
        if isinstance(s, ast.Pass):
            return
        if isinstance(s, ast.Expr) and isinstance(s.value, ast.Call):
            c = s.value
            outs = [k.value for k in c.keywords if k.arg == 'out']
            if len(outs) == 1:
                tgt = self.ref(outs[0])
                if tgt is None:
                    raise Undecided('out= target %s' % ast.unparse(outs[0]))
                call = ast.Call(func=c.func, args=c.args, keywords=[
                    k for k in c.keywords if k.arg != 'out'])
                self.assign_to(tgt, self.val(call))
                return
            raise Undecided('call statement %s' % ast.unparse(s)[:60])
        if isinstance(s, ast.AugAssign):
            if (isinstance(s.target, ast.Name)
                    and s.target.id in self.arrays
                    and isinstance(s.op, ast.Div)
                    and isinstance(s.value, ast.Name)
                    and s.value.id in self.count_div):
                key = (s.target.id, s.value.id)
                # every entry must be defined by now
                self.ref(s.target).get()
                self.div_count[key] = self.div_count.get(key, 0) + 1
                return
            tgt = self.ref(s.target)
            if tgt is None:
                raise Undecided('augmented target %s'
                                % ast.unparse(s.target))
            cur = tgt.get()
            v = self.val(s.value)
            if isinstance(s.op, ast.Add):
                new = self._map2(lambda a, b: a + b, cur, v)
            elif isinstance(s.op, ast.Sub):
                new = self._map2(lambda a, b: a - b, cur, v)
            elif isinstance(s.op, ast.Mult):
                new = self._map2(self._mul, cur, v)
            elif isinstance(s.op, ast.Div):
                new = self._map2(self._div, cur, v)
            else:
                raise Undecided('augmented operator in %s' % ast.unparse(s))
            self.assign_to(tgt, new)
            return
        if isinstance(s, ast.Assign) and len(s.targets) == 1:
            tgt = self.ref(s.targets[0]) if isinstance(
                s.targets[0], ast.Subscript) else None
            if tgt is None:
                raise Undecided('assignment target %s'
                                % ast.unparse(s.targets[0]))
            self.assign_to(tgt, self.val(s.value))
            return
        if isinstance(s, ast.Raise):
            raise Undecided('raise reached: %s' % ast.unparse(s)[:60])
        raise Undecided('statement %s' % ast.unparse(s)[:60])


def touches(stmt, names):
    """Does ``stmt`` store into / pass as out= / rebind one of ``names``?"""
    for n in ast.walk(stmt):
        if isinstance(n, (ast.Assign, ast.AugAssign, ast.AnnAssign)):
            tgts = n.targets if isinstance(n, ast.Assign) else [n.target]
            for t in tgts:
                for m in ast.walk(t):
                    if isinstance(m, ast.Name) and m.id in names:
                        return True
        if isinstance(n, ast.keyword) and n.arg == 'out':
            for m in ast.walk(n.value):
                if isinstance(m, ast.Name) and m.id in names:
                    return True
    return False


def transpose(M):
    return [list(r) for r in zip(*M)]


def neg(M):
    return [[-x for x in r] for r in M]


def show_matrix(M):
    return '[' + '; '.join(' '.join(str(x) for x in r) for r in M) + ']'
