"""E3 core -- the free vector-space algebra used for value numbering.

Vector values are *linear forms* ``{atom: Rat}``: finite sums of atoms with
rational-function scalar coefficients.  Atoms are hashable tuples:

* ``('sym', name)``                       a vector symbol
* ``('app', opkey, arg)``                 operator application; for a linear
                                          operator ``arg`` is an atom (the
                                          operator distributes over sums),
                                          otherwise a frozen linear form
* ``('mul', (a1, a2, ...))``              pointwise product of atoms (sorted)
* ``('div', a, frozen)``                  pointwise quotient atom / form
* ``('pow', frozen, key)``                pointwise power
* ``('conj', a)``                         complex conjugate of an atom
* ``('fn', name, args...)``               uninterpreted function

Axioms: vector-space laws, bilinearity and commutativity of the pointwise
product, anti-linearity and involutivity of ``conj``, linearity of an operator
symbol iff it was declared linear.  Two values are equal iff their normal
forms coincide; everything else stays uninterpreted.
"""
from __future__ import annotations

from .core import Undecided
from .ratfun import Rat, Poly, SAtom

ONE = Rat.const(1)
ZERO = Rat.const(0)


# ---- canonical keys --------------------------------------------------------
def akey(x):
    if isinstance(x, tuple):
        return ('T',) + tuple(akey(e) for e in x)
    if isinstance(x, Rat):
        return ('R', str(hash(x)))
    if isinstance(x, Poly):
        return ('P', str(hash(Rat(x))))
    return ('L', type(x).__name__, repr(x))


def freeze(lf):
    items = [(k, v) for k, v in lf.items() if not v.is_zero()]
    items.sort(key=lambda kv: (akey(kv[0]), hash(kv[1])))
    return tuple(items)


def thaw(fz):
    return {k: v for k, v in fz}


def lf_eq(a, b):
    return freeze(a) == freeze(b)


# ---- scalars -----------------------------------------------------------------
def S(x):
    """Coerce python number / Rat / Poly to Rat."""
    if isinstance(x, Rat):
        return x
    if isinstance(x, Poly):
        return Rat(x)
    if isinstance(x, bool):
        raise Undecided('boolean used as scalar')
    if isinstance(x, float):
        from fractions import Fraction
        return Rat.const(Fraction(repr(x)))
    if isinstance(x, int):
        return Rat.const(x)
    from fractions import Fraction
    if isinstance(x, Fraction):
        return Rat.const(x)
    raise Undecided('not a scalar: %r' % (x,))


def ssym(name):
    return Rat.var(name)


def conj_scalar(r, real=()):
    """Complex conjugate of a rational function of symbols: every symbol not
    declared real is replaced by its conjugate symbol."""
    m = {}
    for v in r.vars():
        if v in real:
            continue
        if isinstance(v, SAtom) and v[0] in ('norm', 'abs', 'real', 'imag',
                                             'red', 'opnorm'):
            continue
        if isinstance(v, tuple) and len(v) == 2 and v[0] == 'conj':
            m[v] = Rat.var(v[1])
        else:
            m[v] = Rat.var(('conj', v))
    return r.subs(m) if m else r


# ---- linear forms ----------------------------------------------------------
def sym(name):
    return {('sym', name): ONE}


def add(a, b, s=1):
    s = S(s)
    r = dict(a)
    for k, v in b.items():
        r[k] = r.get(k, ZERO) + s * v
    return {k: v for k, v in r.items() if not v.is_zero()}


def scale(a, c):
    c = S(c)
    if c.is_zero():
        return {}
    return {k: v * c for k, v in a.items() if not (v * c).is_zero()}


def neg(a):
    return scale(a, -1)


def conj_atom(k, real_vecs=()):
    if k[0] == 'conj':
        return k[1]
    if k[0] == 'sym' and k[1] in real_vecs:
        return k
    if k[0] == 'mul':
        return mul_atoms([conj_atom(f, real_vecs) for f in k[1]])
    return ('conj', k)


def conj(lf, real_scalars=(), real_vecs=()):
    out = {}
    for k, v in lf.items():
        kk = conj_atom(k, real_vecs)
        out[kk] = out.get(kk, ZERO) + conj_scalar(v, real_scalars)
    return {k: v for k, v in out.items() if not v.is_zero()}


def mul_atoms(atoms):
    flat = []
    for a in atoms:
        if a[0] == 'mul':
            flat.extend(a[1])
        else:
            flat.append(a)
    flat.sort(key=akey)
    if len(flat) == 1:
        return flat[0]
    return ('mul', tuple(flat))


def mul(a, b):
    """Pointwise product (bilinear, commutative, associative)."""
    out = {}
    for k1, v1 in a.items():
        for k2, v2 in b.items():
            k = mul_atoms([k1, k2])
            out[k] = out.get(k, ZERO) + v1 * v2
    return {k: v for k, v in out.items() if not v.is_zero()}


def div(a, b):
    """Pointwise quotient a / b: linear in a; b is frozen into the atom unless
    it is a single atom with scalar coefficient."""
    if len(b) == 1:
        (kb, vb), = b.items()
        den = freeze({kb: ONE})
        sc = ONE / vb
    else:
        den = freeze(b)
        sc = ONE
    out = {}
    for k, v in a.items():
        kk = ('div', k, den)
        out[kk] = out.get(kk, ZERO) + v * sc
    return {k: v for k, v in out.items() if not v.is_zero()}


def powv(a, p):
    """Pointwise power with a scalar exponent (Rat)."""
    p = S(p)
    if p.is_const() and p.constant().denominator == 1 and \
            1 <= p.constant() <= 8:
        out = dict(a)
        for _ in range(int(p.constant()) - 1):
            out = mul(out, a)
        return out
    if p.is_zero():
        return sym('ONE')
    return {('pow', freeze(a), p): ONE}


def fn(name, *args):
    return {('fn', name) + tuple(freeze(a) if isinstance(a, dict) else a
                                 for a in args): ONE}


def mentions(x, atom):
    """Does the (nested) structure ``x`` contain ``atom``?"""
    if x == atom:
        return True
    if isinstance(x, dict):
        return any(mentions(k, atom) for k in x)
    if isinstance(x, tuple):
        return any(mentions(e, atom) for e in x)
    return False


def show(lf):
    if not lf:
        return '0'
    parts = []
    for k, v in freeze(lf):
        parts.append('(%r)*%s' % (v, show_atom(k)))
    return ' + '.join(parts)


def show_atom(k):
    t = k[0]
    if t == 'sym':
        return str(k[1])
    if t == 'app':
        arg = k[2]
        inner = show(thaw(arg)) if (isinstance(arg, tuple) and arg and
                                    isinstance(arg[0], tuple) and
                                    len(arg[0]) == 2 and
                                    isinstance(arg[0][1], Rat)) \
            else show_atom(arg) if isinstance(arg, tuple) and arg else '0'
        return '%s(%s)' % (show_opkey(k[1]), inner)
    if t == 'mul':
        return '.'.join(show_atom(f) for f in k[1])
    if t == 'conj':
        return 'conj(%s)' % show_atom(k[1])
    if t == 'div':
        return '%s/(%s)' % (show_atom(k[1]), show(thaw(k[2])))
    if t == 'pow':
        return '(%s)**%s' % (show(thaw(k[1])), k[2])
    return repr(k)


def show_opkey(k):
    if k[0] == 'op':
        return k[1]
    if k[0] == 'adj':
        return show_opkey(k[1]) + '^*'
    if k[0] == 'der':
        return 'D%s[%s]' % (show_opkey(k[1]), show(thaw(k[2])))
    if k[0] == 'inv':
        return show_opkey(k[1]) + '^-1'
    return repr(k)


# ---- operator terms ----------------------------------------------------------
class Op(object):
    linear = False
    dom = None
    ran = None

    def apply(self, lf):
        raise NotImplementedError

    def adj(self):
        raise Undecided('adjoint of composite operator term')

    def deriv(self, pt):
        raise Undecided('derivative of composite operator term')


class OSym(Op):
    """Uninterpreted operator symbol; linear iff declared."""

    def __init__(self, name, linear, reg=None):
        self.name = name
        self.linear = linear
        self.reg = reg if reg is not None else {}
        self.reg[self.key()] = self

    def key(self):
        return ('op', self.name)

    def apply(self, lf):
        if self.linear:
            out = {}
            for k, v in lf.items():
                kk = ('app', self.key(), k)
                out[kk] = out.get(kk, ZERO) + v
            return out
        return {('app', self.key(), freeze(lf)): ONE}

    def adj(self):
        return OAdj(self)

    def inv(self):
        return OInv(self)

    def deriv(self, pt):
        if self.linear:
            return self
        return ODer(self, freeze(pt))


class OAdj(OSym):
    def __init__(self, base):
        self.base = base
        self.linear = True
        self.name = 'adj(%s)' % base.name
        self.reg = base.reg
        self.reg[self.key()] = self

    def key(self):
        return ('adj', self.base.key())

    def adj(self):
        return self.base


class OInv(OSym):
    def __init__(self, base):
        self.base = base
        self.linear = base.linear
        self.name = 'inv(%s)' % base.name
        self.reg = base.reg
        self.reg[self.key()] = self

    def key(self):
        return ('inv', self.base.key())

    def inv(self):
        return self.base


class ODer(OSym):
    def __init__(self, base, pt):
        self.base = base
        self.pt = pt
        self.linear = True
        self.name = 'der(%s)' % base.name
        self.reg = base.reg
        self.reg[self.key()] = self

    def key(self):
        return ('der', self.base.key(), self.pt)


class OComp(Op):
    def __init__(self, l, r):
        self.l, self.r = l, r
        self.linear = l.linear and r.linear

    def apply(self, lf):
        return self.l.apply(self.r.apply(lf))

    def adj(self):
        return OComp(self.r.adj(), self.l.adj())


class OSum(Op):
    def __init__(self, l, r, sign=1):
        self.l, self.r, self.sign = l, r, sign
        self.linear = l.linear and r.linear

    def apply(self, lf):
        return add(self.l.apply(lf), self.r.apply(lf), self.sign)


class OLS(Op):
    """x -> c * A(x)"""

    def __init__(self, c, a):
        self.c, self.a = S(c), a
        self.linear = a.linear

    def apply(self, lf):
        return scale(self.a.apply(lf), self.c)


class ORS(Op):
    """x -> A(c * x)"""

    def __init__(self, a, c):
        self.c, self.a = S(c), a
        self.linear = a.linear

    def apply(self, lf):
        return self.a.apply(scale(lf, self.c))


class OLV(Op):
    """x -> v * A(x)"""

    def __init__(self, v, a):
        self.v, self.a = v, a
        self.linear = a.linear

    def apply(self, lf):
        return mul(self.v, self.a.apply(lf))


class ORV(Op):
    """x -> A(v * x)"""

    def __init__(self, a, v):
        self.v, self.a = v, a
        self.linear = a.linear

    def apply(self, lf):
        return self.a.apply(mul(self.v, lf))


class OVS(Op):
    """x -> A(x) + v"""

    def __init__(self, a, v):
        self.v, self.a = v, a
        self.linear = False

    def apply(self, lf):
        return add(self.a.apply(lf), self.v)


class OPW(Op):
    """x -> A(x) * B(x) pointwise"""

    def __init__(self, l, r):
        self.l, self.r = l, r
        self.linear = False

    def apply(self, lf):
        return mul(self.l.apply(lf), self.r.apply(lf))


class OId(Op):
    linear = True

    def apply(self, lf):
        return dict(lf)

    def adj(self):
        return self

    def deriv(self, pt):
        return self


class OZero(Op):
    linear = True

    def apply(self, lf):
        return {}

    def adj(self):
        return self


class OConst(Op):
    linear = False

    def __init__(self, v):
        self.v = v

    def apply(self, lf):
        return dict(self.v)


class OFun(Op):
    """Python-level closure: apply is given."""

    def __init__(self, f, linear=False):
        self.f = f
        self.linear = linear

    def apply(self, lf):
        return self.f(lf)


# ---- adjoint by moving through the inner product ------------------------------
def move(t, w, reg, usym='u', real_scalars=(), real_vecs=()):
    """``t`` is a linear form that depends linearly on the vector symbol
    ``usym``; returns ``W`` with ``<t, w> = <u, W>`` for all u, w."""
    W = {}
    for k, c in t.items():
        Wk = _move_atom(k, w, reg, usym, real_scalars, real_vecs)
        W = add(W, scale(Wk, conj_scalar(c, real_scalars)))
    return W


def _move_atom(k, w, reg, usym, rs, rv):
    if k == ('sym', usym):
        return dict(w)
    if k[0] == 'app':
        opk, inner = k[1], k[2]
        a = reg.get(opk)
        if a is None or not a.linear:
            raise Undecided('non-linear application inside an adjoint')
        return _move_atom(inner, a.adj().apply(w), reg, usym, rs, rv)
    if k[0] == 'mul':
        fs = list(k[1])
        hasu = [f for f in fs if mentions(f, ('sym', usym))]
        if len(hasu) != 1:
            raise Undecided('product not linear in the argument')
        rest = list(fs)
        rest.remove(hasu[0])
        other = {mul_atoms(rest): ONE}
        return _move_atom(hasu[0], mul(conj(other, rs, rv), w), reg, usym,
                          rs, rv)
    if k[0] == 'conj':
        raise Undecided('anti-linear dependence on the argument')
    raise Undecided('atom %r does not depend linearly on the argument'
                    % (k,))


# ---- symbolic differentiation --------------------------------------------------
def deriv(t, h, reg, xsym='x'):
    """Directional derivative of the linear form ``t`` (a function of the
    vector symbol ``xsym``) in direction ``h``."""
    out = {}
    for k, c in t.items():
        out = add(out, scale(_datom(k, h, reg, xsym), c))
    return out


def _datom(k, h, reg, xsym):
    if k == ('sym', xsym):
        return dict(h)
    if k[0] == 'sym':
        return {}
    if k[0] == 'app':
        a = reg.get(k[1])
        if a is None:
            raise Undecided('unknown operator in derivative')
        inner = k[2]
        if a.linear:
            return a.apply(_datom(inner, h, reg, xsym))
        inner_lf = thaw(inner)
        if not mentions(inner, ('sym', xsym)):
            return {}
        return ODer(a, inner).apply(deriv(inner_lf, h, reg, xsym))
    if k[0] == 'mul':
        fs = list(k[1])
        out = {}
        for i, f in enumerate(fs):
            df = _datom(f, h, reg, xsym)
            if not df:
                continue
            rest = fs[:i] + fs[i + 1:]
            out = add(out, mul(df, {mul_atoms(rest): ONE}))
        return out
    if not mentions(k, ('sym', xsym)):
        return {}
    if k[0] == 'pow' and isinstance(k[2], Rat):
        base, p = thaw(k[1]), k[2]
        db = deriv(base, h, reg, xsym)
        return scale(mul(powv(base, p - ONE), db), p)
    raise Undecided('cannot differentiate atom %r' % (k,))
