"""Positivity-aware algebra on ``Rat`` values for norm formulas.

Atoms (structured variables):

* ``abs(r)``      -- sign-normalised, positive factors pulled out,
* ``sqrt(r)``     -- npmodel.sqrt_rat,
* ``root(r, b)``  -- positive b-th root (``root(r, 2)`` is ``sqrt(r)``),
* ``max(...)`` / ``min(...)`` of a sorted tuple.

The imaginary unit is the plain variable ``'I'`` (``I**2 = -1``).

``equal_pos(a, b)`` decides equality of two expressions that denote
non-negative reals: the difference (or the difference of the k-th powers for
the root orders k that occur) must reduce to zero under the rules
``root(A, b)**b -> A``, ``sqrt(A)**2 -> A``, ``abs(x)**2 -> x**2`` (real x),
``I**2 -> -1``; the sign ambiguity of even powers is removed by the
non-negativity of both sides, which is cross-checked numerically at two
positive witness points (``num_eval``).
"""
from __future__ import annotations

import math
from fractions import Fraction as Fr

from .core import Undecided
from .ratfun import Rat, Poly, SAtom, satom

I_RULE = {('I', 2): Poly.const(-1)}


class Signs(object):
    """Which plain variables are known to be positive reals / reals."""

    def __init__(self, positive=(), real_prefixes=()):
        self.positive = set(positive)

    def is_pos_var(self, v):
        if isinstance(v, SAtom):
            return v[0] in ('sqrt', 'root', 'abs', 'norm')
        return v in self.positive


def poly_sign(p, signs):
    """+1 / -1 when every term is a product of positive variables with
    coefficients of one sign (0 for the zero polynomial), else None."""
    sg = set()
    for m, c in p.t.items():
        for v, e in m:
            if not signs.is_pos_var(v) and e % 2:
                return None
        sg.add(1 if c > 0 else -1)
    if not sg:
        return 0
    return sg.pop() if len(sg) == 1 else None


def rat_sign(r, signs):
    a, b = poly_sign(r.n, signs), poly_sign(r.d, signs)
    if a is None or b is None or b == 0:
        return None
    return a * b


def _pos_monomial_split(p, signs):
    """p = (monomial in positive variables) * rest."""
    g = _content(p)
    mono = {v: e for v, e in g.items() if signs.is_pos_var(v)}
    return mono, _div_mono(p, mono)


def cancel_mono(r):
    """Cancel the common monomial factor of numerator and denominator."""
    if r.d.is_const() or not r.n.t:
        return r
    gn, gd = _content(r.n), _content(r.d)
    common = {v: min(e, gd[v]) for v, e in gn.items() if v in gd}
    common = {v: e for v, e in common.items() if e > 0}
    if not common:
        return r
    return Rat(_div_mono(r.n, common), _div_mono(r.d, common))


def log_nf(r, signs):
    """log r for positive r: quotients and monomial factors in positive
    variables are split off,  log(c x^a A / (y^b B)) = a log x - b log y +
    log(c A) - log(B)."""
    r = reduce_full(r)
    if r.is_const() and r.constant() == 1:
        return Rat.const(0)
    out = Rat.const(0)
    for pol, sgn in ((r.n, 1), (r.d, -1)):
        if pol.is_const() and pol.constant() == 1:
            continue
        mono, rest = _pos_monomial_split(pol, signs)
        for v, e in mono.items():
            out = out + sgn * e * Rat.var(satom('log', Rat.var(v)))
        if not (rest.is_const() and rest.constant() == 1):
            out = out + sgn * Rat.var(satom('log', Rat(rest)))
    return out


def exp_nf(r, signs):
    """exp r with exp(k log z) = z^k for integer k pulled out."""
    r = cancel_mono(reduce_full(r))
    if r.is_zero():
        return Rat.const(1)
    if not r.d.is_const():
        return Rat.var(satom('exp', r))
    dc = r.d.constant()
    fac = Rat.const(1)
    rest = {}
    for m, c in r.n.t.items():
        c = c / dc
        if len(m) == 1 and m[0][1] == 1 and isinstance(m[0][0], SAtom) and \
                m[0][0][0] == 'log' and c.denominator == 1:
            z = m[0][0][1]
            fac = fac * (z ** int(c) if c > 0 else
                         Rat.const(1) / z ** int(-c))
        else:
            rest[m] = c
    if not rest:
        return fac
    return fac * Rat.var(satom('exp', Rat(Poly(rest))))


def const_sign(r):
    """Sign of an expression that, after cancelling common monomials, only
    contains radicals of constants (evaluated numerically), else None."""
    r = cancel_mono(reduce_full(r))
    if r.n.is_const() and r.d.is_const():
        c = r.constant()
        return (c > 0) - (c < 0)
    for v in r.vars():
        if not (isinstance(v, SAtom) and v[0] in ('sqrt', 'root') and
                isinstance(v[1], Rat) and v[1].is_const()):
            return None
    val = num_eval(r, {})
    if abs(val) < 1e-9:
        return None
    return 1 if val > 0 else -1


def full_sign(r, signs):
    """Sign (+1 / -1 / 0) of r for all positive values of the positive
    symbols, or None: exact zero test, positive-term analysis, numeric
    evaluation of constants with radicals (also behind a common positive
    monomial), and A + k sqrt(B) compared through B - (A / k)^2."""
    r = reduce_full(r)
    if r.n.is_zero():
        return 0
    sg = rat_sign(r, signs)
    if sg is None:
        sg = const_sign(r)
    if sg is None:
        sg = _factor_sign(r, signs)
    if sg is None:
        sg = _radical_sign(r, signs)
    return sg


def _factor_sign(r, signs):
    """Sign through the common positive monomial: (m * A) / (n * B) with
    m, n monomials in positive symbols and A, B constants with
    radicals."""
    r = cancel_mono(r)
    sn = _poly_factor_sign(r.n, signs)
    sd = _poly_factor_sign(r.d, signs)
    if sn is None or sd is None or sd == 0:
        return None
    return sn * sd

def _poly_factor_sign(p, signs):
    sg = poly_sign(p, signs)
    if sg is not None:
        return sg
    mono, rest = _pos_monomial_split(p, signs)
    if not mono:
        return None
    return const_sign(Rat(rest))



def _radical_sign(r, signs):
    """A + k sqrt(B) with k of known sign over a denominator of known sign:
    the sign is that of k when A has the same sign or B - (A / k)^2 > 0,
    and that of A when B - (A / k)^2 < 0."""
    sd = poly_sign(r.d, signs)
    if not sd:
        return None
    num = Rat(r.n)
    rad = [v for v in num.vars() if isinstance(v, SAtom) and
           v[0] == 'sqrt' and isinstance(v[1], Rat)]
    if len(rad) != 1 or r.n.degree(rad[0]) != 1:
        return None
    q = rad[0]
    k = num.diff(q)
    A = num.subs({q: Rat.const(0)})
    sk = rat_sign(k, signs)
    if not sk:
        return None
    sA = rat_sign(A, signs)
    if sA is not None and sA * sk >= 0:
        return sk * sd
    gap = rat_sign(reduce_full(q[1] - (A / k) * (A / k)), signs)
    if gap is None:
        return None
    if gap > 0:
        return sk * sd
    if gap < 0 and sA is not None:
        return sA * sd
    return None


def ired(r):
    """Reduce modulo I**2 = -1."""
    if 'I' in r.vars():
        return r.reduce(I_RULE)
    return r


def conj(r):
    if 'I' in r.vars():
        return ired(r.subs({'I': -Rat.var('I')}))
    return r


def real_part(r):
    r = ired(r)
    if 'I' not in r.vars():
        return r
    if 'I' in r.d.vars():
        raise Undecided('real part of %r' % (r,))
    return Rat(Poly({m: c for m, c in r.n.t.items()
                     if 'I' not in dict(m)}), r.d)


def imag_part(r):
    r = ired(r)
    if 'I' not in r.vars():
        return Rat.const(0)
    if 'I' in r.d.vars():
        raise Undecided('imaginary part of %r' % (r,))
    return Rat(r.n.diff('I'), r.d)


def _content(p):
    """Common monomial of all terms of Poly p (dict var -> min exponent)."""
    it = iter(p.t)
    try:
        first = dict(next(it))
    except StopIteration:
        return {}
    g = dict(first)
    for m in it:
        d = dict(m)
        for v in list(g):
            e = min(g[v], d.get(v, 0))
            if e:
                g[v] = e
            else:
                del g[v]
    return g


def _div_mono(p, g):
    out = {}
    for m, c in p.t.items():
        d = dict(m)
        for v, e in g.items():
            d[v] -= e
            if d[v] == 0:
                del d[v]
        out[tuple(sorted(d.items(), key=lambda ve: repr(ve[0])))] = c
    return Poly(out)


def _lead_sign(p):
    m = sorted(p.t, key=repr)[0]
    return 1 if p.t[m] > 0 else -1


def abs_nf(r, signs):
    """|r| in normal form."""
    r = ired(r)
    if r.is_const():
        return Rat.const(abs(r.constant()))
    # denominator: must be a positive monomial / constant
    den = r.d
    if not den.is_const():
        g = _content(den)
        rest = _div_mono(den, g)
        if not rest.is_const() or not all(signs.is_pos_var(v) for v in g):
            sgd = poly_sign(den, signs) if 'I' not in den.vars() else None
            if sgd in (1, -1):
                # a denominator of one sign: |n / d| = |n| / |d|
                return abs_nf(Rat(r.n), signs) / (Rat(den) * sgd)
            return Rat.var(satom('abs', _signnorm(r)))
    num = r.n
    if 'I' in num.vars():
        # modulus of a complex number: sqrt(z * conj z)
        z = Rat(num)
        return root(ired(z * conj(z)), 2, signs) / abs_nf(Rat(den), signs)
    g = _content(num)
    q = _div_mono(num, g)
    out = Rat.const(1)
    for v, e in g.items():
        if signs.is_pos_var(v):
            out = out * Rat.var(v) ** e
        else:
            out = out * Rat.var(satom('abs', Rat.var(v))) ** e
    if q.is_const():
        out = out * Rat.const(abs(q.constant()))
    elif poly_sign(q, signs) == 1 and 'I' not in q.vars():
        # positive symbols and even powers of real symbols only
        out = out * Rat(q)
    elif poly_sign(q, signs) == -1 and 'I' not in q.vars():
        out = out * Rat(q) * -1
    else:
        # integer content of q
        s = _lead_sign(q)
        c0 = abs(q.t[sorted(q.t, key=repr)[0]])
        qn = Poly({m: c * s / c0 for m, c in q.t.items()})
        out = out * Rat.const(c0) * Rat.var(satom('abs', Rat(qn)))
    return out / abs_nf(Rat(den), signs) if not den.is_const() else \
        out / Rat.const(abs(den.constant()))


def _signnorm(r):
    return r if _lead_sign(r.n) > 0 else -r


def root(r, b, signs=None):
    """Positive b-th root (b a positive integer) of a non-negative r.
    Monomial factors in positive variables are split off:
    root(v**e * A, b) = v**(e // b) * root(v**(e % b), b) * root(A, b)."""
    r = reduce_full(r)
    if b == 1:
        return r
    if r.is_const():
        c = r.constant()
        if c in (0, 1):
            return r
        if c > 0:
            n, d = c.numerator, c.denominator
            rn, rd = round(n ** (1.0 / b)), round(d ** (1.0 / b))
            if rn ** b == n and rd ** b == d:
                return Rat.const(Fr(rn, rd))
            # canonical radical: (n/d)^(1/b) = (n d^(b-1))^(1/b) / d with the
            # b-th power factors of the integer radicand pulled out
            # and the rest split into prime powers (a normal form: the
            # radicals of distinct primes are multiplicatively independent)
            m = n * d ** (b - 1)
            outf, f = 1, 2
            res = Rat.const(1)
            while f * f <= m and f < 10 ** 6:
                e = 0
                while m % f == 0:
                    m //= f
                    e += 1
                outf *= f ** (e // b)
                if e % b:
                    res = res * _root_atom(Rat.const(f ** (e % b)), b)
                f += 1
            if m != 1:
                res = res * _root_atom(Rat.const(m), b)
            return Rat.const(Fr(outf, d)) * res
    if signs is None:
        signs = Signs()
    if b == 2:
        # perfect squares of polynomials with positive terms in positive
        # symbols, in the numerator and / or the denominator:
        # sqrt(c (a + b)^2) = sqrt(c) (a + b)
        fac, n_, d_, changed = Rat.const(1), r.n, r.d, False
        if len(n_.t) > 1:
            q = _poly_sqrt(n_, signs)
            if q is not None:
                fac, n_, changed = fac * Rat(q[1]), Poly.const(q[0]), True
        if len(d_.t) > 1:
            q = _poly_sqrt(d_, signs)
            if q is not None:
                fac, d_, changed = fac / Rat(q[1]), Poly.const(q[0]), True
        if changed:
            return fac * root(Rat(n_, d_), 2, signs)
    out = Rat.const(1)
    num, den = r.n, r.d
    parts = []
    for pol, inv in ((num, False), (den, True)):
        if pol.is_const():
            parts.append((Rat(pol), inv))
            continue
        g = _content(pol)
        q = _div_mono(pol, g)
        keep = {}
        for v, e in g.items():
            if signs.is_pos_var(v):
                k, m = divmod(e, b)
                if k:
                    f = Rat.var(v) ** k
                    out = out / f if inv else out * f
                if m:
                    f = _root_atom(Rat.var(v) ** m, b)
                    out = out / f if inv else out * f
            elif b % 2 == 0 and e % b == 0:
                # even root of an even power: |v|**(e/b)
                f = Rat.var(satom('abs', Rat.var(v))) ** (e // b)
                out = out / f if inv else out * f
            else:
                keep[v] = e
        rest = Rat(q)
        for v, e in keep.items():
            rest = rest * Rat.var(v) ** e
        parts.append((rest, inv))
    rest = parts[0][0] / parts[1][0]
    if rest.is_const():
        c = rest.constant()
        if c == 1:
            return out
        if c > 0:
            n, d = c.numerator, c.denominator
            rn, rd = round(n ** (1.0 / b)), round(d ** (1.0 / b))
            if rn ** b == n and rd ** b == d:
                return out * Rat.const(Fr(rn, rd))
            return out * root(rest, b, signs)
    return out * _root_atom(rest, b)


def _poly_sqrt(p, signs):
    """(c, q) with p == c * q * q, c a positive rational and q a polynomial
    in positive symbols with positive coefficients (so q > 0), or None.
    Leading-term algorithm under a graded order."""
    if not p.t:
        return None
    for m in p.t:
        for v, e in m:
            if not signs.is_pos_var(v):
                return None

    allv = sorted({v for m in p.t for v, e in m}, key=_vkey, reverse=True)

    def key(m):
        dm = dict(m)
        return (sum(e for v, e in m), tuple(dm.get(v, 0) for v in allv))

    def lead(poly):
        m = max(poly.t, key=key)
        return m, poly.t[m]

    def mdiv(m, d):
        dm = dict(m)
        for v, e in d:
            if dm.get(v, 0) < e:
                return None
            dm[v] -= e
        return tuple(sorted(((v, e) for v, e in dm.items() if e),
                            key=lambda z: _vkey(z[0])))
    m0, c0 = lead(p)
    if c0 <= 0 or any(e % 2 for v, e in m0):
        return None
    P = p * Poly.const(1 / c0)
    q0 = tuple((v, e // 2) for v, e in m0)
    Q = Poly({q0: Fr(1)})
    for _ in range(len(p.t) + 2):
        R = P - Q * Q
        if R.is_zero():
            if all(c > 0 for c in Q.t.values()):
                return c0, Q
            return None
        m, c = lead(R)
        t = mdiff_mono = mdiv(m, q0)
        if t is None:
            return None
        Q = Q + Poly({t: c / 2})
    return None


def _vkey(v):
    return repr(v)


def _root_atom(r, b):
    if b == 2:
        return Rat.var(satom('sqrt', r))
    return Rat.var(satom('root', r, b))


def pow_q(r, q, signs=None):
    """r ** q for a rational exponent q (r non-negative when q is not an
    integer)."""
    q = Fr(q)
    if q.denominator == 1:
        n = int(q)
        return r ** n if n >= 0 else Rat.const(1) / (r ** (-n))
    a, b = q.numerator, q.denominator
    base = r ** a if a >= 0 else Rat.const(1) / (r ** (-a))
    return root(base, b, signs)


def atom_rules(r):
    """Reduction rules for all atoms occurring (recursively) in r."""
    rules = dict(I_RULE)
    seen = set()

    def visit(x):
        for v in x.vars():
            if not isinstance(v, SAtom) or v in seen:
                continue
            seen.add(v)
            kind = v[0]
            if kind == 'sqrt':
                z = v[1]
                _rule(rules, v, 2, z)
                visit(z)
            elif kind == 'root':
                z, b = v[1], v[2]
                _rule(rules, v, b, z)
                visit(z)
            elif kind == 'abs':
                z = v[1]
                if isinstance(z, Rat):
                    _rule(rules, v, 2, z * z)
                    visit(z)
            elif kind in ('max', 'min'):
                for z in v[1]:
                    if isinstance(z, Rat):
                        visit(z)
    visit(r)
    return rules


def _rule(rules, v, k, z):
    z = ired(z)
    if z.d.is_const():
        rules[(v, k)] = z.n * Poly.const(1 / z.d.constant())


def reduce_full(r):
    r = ired(r)
    rules = atom_rules(r)
    n = r.n.reduce(rules)
    return Rat(n, r.d.reduce(rules))


def is_zero(r):
    return reduce_full(r).n.is_zero()


def root_orders(r):
    out = set()
    seen = set()

    def visit(x):
        for v in x.vars():
            if isinstance(v, SAtom) and v not in seen:
                seen.add(v)
                if v[0] == 'sqrt':
                    out.add(2)
                    visit(v[1])
                elif v[0] == 'root':
                    out.add(v[2])
                    visit(v[1])
                elif v[0] == 'abs' and isinstance(v[1], Rat):
                    visit(v[1])
    visit(r)
    return out


def differs_numerically(a, b, witness):
    """True when a and b take different values at a witness point (a sound
    refutation of the identity)."""
    for env in witness or ():
        try:
            va, vb = num_eval(a, env), num_eval(b, env)
        except Undecided:
            return False
        if abs(va - vb) > 1e-9 * max(1.0, abs(va), abs(vb)):
            return True
    return False


def equal_pos(a, b, witness=None):
    """Equality of two expressions denoting non-negative reals."""
    if differs_numerically(a, b, witness):
        return False
    if is_zero(a - b):
        return True
    orders = root_orders(a) | root_orders(b)
    cands = set(orders)
    for k in list(orders):
        for l in list(orders):
            cands.add(k * l)
    for k in sorted(cands):
        if k > 12:
            continue
        # size guard: the k-th power of an s-term sum has up to
        # C(s + k - 1, k) terms
        if max(_power_size(a, k), _power_size(b, k)) > 200000:
            raise Undecided('equality proof too large (power %d of %d / '
                            '%d terms)' % (k, len(a.n.t), len(b.n.t)))
        if is_zero(a ** k - b ** k):
            # a^k = b^k and a, b >= 0  =>  a = b; cross-check the sign
            # premise numerically
            if witness is not None:
                for env in witness:
                    va, vb = num_eval(a, env), num_eval(b, env)
                    if va < -1e-12 or vb < -1e-12:
                        return False
            return True
    return False


def _power_size(r, k):
    s_ = max(len(r.n.t), len(r.d.t), 1)
    return math.comb(s_ + k - 1, k)


def same(a, b, witness):
    """Three-valued identity test for the evaluated tiers: False when the
    two sides differ at a witness point (a sound refutation), True when the
    difference reduces to zero; raises Undecided when neither succeeds (the
    normal forms are not complete)."""
    refuted = False
    evaluated = False
    for env in witness or ():
        try:
            za, zb = num_eval_c(a, env), num_eval_c(b, env)
        except Undecided:
            break
        evaluated = True
        if abs(za - zb) > 1e-9 * max(1.0, abs(za), abs(zb)):
            refuted = True
            break
    if refuted:
        return False
    if is_zero(a - b):
        return True
    try:
        if not any('I' in x.vars() for x in (a, b)) and equal_pos(
                a, b, witness):
            return True
        if not any('I' in x.vars() for x in (a, b)) and equal_pos(
                -a, -b, witness):
            return True
    except Undecided:
        pass
    raise Undecided('identity %r == %r holds at the witness points but its '
                    'proof is beyond the normal forms' % (a, b)
                    if evaluated else 'identity %r == %r could be neither '
                    'evaluated nor proved' % (a, b))


def equal_exact(a, b, witness=None):
    """Polynomial identity modulo the atom rules, refuted early at a
    witness point."""
    if witness:
        for env in witness:
            try:
                za, zb = num_eval_c(a, env), num_eval_c(b, env)
            except Undecided:
                break
            if abs(za - zb) > 1e-9 * max(1.0, abs(za), abs(zb)):
                return False
    return is_zero(a - b)


# --------------------------------------------------------------------------
import cmath as _cm
_CMATH = {k: getattr(_cm, k) for k in ('exp', 'log', 'sin', 'cos', 'tan',
                                       'sinh', 'cosh', 'tanh', 'atan')}
_CMATH['arctan'] = _cm.atan


def num_eval(r, env, want_complex=False):
    """Floating point value of r; env maps plain variable names to numbers
    (missing names get a deterministic positive value)."""
    def val(v):
        if isinstance(v, SAtom):
            k = v[0]
            if k == 'sqrt':
                return math.sqrt(max(0.0, ev(v[1]).real))
            if k == 'root':
                return max(0.0, ev(v[1]).real) ** (1.0 / v[2])
            if k == 'abs':
                return abs(ev(v[1]))
            if k in ('max', 'min'):
                vals = [ev(z).real for z in v[1]]
                return max(vals) if k == 'max' else min(vals)
            if k == 'norm':
                return env['norm:%s' % (v[1],)]
            if k in _CMATH and isinstance(v[1], Rat):
                try:
                    return _CMATH[k](ev(v[1]))
                except (ValueError, OverflowError, ZeroDivisionError):
                    raise Undecided('no numeric value for %r at the witness'
                                    % (v,))
            if k == 'sign' and isinstance(v[1], Rat):
                z = ev(v[1]).real
                return (z > 0) - (z < 0)
            raise Undecided('no numeric value for atom %r' % (v,))
        if v == 'I':
            return 1j
        return env[v]

    def evp(p):
        tot = 0
        for m, c in p.t.items():
            x = float(c)
            for v, e in m:
                x = x * val(v) ** e
            tot = tot + x
        return tot

    def ev(x):
        if not isinstance(x, Rat):
            return complex(x)
        return complex(evp(x.n)) / complex(evp(x.d))
    z = ev(r)
    if want_complex:
        return z
    if abs(z.imag) > 1e-9:
        raise Undecided('non-real numeric value for %r' % (r,))
    return z.real


def num_eval_c(r, env):
    return num_eval(r, env, True)
