"""Self-test mutants: one edit each, applied to a scratch copy (see
selftest.py).  ``old`` must occur exactly ``count`` (default 1) times in
``file``; ``expect`` is a substring that the report must contain (the
construct or rule)."""

MUTANTS = []


def M(pid, name, file, old, new, expect=None, count=1):
    MUTANTS.append(dict(pid=pid, name=name, file=file, old=old, new=new,
                        expect=expect, count=count))


DIFF = 'odl/discr/diff_ops.py'
# ---- C13 -------------------------------------------------------------------
M('C13', 'symmetric_adjoint central sign', DIFF,
  "out[-1] = (-f_arr[-1] - f_arr[-2]) / 2.0",
  "out[-1] = (f_arr[-1] - f_arr[-2]) / 2.0", 'C13-R3')
M('C13', 'order1_adjoint forward: drop aliasing correction', DIFF,
  """            out[-1] = -f_arr[-1]

            # Increment in case array is very short and we get aliasing
            out[1] -= f_arr[0]
""", """            out[-1] = -f_arr[-1]
""", 'C13-R3')
M('C13', 'Divergence accumulates on every axis', DIFF,
  """                if axis == 0:
                    out_arr[:] = tmp
                else:
                    out_arr += tmp""", """                out_arr += tmp""",
  'Divergence._call')
M('C13', 'Gradient.adjoint without minus', DIFF,
  "return - Divergence(domain=self.range, range=self.domain,",
  "return Divergence(domain=self.range, range=self.domain,",
  'Gradient.adjoint')
M('C13', '_ADJ_PADDING order1 maps to itself', DIFF,
  "'order1': 'order1_adjoint',", "'order1': 'order1',", 'C13-R3')
M('C13', 'periodic backward wraps to wrong entry', DIFF,
  "out[0] = f_arr[0] - f_arr[-1]\n            out[-1] = f_arr[-1] - f_arr[-2]",
  "out[0] = f_arr[0] - f_arr[-2]\n            out[-1] = f_arr[-1] - f_arr[-2]",
  'C13-R2')
M('C13', 'central interior not halved', DIFF,
  "        out[1:-1] /= 2.0\n", "        pass\n", 'C13-R2')
M('C13', 'Laplacian linear flag regression', DIFF,
  "        linear = not (pad_mode == 'constant' and pad_const != 0)\n"
  "        super(Laplacian, self).__init__(",
  "        linear = True\n        super(Laplacian, self).__init__(",
  'Laplacian.__init__:linear')
M('C13', 'Laplacian uses dx instead of dx**2 in backward part', DIFF,
  """                finite_diff(x_arr, axis=axis, dx=dx[axis] ** 2,
                            method='backward',""",
  """                finite_diff(x_arr, axis=axis, dx=dx[axis],
                            method='backward',""", 'Laplacian._call')
M('C13', 'PartialDerivative.derivative keeps pad_const', DIFF,
  "self.method, self.pad_mode, 0)", "self.method, self.pad_mode,\n"
  "                                     self.pad_const)",
  'PartialDerivative.derivative')
M('C13', 'order2 left edge coefficient', DIFF,
  "out[0] = -(3.0 * f_arr[0] - 4.0 * f_arr[1] + f_arr[2]) / 2.0",
  "out[0] = -(3.0 * f_arr[0] - 4.0 * f_arr[1] + 2.0 * f_arr[2]) / 2.0",
  'C13-R2')
M('C13', 'Gradient wrong cell side', DIFF,
  "finite_diff(x_arr, axis=axis, dx=dx[axis], method=self.method,",
  "finite_diff(x_arr, axis=axis, dx=dx[0], method=self.method,",
  'Gradient._call')

# ---- C20 -------------------------------------------------------------------
M('C20', 'DiscretizedSpace.__hash__ reads axis_labels',
  'odl/discr/discr_space.py',
  "             self.tspace,\n             self.partition)",
  "             self.tspace,\n             self.partition, self.axis_labels)",
  'DiscretizedSpace.__hash__')
M('C20', 'CartesianProduct hash key list', 'odl/set/sets.py',
  "return hash((type(self), self.sets))",
  "return hash((type(self), list(self.sets)))", 'CartesianProduct.__hash__')
M('C20', 'NumpyTensorSpace.element drops fast path',
  'odl/space/npy_tensors.py',
  "            if inp in self and order is None:\n"
  "                # Short-circuit for space elements and no enforced ordering\n"
  "                return inp\n", "", 'NumpyTensorSpace.element')
M('C20', 'DiscretizedSpace._astype forgets partition',
  'odl/discr/discr_space.py',
  "            self.partition, tspace, axis_labels=self.axis_labels)",
  "            tspace.partition, tspace, axis_labels=self.axis_labels)",
  'DiscretizedSpace._astype')
M('C20', 'IntervalProd ndim guard regression', 'odl/set/domain.py',
  "        return (self.ndim == other.ndim and\n", "        return (\n",
  'IntervalProd.__eq__')
M('C20', 'RectGrid raw bytes regression', 'odl/discr/grid.py',
  "(cv + 0.0).tobytes()", "cv.tobytes()", 'RectGrid.__hash__')
M('C20', 'Weighting hash has type again', 'odl/space/weighting.py',
  "return hash((Weighting, self.impl, self.exponent))",
  "return hash((type(self), self.impl, self.exponent))", 'C20-R2')
M('C20', 'ProductSpace.real_space drops weighting', 'odl/space/pspace.py',
  "        return ProductSpace(*[space.real_space for space in self.spaces],\n"
  "                            weighting=self.weighting)",
  "        return ProductSpace(*[space.real_space for space in self.spaces])",
  'ProductSpace.real_space')
M('C20', 'TensorSpace membership by isinstance', 'odl/space/base_tensors.py',
  "return getattr(other, 'space', None) == self",
  "return isinstance(getattr(other, 'space', None), type(self))",
  'TensorSpace.__contains__')
M('C20', 'RectPartition.__eq__ ignores the set', 'odl/discr/partition.py',
  "        return (type(other) is type(self) and\n"
  "                self.set == other.set and\n"
  "                self.grid == other.grid)",
  "        return (type(other) is type(self) and\n"
  "                self.grid == other.grid)", 'RectPartition.__hash__')
M('C20', 'NumpyTensor.__getitem__ special case removed',
  'odl/space/npy_tensors.py',
  "                if isinstance(weighting, ArrayWeighting):\n"
  "                    weighting = NumpyTensorSpaceArrayWeighting(\n"
  "                        weighting.array[indices], weighting.exponent)\n",
  "", 'NumpyTensor.__getitem__')
M('C20', 'ProductSpace.element converts before membership test',
  'odl/space/pspace.py',
  "        if inp in self:\n            return inp\n\n        if len(inp) != len(self):",
  "        if len(inp) != len(self):", 'ProductSpace.element')
M('C20', 'SetUnion eq through membership again', 'odl/set/sets.py',
  "                all(set_ in other.sets for set_ in self.sets) and\n"
  "                all(set_ in self.sets for set_ in other.sets))\n\n"
  "    def __hash__(self):\n"
  "        \"\"\"Return ``hash(self)``.\"\"\"\n"
  "        # Use `set` to allow permutations\n"
  "        return hash((type(self), frozenset(self.sets)))\n\n"
  "    def element(self, inp=None):\n"
  "        \"\"\"Create a new element.\n\n"
  "        First tries calling the first set",
  "                all(set_ in other for set_ in self) and\n"
  "                all(set_ in self for set_ in other))\n\n"
  "    def __hash__(self):\n"
  "        \"\"\"Return ``hash(self)``.\"\"\"\n"
  "        # Use `set` to allow permutations\n"
  "        return hash((type(self), frozenset(self.sets)))\n\n"
  "    def element(self, inp=None):\n"
  "        \"\"\"Create a new element.\n\n"
  "        First tries calling the first set", 'SetUnion.__eq__')
