"""Self-test mutants: one edit each, applied to a scratch copy (see
selftest.py).  ``old`` must occur exactly ``count`` (default 1) times in
``file``; ``expect`` is a substring that the report must contain (the
construct or rule)."""

MUTANTS = []


def M(pid, name, file, old, new, expect=None, count=1):
    MUTANTS.append(dict(pid=pid, name=name, file=file, old=old, new=new,
                        expect=expect, count=count))


def MA(pid, name, file, scope, stmt, new, expect=None, nth=None):
    """AST-located edit: the statement in ``scope`` (dotted path of nested
    defs/classes) whose ast.unparse equals ``stmt`` (prefix if it ends in
    '...') is replaced by ``new`` (re-indented to the statement)."""
    MUTANTS.append(dict(pid=pid, name=name, file=file, scope=scope,
                        stmt=stmt, new=new, expect=expect, nth=nth))


DIFF = 'odl/discr/diff_ops.py'
# ---- C13 -------------------------------------------------------------------
M('C13', 'symmetric_adjoint central sign', DIFF,
  "out[-1] = (-f_arr[-1] - f_arr[-2]) / 2.0",
  "out[-1] = (f_arr[-1] - f_arr[-2]) / 2.0", 'C13-R3')
M('C13', 'order1_adjoint forward: drop aliasing correction', DIFF,
  """            out[-1] = -f_arr[-1]

            # Increment in case array is very short and we get aliasing
            out[1] -= f_arr[0]
""", """            out[-1] = -f_arr[-1]
""", 'C13-R3')
M('C13', 'Divergence accumulates on every axis', DIFF,
  """                if axis == 0:
                    out_arr[:] = tmp
                else:
                    out_arr += tmp""", """                out_arr += tmp""",
  'Divergence._call')
M('C13', 'Gradient.adjoint without minus', DIFF,
  "return - Divergence(domain=self.range, range=self.domain,",
  "return Divergence(domain=self.range, range=self.domain,",
  'Gradient.adjoint')
M('C13', '_ADJ_PADDING order1 maps to itself', DIFF,
  "'order1': 'order1_adjoint',", "'order1': 'order1',", 'C13-R3')
M('C13', 'periodic backward wraps to wrong entry', DIFF,
  "out[0] = f_arr[0] - f_arr[-1]\n            out[-1] = f_arr[-1] - f_arr[-2]",
  "out[0] = f_arr[0] - f_arr[-2]\n            out[-1] = f_arr[-1] - f_arr[-2]",
  'C13-R2')
M('C13', 'central interior not halved', DIFF,
  "        out[1:-1] /= 2.0\n", "        pass\n", 'C13-R2')
M('C13', 'Laplacian linear flag regression', DIFF,
  "        linear = not (pad_mode == 'constant' and pad_const != 0)\n"
  "        super(Laplacian, self).__init__(",
  "        linear = True\n        super(Laplacian, self).__init__(",
  'Laplacian.__init__:linear')
M('C13', 'Laplacian uses dx instead of dx**2 in backward part', DIFF,
  """                finite_diff(x_arr, axis=axis, dx=dx[axis] ** 2,
                            method='backward',""",
  """                finite_diff(x_arr, axis=axis, dx=dx[axis],
                            method='backward',""", 'Laplacian._call')
M('C13', 'PartialDerivative.derivative keeps pad_const', DIFF,
  "self.method, self.pad_mode, 0)", "self.method, self.pad_mode,\n"
  "                                     self.pad_const)",
  'PartialDerivative.derivative')
M('C13', 'order2 left edge coefficient', DIFF,
  "out[0] = -(3.0 * f_arr[0] - 4.0 * f_arr[1] + f_arr[2]) / 2.0",
  "out[0] = -(3.0 * f_arr[0] - 4.0 * f_arr[1] + 2.0 * f_arr[2]) / 2.0",
  'C13-R2')
M('C13', 'Gradient wrong cell side', DIFF,
  "finite_diff(x_arr, axis=axis, dx=dx[axis], method=self.method,",
  "finite_diff(x_arr, axis=axis, dx=dx[0], method=self.method,",
  'Gradient._call')

# ---- C20 -------------------------------------------------------------------
M('C20', 'DiscretizedSpace.__hash__ reads axis_labels',
  'odl/discr/discr_space.py',
  "             self.tspace,\n             self.partition)",
  "             self.tspace,\n             self.partition, self.axis_labels)",
  'DiscretizedSpace.__hash__')
M('C20', 'CartesianProduct hash key list', 'odl/set/sets.py',
  "return hash((type(self), self.sets))",
  "return hash((type(self), list(self.sets)))", 'CartesianProduct.__hash__')
M('C20', 'NumpyTensorSpace.element drops fast path',
  'odl/space/npy_tensors.py',
  "            if inp in self and order is None:\n"
  "                # Short-circuit for space elements and no enforced ordering\n"
  "                return inp\n", "", 'NumpyTensorSpace.element')
M('C20', 'DiscretizedSpace._astype forgets partition',
  'odl/discr/discr_space.py',
  "            self.partition, tspace, axis_labels=self.axis_labels)",
  "            tspace.partition, tspace, axis_labels=self.axis_labels)",
  'DiscretizedSpace._astype')
M('C20', 'IntervalProd ndim guard regression', 'odl/set/domain.py',
  "        return (self.ndim == other.ndim and\n", "        return (\n",
  'IntervalProd.__eq__')
M('C20', 'RectGrid raw bytes regression', 'odl/discr/grid.py',
  "(cv + 0.0).tobytes()", "cv.tobytes()", 'RectGrid.__hash__')
M('C20', 'Weighting hash has type again', 'odl/space/weighting.py',
  "return hash((Weighting, self.impl, self.exponent))",
  "return hash((type(self), self.impl, self.exponent))", 'C20-R2')
M('C20', 'ProductSpace.real_space drops weighting', 'odl/space/pspace.py',
  "        return ProductSpace(*[space.real_space for space in self.spaces],\n"
  "                            weighting=self.weighting)",
  "        return ProductSpace(*[space.real_space for space in self.spaces])",
  'ProductSpace.real_space')
M('C20', 'TensorSpace membership by isinstance', 'odl/space/base_tensors.py',
  "return getattr(other, 'space', None) == self",
  "return isinstance(getattr(other, 'space', None), type(self))",
  'TensorSpace.__contains__')
M('C20', 'RectPartition.__eq__ ignores the set', 'odl/discr/partition.py',
  "        return (type(other) is type(self) and\n"
  "                self.set == other.set and\n"
  "                self.grid == other.grid)",
  "        return (type(other) is type(self) and\n"
  "                self.grid == other.grid)", 'RectPartition.__hash__')
M('C20', 'NumpyTensor.__getitem__ special case removed',
  'odl/space/npy_tensors.py',
  "                if isinstance(weighting, ArrayWeighting):\n"
  "                    weighting = NumpyTensorSpaceArrayWeighting(\n"
  "                        weighting.array[indices], weighting.exponent)\n",
  "", 'NumpyTensor.__getitem__')
M('C20', 'ProductSpace.element converts before membership test',
  'odl/space/pspace.py',
  "        if inp in self:\n            return inp\n\n        if len(inp) != len(self):",
  "        if len(inp) != len(self):", 'ProductSpace.element')
M('C20', 'SetUnion eq through membership again', 'odl/set/sets.py',
  "                all(set_ in other.sets for set_ in self.sets) and\n"
  "                all(set_ in self.sets for set_ in other.sets))\n\n"
  "    def __hash__(self):\n"
  "        \"\"\"Return ``hash(self)``.\"\"\"\n"
  "        # Use `set` to allow permutations\n"
  "        return hash((type(self), frozenset(self.sets)))\n\n"
  "    def element(self, inp=None):\n"
  "        \"\"\"Create a new element.\n\n"
  "        First tries calling the first set",
  "                all(set_ in other for set_ in self) and\n"
  "                all(set_ in self for set_ in other))\n\n"
  "    def __hash__(self):\n"
  "        \"\"\"Return ``hash(self)``.\"\"\"\n"
  "        # Use `set` to allow permutations\n"
  "        return hash((type(self), frozenset(self.sets)))\n\n"
  "    def element(self, inp=None):\n"
  "        \"\"\"Create a new element.\n\n"
  "        First tries calling the first set", 'SetUnion.__eq__')

# ---- C03 -------------------------------------------------------------------
OPR = 'odl/operator/operator.py'
DOP = 'odl/operator/default_ops.py'
PROX = 'odl/solvers/nonsmooth/proximal_operators.py'
M('C03', 'OperatorLeftScalarMult oop arm returns nothing', OPR,
  "            return self.scalar * self.operator(x)\n        else:\n"
  "            self.operator(x, out=out)\n            out *= self.scalar",
  "            self.scalar * self.operator(x)\n        else:\n"
  "            self.operator(x, out=out)\n            out *= self.scalar",
  'OperatorLeftScalarMult._call')
M('C03', 'OperatorVectorSum consumes out', OPR,
  "        else:\n            self.operator(x, out=out)\n            out += self.vector",
  "        else:\n            pass\n            out += self.vector",
  'OperatorVectorSum._call')
M('C03', 'OperatorComp returns temporary', OPR,
  "            self.right(x, out=tmp)\n            return self.left(tmp, out=out)",
  "            self.right(x, out=tmp)\n            return self.left(tmp)",
  'OperatorComp._call')
M('C03', 'Resampling returns the array alias again',
  'odl/discr/discr_ops.py',
  "                point_collocation(\n                    interpolator, self.range.meshgrid, out=out_arr\n                )\n            return out",
  "                return point_collocation(\n                    interpolator, self.range.meshgrid, out=out_arr\n                )",
  'Resampling._call')
M('C03', 'ProximalL2 accumulates into out', PROX,
  "                    out.lincomb(1.0 - step, x)\n",
  "                    out.lincomb(1.0 - step, x, 1e-16, out)\n",
  'ProximalL2._call')
M('C03', 'default in-place bridge drops the result', OPR,
  "    out.assign(op.range.element(op._call_out_of_place(x, **kwargs)))",
  "    op.range.element(op._call_out_of_place(x, **kwargs))",
  '_default_call_in_place')
M('C03', 'Divergence first axis accumulates', DIFF,
  "                if axis == 0:\n                    out_arr[:] = tmp",
  "                if axis == 1:\n                    out_arr[:] = tmp",
  'Divergence._call')
# ---- C10 -------------------------------------------------------------------
M('C10', 'OperatorSum without temporary', OPR,
  "            self.left(x, out=tmp)\n            self.right(x, out=out)\n            out += tmp\n\n    def derivative(self, x):\n        \"\"\"Return the operator derivative at ``x``.\n\n        The derivative of a sum",
  "            self.left(x, out=out)\n            tmp = self.right(x)\n            out += tmp\n\n    def derivative(self, x):\n        \"\"\"Return the operator derivative at ``x``.\n\n        The derivative of a sum",
  'OperatorSum._call')
M('C10', 'OperatorRightScalarMult temporary taken from out', OPR,
  "                tmp = self.domain.element()\n            tmp.lincomb(self.scalar, x)\n            self.operator(tmp, out=out)",
  "                tmp = out\n            tmp.lincomb(self.scalar, x)\n            self.operator(x, out=out)",
  'OperatorRightScalarMult._call')
M('C10', 'ProximalL1 copy regression', PROX,
  "            if x is out:\n                # Handle aliased `x` and `out` (original `x` needed later)\n                x = x.copy()\n\n            # diff = x - g\n            if g is not None:\n                diff = x - g\n            else:\n                diff = x\n\n            # We write the operator as\n            # x - (x - g) / max(|x - g| / sig*lam, 1)",
  "            # diff = x - g\n            if g is not None:\n                diff = x - g\n            else:\n                diff = x\n\n            # We write the operator as\n            # x - (x - g) / max(|x - g| / sig*lam, 1)",
  'ProximalL1._call')
M('C10', 'ProximalLInfty copy dropped', PROX,
  "            if x is out:\n                x = x.copy()\n\n            proj_l1(x, radius, out)",
  "            proj_l1(x, radius, out)", 'ProximalLInfty._call')

MA('C03', 'ScalingOperator in-place arm scales the input', DOP,
   'ScalingOperator._call', 'out.lincomb(self.scalar, x)',
   'x *= self.scalar\nout.assign(x)', 'ScalingOperator._call')
MA('C03', 'range test on out moved after the dispatch', OPR,
   'Operator.__call__', 'if out is not None:...',
   '''if out is not None:
    if self.is_functional:
        raise TypeError('`out` parameter cannot be used')
    result = self._call_in_place(x, out=out, **kwargs)
    if out not in self.range:
        raise OpRangeError('bad out')
    if result is not None and result is not out:
        raise ValueError('`op` returned a different value than `out`.')
else:
    out = self._call_out_of_place(x, **kwargs)
    if out not in self.range:
        try:
            out = self.range.element(out)
        except (TypeError, ValueError):
            raise OpRangeError('unable to cast')''', 'Operator.__call__')
MA('C03', 'return-identity test dropped', OPR, 'Operator.__call__',
   'if result is not None and result is not out:...', '',
   'Operator.__call__')
MA('C03', 'domain cast dropped', OPR, 'Operator.__call__',
   'if x not in self.domain:...', '', 'Operator.__call__')
MA('C03', 'MultiplyOperator multiplies the input in place', DOP,
   'MultiplyOperator._call', 'return x * self.multiplicand',
   'x *= self.multiplicand\nreturn x', 'MultiplyOperator._call')
MA('C03', 'ComplexEmbedding writes only the real part', DOP,
   'ComplexEmbedding._call', 'out.imag = self.scalar.imag * x', '',
   'ComplexEmbedding._call')
MA('C10', 'ProximalConvexConjL1 copy dropped', PROX,
   'proximal_convex_conj_l1.ProximalConvexConjL1._call',
   'diff = x.copy()', 'diff = x', 'ProximalConvexConjL1._call')
MA('C10', 'ProximalConvexConjKL copy dropped', PROX,
   'proximal_convex_conj_kl.ProximalConvexConjKL._call',
   'x = x.copy()', '', 'ProximalConvexConjKL._call')
MA('C10', 'ProximalL2Squared aliased arm writes out first', PROX,
   'proximal_l2_squared.ProximalL2Squared._call',
   'if x is out:...', 'sig.multiply(2 * lam * g, out=out)\nout.lincomb(1, x, 1, out)',
   'ProximalL2Squared._call')

# ---- C04 -------------------------------------------------------------------
FUNF = 'odl/solvers/functional/functional.py'
MA('C04', 'left scalar merging adds', OPR, 'OperatorLeftScalarMult.__init__',
   'scalar = scalar * operator.scalar', 'scalar = scalar + operator.scalar',
   'OperatorLeftScalarMult.__init__')
MA('C04', 'truediv scales the result', OPR, 'Operator.__truediv__',
   'return self * (1.0 / other)', 'return 1.0 / other * self',
   'Operator.__truediv__')
MA('C04', 'composition linear flag with or', OPR, 'OperatorComp.__init__',
   'super(OperatorComp, self).__init__(...',
   'super(OperatorComp, self).__init__(right.domain, left.range, '
   'linear=left.is_linear or right.is_linear)', 'C04-R2')
MA('C04', 'rsub order', OPR, 'Operator.__rsub__', 'return -1 * self + other',
   'return self + -1 * other', 'Operator.__rsub__')
MA('C04', 'RightScalarMult.__mul__ regression', OPR,
   'OperatorRightScalarMult.__mul__',
   'return super(OperatorRightScalarMult, self).__mul__(other)',
   'return super(OperatorRightScalarMult, self).__rmul__(other)',
   'OperatorRightScalarMult.__mul__')
MA('C04', 'mul with scalar of nonlinear operator scales result', OPR,
   'Operator.__mul__', 'return OperatorRightScalarMult(self, other)',
   'return OperatorLeftScalarMult(self, other)', 'Operator.__mul__')
MA('C04', 'pow composes one time too many', OPR, 'Operator.__pow__',
   'while n > 1:...', 'while n > 0:\n    op = OperatorComp(self, op)\n    n -= 1',
   'Operator.__pow__')
MA('C04', 'OperatorLeftScalarMult in-place arm adds', OPR,
   'OperatorLeftScalarMult._call', 'out *= self.scalar',
   'out += self.scalar', 'C04-R3')
MA('C04', 'OperatorRightVectorMult forgets the vector', OPR,
   'OperatorRightVectorMult._call', 'return self.operator(x * self.vector)',
   'return self.operator(x)', 'Operator.__mul__')
MA('C04', 'Functional times zero scalar', FUNF, 'Functional.__mul__',
   'return ConstantFunctional(self.domain, self(self.domain.zero()))',
   'return ConstantFunctional(self.domain, 0)', 'Functional.__mul__')
MA('C04', 'Functional right scalar mult for linear shortcut swapped', FUNF,
   'Functional.__mul__', 'if self.is_linear:...',
   'elif not self.is_linear:\n    return FunctionalLeftScalarMult(self, other)\n'
   'else:\n    return FunctionalRightScalarMult(self, other)',
   'Functional.__mul__')
MA('C04', 'OperatorVectorSum subtracts', OPR, 'OperatorVectorSum._call',
   'out += self.vector', 'out -= self.vector', 'Operator.__add__')

# ---- C05 -------------------------------------------------------------------
MA('C05', 'LeftScalarMult adjoint without conjugate', OPR,
   'OperatorLeftScalarMult.adjoint',
   'return self.scalar.conjugate() * self.operator.adjoint',
   'return self.scalar * self.operator.adjoint',
   'OperatorLeftScalarMult.adjoint')
MA('C05', 'Comp adjoint not reversed', OPR, 'OperatorComp.adjoint',
   'return OperatorComp(self.right.adjoint, self.left.adjoint, self.__tmp)',
   'return OperatorComp(self.left.adjoint, self.right.adjoint, self.__tmp)',
   'OperatorComp.adjoint')
MA('C05', 'ZeroOperator adjoint keeps direction', DOP, 'ZeroOperator.adjoint',
   'return ZeroOperator(domain=self.range, range=self.domain)',
   'return ZeroOperator(domain=self.domain, range=self.range)',
   'ZeroOperator.adjoint')
MA('C05', 'RightVectorMult adjoint conj dropped', OPR,
   'OperatorRightVectorMult.adjoint',
   'return self.vector.conj() * self.operator.adjoint',
   'return self.vector * self.operator.adjoint',
   'OperatorRightVectorMult.adjoint')
MA('C05', 'LeftVectorMult adjoint multiplies on the wrong side', OPR,
   'OperatorLeftVectorMult.adjoint',
   'return self.operator.adjoint * self.vector',
   'return self.vector * self.operator.adjoint',
   'OperatorLeftVectorMult.adjoint')
MA('C05', 'Sum adjoint drops right', OPR, 'OperatorSum.adjoint',
   'return OperatorSum(self.left.adjoint, self.right.adjoint, self.__tmp_dom, self.__tmp_ran)',
   'return OperatorSum(self.left.adjoint, self.left.adjoint, self.__tmp_dom, self.__tmp_ran)',
   'OperatorSum.adjoint')
MA('C05', 'Scaling adjoint never conjugates', DOP, 'ScalingOperator.adjoint',
   'if complex(self.scalar).imag == 0.0:...', 'return self',
   'ScalingOperator.adjoint')
MA('C05', 'Multiply adjoint without conj for complex', DOP,
   'MultiplyOperator.adjoint',
   'return MultiplyOperator(np.conj(self.multiplicand), domain=self.range, range=self.domain)',
   'return MultiplyOperator(self.multiplicand, domain=self.range, range=self.domain)',
   'MultiplyOperator.adjoint')
MA('C05', 'RightScalarMult adjoint scalar squared', OPR,
   'OperatorRightScalarMult.adjoint',
   'return self.operator.adjoint * self.scalar.conjugate()',
   'return self.scalar * (self.operator.adjoint * self.scalar.conjugate())',
   'OperatorRightScalarMult.adjoint')

# ---- C06 -------------------------------------------------------------------
UFO = 'odl/ufunc_ops/ufunc_ops.py'
MA('C06', 'chain rule outer derivative at x', OPR, 'OperatorComp.derivative',
   'left_deriv = self.left.derivative(self.right(x))',
   'left_deriv = self.left.derivative(x)', 'OperatorComp.derivative')
MA('C06', 'right scalar derivative loses inner factor', OPR,
   'OperatorRightScalarMult.derivative',
   'return self.scalar * self.operator.derivative(self.scalar * x)',
   'return self.operator.derivative(self.scalar * x)',
   'OperatorRightScalarMult.derivative')
MA('C06', 'cos derivative sign', UFO, 'derivative_factory',
   'return MultiplyOperator(-sin(self.domain)(point))',
   'return MultiplyOperator(sin(self.domain)(point))',
   'derivative_factory[cos]')
MA('C06', 'power derivative exponent', DOP, 'PowerOperator.derivative',
   'return self.exponent * MultiplyOperator(...',
   'return self.exponent * MultiplyOperator(point ** self.exponent, domain=self.domain, range=self.range)',
   'PowerOperator.derivative')
MA('C06', 'product rule uses same factor twice', OPR,
   'OperatorPointwiseProduct.derivative',
   'right = self.left(x) * self.right.derivative(x)',
   'right = self.right(x) * self.right.derivative(x)',
   'OperatorPointwiseProduct.derivative')
MA('C06', 'right vector derivative at x', OPR,
   'OperatorRightVectorMult.derivative',
   'return self.operator.derivative(self.vector * x) * self.vector',
   'return self.operator.derivative(x) * self.vector',
   'OperatorRightVectorMult.derivative')
MA('C06', 'sum derivative temporaries regression', OPR,
   'OperatorSum.derivative', 'return OperatorSum(self.left.derivative(x)...',
   'return OperatorSum(self.left.derivative(x), self.right.derivative(x), self.__tmp_dom, self.__tmp_ran)',
   'OperatorSum.derivative')
MA('C06', 'sqrt derivative factor', UFO, 'derivative_factory',
   'return MultiplyOperator(0.5 / self(point))',
   'return MultiplyOperator(2.0 / self(point))', 'derivative_factory[sqrt]')
MA('C06', 'constant operator derivative is identity-like', DOP,
   'ConstantOperator.derivative',
   'return ZeroOperator(domain=self.domain, range=self.range)',
   'return ConstantOperator(self.constant, self.domain, self.range)',
   'ConstantOperator.derivative')
MA('C06', 'left vector mult derivative drops vector', OPR,
   'OperatorLeftVectorMult.derivative',
   'return self.vector * self.operator.derivative(x)',
   'return self.operator.derivative(x)', 'OperatorLeftVectorMult.derivative')

# ---- C01 -------------------------------------------------------------------
NPYT = 'odl/space/npy_tensors.py'
SPC = 'odl/set/space.py'
PSP = 'odl/space/pspace.py'
MA('C01', 'blas guard any contiguous', NPYT, '_blas_is_applicable',
   'if any((x.dtype != args[0].dtype for x in args[1:])):...',
   '''if any((x.dtype != args[0].dtype for x in args[1:])):
    return False
elif any((x.dtype not in _BLAS_DTYPES for x in args)):
    return False
elif not (any((x.flags.f_contiguous for x in args)) or all((x.flags.c_contiguous for x in args))):
    return False
elif any((x.size > np.iinfo('int32').max for x in args)):
    return False
else:
    return True''', 'C01-R1b')
MA('C01', '__sub__ writes into self', SPC, 'LinearSpaceElement.__sub__',
   'return self.space.lincomb(1, self, -1, other, out=tmp)',
   'return self.space.lincomb(1, self, -1, other, out=self)',
   'LinearSpaceElement.__sub__')
MA('C01', 'pspace lincomb swaps operands', PSP, 'ProductSpace._lincomb',
   'space._lincomb(a, xp, b, yp, outp)', 'space._lincomb(a, yp, b, xp, outp)',
   'ProductSpace._lincomb')
MA('C01', 'broadcast applies add always', PSP,
   '_broadcast_arithmetic._broadcast_arithmetic_impl',
   'res = getattr(xi, op)(other)', "res = getattr(xi, '__add__')(other)",
   'ProductSpaceElement.__sub__')
MA('C01', 'rsub scalar sign', SPC, 'LinearSpaceElement.__rsub__',
   'return self.space.lincomb(1, tmp, -1, self, out=tmp)',
   'return self.space.lincomb(1, tmp, 1, self, out=tmp)',
   'LinearSpaceElement.__rsub__')
MA('C01', 'ipow odd branch one factor short', SPC,
   'LinearSpaceElement.__ipow__', 'for _ in range(p - 2):...',
   'for _ in range(p - 3):\n    tmp *= self', 'LinearSpaceElement.__ipow__')
MA('C01', 'itruediv multiplies by scalar', SPC,
   'LinearSpaceElement.__itruediv__',
   'return self.space.lincomb(1.0 / other, self, out=self)',
   'return self.space.lincomb(other, self, out=self)',
   'LinearSpaceElement.__itruediv__')
MA('C01', 'lincomb skips x2 membership', SPC, 'LinearSpace.lincomb',
   'if x2 not in self:...', '', 'LinearSpace.lincomb')
MA('C01', 'x1 is x2 recursion keeps b', NPYT, '_lincomb_impl',
   '_lincomb_impl(a + b, x1, 0, x1, out)', '_lincomb_impl(a, x1, 0, x1, out)',
   'C01-R1')
MA('C01', 'fallback axpy division regression', NPYT,
   '_lincomb_impl.fallback_axpy', 'x2 += a * x1',
   'x2 /= a\nx2 += x1\nx2 *= a', 'C01-R2')
MA('C01', 'discr multiply swaps out', 'odl/discr/discr_space.py',
   'DiscretizedSpace._multiply',
   'self.tspace._multiply(x1.tensor, x2.tensor, out.tensor)',
   'self.tspace._multiply(x1.tensor, out.tensor, x2.tensor)',
   'DiscretizedSpace._multiply')
MA('C01', 'out is x2 leaf scales with a', NPYT, '_lincomb_impl',
   'scal(b, out_arr, size)', 'scal(a, out_arr, size)', 'C01-R1', nth=0)
MA('C01', 'a == 1 leaf without copy', NPYT, '_lincomb_impl',
   'copy(x1_arr, out_arr, size)', 'pass', 'C01-R1', nth=1)
MA('C01', 'axpy into the operand', NPYT, '_lincomb_impl',
   'axpy(x2_arr, out_arr, size, b)', 'axpy(out_arr, x2_arr, size, b)',
   'C01-R1', nth=1)
MA('C01', 'generic leaf zero-scales stale out instead of copying', NPYT,
   '_lincomb_impl', 'copy(x2_arr, out_arr, size)',
   'scal(0, out_arr, size)\naxpy(x2_arr, out_arr, size, 1)', 'C01-R1', nth=1)
MA('C01', 'small regime accumulates into out', NPYT, '_lincomb_impl',
   'out.data[:] = a * x1.data + b * x2.data',
   'out.data[:] = a * x1.data + b * x2.data + 0 * out.data', 'C01-R1')

# ---- C11 -------------------------------------------------------------------
ADMMF = 'odl/solvers/nonsmooth/admm.py'
ADUF = 'odl/solvers/nonsmooth/alternating_dual_updates.py'
DCF = 'odl/solvers/nonsmooth/difference_convex.py'
PDHGF = 'odl/solvers/nonsmooth/primal_dual_hybrid_gradient.py'
ITERF = 'odl/solvers/iterative/iterative.py'
MA('C11', 'admm u update sign swap', ADMMF, 'admm_linearized',
   'u += tmp_ran', 'u -= tmp_ran', 'admm_linearized')
MA('C11', 'admm drops tmp_ran -= z', ADMMF, 'admm_linearized',
   'tmp_ran -= z', 'pass', 'admm_linearized')
MA('C11', 'adupdates assigns dual before primal update', ADUF, 'adupdates',
   'x -= 1.0 / stepsize * L[j].adjoint(tmp_ran - duals[j])',
   'duals[j].assign(tmp_ran)\nx -= 1.0 / stepsize * L[j].adjoint(tmp_ran - duals[j])',
   'adupdates')
MA('C11', 'pdhg rebinds x_relax', PDHGF, 'pdhg',
   'x_relax.lincomb(1 + theta, x, -theta, x_old)',
   'x_relax = (1 + theta) * x - theta * x_old', 'pdhg')
MA('C11', 'landweber hidden accumulated state', ITERF, 'landweber',
   'op.derivative(x).adjoint(tmp_ran, out=tmp_dom)',
   'tmp_dom += op.derivative(x).adjoint(tmp_ran)', 'landweber')
MA('C11', 'kaczmarz callback in both loops', ITERF, 'kaczmarz',
   "if callback is not None and callback_loop == 'inner':...",
   'if callback is not None:\n    callback(x)', 'kaczmarz')
MA('C11', 'doubleprox_dc uses old x in dual step', DCF, 'doubleprox_dc',
   'f.proximal(gamma)(x.lincomb(1, x, gamma, K.adjoint(y) - phi.gradient(x)), out=x)',
   'x_new = f.proximal(gamma)(x + gamma * (K.adjoint(y) - phi.gradient(x)))\n'
   'g_convex_conj.proximal(mu)(y.lincomb(1, y, mu, K(x)), out=y)\nx.assign(x_new)\ncontinue',
   'doubleprox_dc')
MA('C11', 'pdhg y not updated in place', PDHGF, 'pdhg',
   'proximal_dual_sigma(dual_tmp, out=y)', 'y = proximal_dual_sigma(dual_tmp)',
   'pdhg')
MA('C11', 'proximal_gradient callback before update', 'odl/solvers/nonsmooth/proximal_gradient_solvers.py',
   'proximal_gradient', 'lam_k = lam(k)',
   'lam_k = lam(k)\nif callback is not None:\n    callback(x)', 'proximal_gradient')
MA('C11', 'admm simple reference changed sign', ADMMF,
   'admm_linearized_simple', 'u = L(x) + u - z', 'u = L(x) - u - z',
   'admm_linearized')

# ---- C12 -------------------------------------------------------------------
STEPF = 'odl/solvers/util/steplen.py'
MA('C12', 'line search breaks before the decrease test', STEPF,
   'BacktrackingLineSearch.__call__', 'if fval <= fx - expected_decrease:...',
   'if fval <= fx:\n    break', 'BacktrackingLineSearch.__call__')
MA('C12', 'line search tests at the previous point', STEPF,
   'BacktrackingLineSearch.__call__', 'point.lincomb(1, x, alpha, direction)',
   'point.lincomb(1, x, alpha / self.tau, direction)',
   'BacktrackingLineSearch.__call__')
MA('C12', 'pdhg_stepsize missing square', PDHGF, 'pdhg_stepsize',
   'tau = 0.9 / (sigma * L_norm ** 2)', 'tau = 0.9 / (sigma * L_norm)',
   'pdhg_stepsize')
MA('C12', 'pdhg x_old aliased', PDHGF, 'pdhg', 'x_old.assign(x)', 'x_old = x',
   'pdhg:x_old')
MA('C12', 'power method drops renormalisation', 'odl/operator/oputils.py',
   'power_method_opnorm', 'if np.isclose(opnorm, opnorm_old, rtol, atol):...',
   'if np.isclose(opnorm, opnorm_old, rtol, atol):\n    break',
   'power_method_opnorm')
MA('C12', 'power method drops sqrt', 'odl/operator/oputils.py',
   'power_method_opnorm.calc_opnorm', 'return np.sqrt(x_norm)',
   'return x_norm', 'power_method_opnorm')
MA('C12', 'DR stepsize factor 4', 'odl/solvers/nonsmooth/douglas_rachford.py',
   'douglas_rachford_pd_stepsize',
   'sigma = [2.0 / (len(L_norms) * tau * Li_norm ** 2) for Li_norm in L_norms]',
   'sigma = [4.0 / (len(L_norms) * tau * Li_norm ** 2) for Li_norm in L_norms]',
   'douglas_rachford_pd_stepsize', nth=0)
MA('C12', 'steepest descent steps along +grad', 'odl/solvers/smooth/gradient.py',
   'steepest_descent', 'x.lincomb(1, x, -step, grad_x)',
   'x.lincomb(1, x, step, grad_x)', 'steepest_descent')
MA('C12', 'accelerated prox gradient saves alias', 'odl/solvers/nonsmooth/proximal_gradient_solvers.py',
   'accelerated_proximal_gradient', 'y.assign(x)', 'y_prev = x\nf_prox(tmp, out=x)\ny.lincomb(1 + alpha, x, -alpha, y_prev)\ncontinue',
   'accelerated_proximal_gradient')
MA('C12', 'power method first normalisation dropped', 'odl/operator/oputils.py',
   'power_method_opnorm', 'x /= x_norm', 'pass', 'power_method_opnorm', nth=0)

# ---- C14 -------------------------------------------------------------------
PARTF = 'odl/discr/partition.py'
GRIDF = 'odl/discr/grid.py'
MA('C14', 'grid placement 2n instead of 2n-1', GRIDF, 'uniform_grid_fromintv',
   'gmax.append(xmax - (xmax - xmin) / (2 * n - 1))',
   'gmax.append(xmax - (xmax - xmin) / (2 * n))', 'uniform_grid_fromintv')
MA('C14', 'first cell size from stride', PARTF,
   'RectPartition.cell_sizes_vecs',
   'csize[0] = (cvec[0] + cvec[1]) / 2 - self.min()[ax]',
   'csize[0] = cvec[1] - cvec[0]', 'RectPartition.cell_sizes_vecs')
MA('C14', 'searchsorted side right', PARTF, 'RectPartition.index',
   'ind = np.searchsorted(cell_bdry_vec, val)',
   "ind = np.searchsorted(cell_bdry_vec, val, side='right')",
   'RectPartition.index')
MA('C14', 'index last edge exception dropped', PARTF, 'RectPartition.index',
   'if floating:...', '''if floating:
    if cell_bdry_vec[ind] == val:
        result.append(float(ind))
    else:
        csize = float(cell_bdry_vec[ind] - cell_bdry_vec[ind - 1])
        result.append(ind - (cell_bdry_vec[ind] - val) / csize)
elif cell_bdry_vec[ind] == val:
    result.append(ind)
else:
    result.append(ind - 1)''', 'RectPartition.index')
MA('C14', 'completion of max_pt ignores boundary nodes', PARTF,
   'uniform_partition',
   'max_pt[i] = xmin + (n - sum([bdry_l, bdry_r]) / 2.0) * dx',
   'max_pt[i] = xmin + n * dx', 'uniform_partition')
MA('C14', 'getitem takes max from the left boundaries', PARTF,
   'RectPartition.__getitem__', 'sub_max_pt = cvec[1:][idx]',
   'sub_max_pt = cvec[:-1][idx]', 'RectPartition.__getitem__')
MA('C14', 'inner boundaries not midpoints', PARTF, 'RectPartition.__init__',
   'bdry[1:-1] = (vec[1:] + vec[:-1]) / 2.0', 'bdry[1:-1] = vec[1:]',
   'RectPartition.__init__')
MA('C14', 'normalizer 1-d pair regression', 'odl/util/normalize.py',
   'normalized_nodes_on_bdry',
   'return [(nodes_on_bdry[0], nodes_on_bdry[1])]',
   'return [nodes_on_bdry[0], nodes_on_bdry[1]]', 'normalized_nodes_on_bdry')
MA('C14', 'fromgrid default max a full stride', PARTF,
   'uniform_partition_fromgrid',
   'max_pt_vec[ax] = cvec[-1] + (cvec[-1] - cvec[-2]) / 2',
   'max_pt_vec[ax] = cvec[-1] + (cvec[-1] - cvec[-2])',
   'uniform_partition_fromgrid')
MA('C14', 'boundary fraction uses wrong stride', PARTF,
   'RectPartition.boundary_cell_fractions',
   'right_frac = 0.5 + (bmax - cvec[-1]) / (cvec[-1] - cvec[-2])',
   'right_frac = 0.5 + (bmax - cvec[-1]) / (cvec[1] - cvec[0])',
   'RectPartition.boundary_cell_fractions')
MA('C14', 'shape completion sign', PARTF, 'uniform_partition',
   'n_calc = (xmax - xmin) / dx + sum([bdry_l, bdry_r]) / 2.0',
   'n_calc = (xmax - xmin) / dx - sum([bdry_l, bdry_r]) / 2.0',
   'uniform_partition')

# ---- C19 -------------------------------------------------------------------
UTILF = 'odl/tomo/util/utility.py'
DETF = 'odl/tomo/geometry/detector.py'
CONEF = 'odl/tomo/geometry/conebeam.py'
PARF = 'odl/tomo/geometry/parallel.py'
M('C19', 'euler matrix sign flip', UTILF,
  "-sph * sps + cph * cth * cps,", "sph * sps + cph * cth * cps,",
  'euler_matrix')
MA('C19', 'circular detector derivative sign', DETF,
   'CircularDetector.surface_deriv', 'deriv[..., 1] = -np.cos(param)',
   'deriv[..., 1] = np.cos(param)', 'CircularDetector.surface_deriv')
MA('C19', 'det_point_position contracts the wrong axis',
   'odl/tomo/geometry/geometry.py', 'Geometry.det_point_position',
   'surf_axes = list(range(matrix.ndim - 2)) + [matrix_axes[-1]]',
   'surf_axes = list(range(matrix.ndim - 2)) + [matrix_axes[-2]]',
   'Geometry.det_point_position')
M('C19', 'cone beam getitem drops pitch', CONEF,
  "                                pitch=self.pitch,\n", "",
  'ConeBeamGeometry.__getitem__')
MA('C19', 'parallel beam half width', PARF, 'parallel_beam_geometry',
   'det_min_pt = -rho', 'det_min_pt = -rho / 2', 'parallel_beam_geometry',
   nth=0)
MA('C19', 'cone beam height sine regression', CONEF, 'cone_beam_geometry',
   'h = 2 * np.tan(half_cone_angle) * (rs + rd)',
   'h = 2 * np.sin(half_cone_angle) * (rs + rd)', 'cone_beam_geometry:h')
MA('C19', 'rodrigues without axis projection', UTILF, 'axis_rotation_matrix',
   'axis_mat = cos_ang * id_mat + (1.0 - cos_ang) * dy_mat + sin_ang * cross_mat',
   'axis_mat = cos_ang * id_mat + sin_ang * cross_mat', 'axis_rotation_matrix')
MA('C19', 'cross matrix transposed entry', UTILF, 'axis_rotation_matrix',
   'cross_mat = np.array(...',
   'cross_mat = np.array([[0, -axis[2], axis[1]], [axis[2], 0, axis[0]], [-axis[1], axis[0], 0]])',
   'axis_rotation_matrix')
MA('C19', 'spherical detector theta derivative', DETF,
   'SphericalDetector.surface_deriv',
   'deriv_theta[..., 2] = np.cos(param[1])',
   'deriv_theta[..., 2] = -np.cos(param[1])',
   'SphericalDetector.surface_deriv')
MA('C19', 'det_to_src sign', 'odl/tomo/geometry/geometry.py',
   'DivergentBeamGeometry.det_to_src',
   'det_to_src = self.src_position(angle) - self.det_point_position(angle, dparam)',
   'det_to_src = self.det_point_position(angle, dparam) - self.src_position(angle)',
   'DivergentBeamGeometry.det_to_src')
MA('C19', 'cylindrical derivative scaled twice', DETF,
   'CylindricalDetector.surface_deriv', 'deriv_phi[..., 0] = -np.sin(param[0])',
   'deriv_phi[..., 0] = -self.radius * np.sin(param[0])',
   'CylindricalDetector.surface_deriv')
MA('C19', 'circular frame mirrored', DETF, 'CircularDetector.__init__',
   'self.__rotation_matrix = np.array([[cos, -sin], [sin, cos]])',
   'self.__rotation_matrix = np.array([[cos, sin], [sin, cos]])',
   'CircularDetector')

# ---- C18 -------------------------------------------------------------------
FTU = 'odl/trafos/util/ft_utils.py'
FOURF = 'odl/trafos/fourier.py'
MA('C18', 'halfcomplex rmax arms swapped', FTU, 'reciprocal_grid',
   'if last_odd and last_shifted:...',
   'if last_odd and last_shifted:\n    rmax[axes[-1]] = half_rstride\n'
   'elif not last_odd and (not last_shifted):\n    rmax[axes[-1]] = -half_rstride\n'
   'else:\n    rmax[axes[-1]] = 0', 'reciprocal_grid')
MA('C18', 'inverse DFT pyfftw forgets 1/N', FOURF,
   'DiscreteFourierTransformInverse._call_pyfftw',
   "if self.sign == '-':...", 'pass', 'DiscreteFourierTransformInverse')
MA('C18', 'FT inverse keeps sign', FOURF, 'FourierTransform.inverse',
   "sign = '+' if self.sign == '-' else '-'", 'sign = self.sign',
   'FourierTransform.inverse')
MA('C18', 'postprocess fmin unshifted', FTU, 'dft_postprocess_data',
   'fmin = -0.5 if shift else -0.5 + 1.0 / (2 * len_orig)',
   'fmin = -0.5 if shift else -0.5 + 1.0 / len_orig',
   'dft_postprocess_data')
MA('C18', 'preprocess phase factor', FTU,
   'dft_preprocess_data._onedim_arr',
   'factor *= -imag * np.pi * (1 - 1.0 / length)',
   'factor *= -imag * np.pi * (1 - 2.0 / length)', 'dft_preprocess_data')
MA('C18', 'unshifted rmin', FTU, 'reciprocal_grid',
   'rmin[not_shifted] = (-1.0 + 1.0 / shape[not_shifted]) * np.pi / stride[not_shifted]',
   'rmin[not_shifted] = -np.pi / stride[not_shifted]', 'reciprocal_grid')
MA('C18', 'DFT numpy sign plus unnormalised twice', FOURF,
   'DiscreteFourierTransform._call_numpy',
   'return np.prod(np.take(self.domain.shape, self.axes)) * np.fft.ifftn(x, axes=self.axes)',
   'return np.fft.ifftn(x, axes=self.axes)', 'DiscreteFourierTransform')
MA('C18', 'DFT inverse impl regression', FOURF,
   'DiscreteFourierTransform.inverse',
   'return DiscreteFourierTransformInverse(...',
   'return DiscreteFourierTransformInverse(domain=self.range, range=self.domain, axes=self.axes, halfcomplex=self.halfcomplex, sign=sign)',
   'DiscreteFourierTransform.inverse')
MA('C18', 'planner scratch regression',
   'odl/trafos/backends/pyfftw_bindings.py', 'pyfftw_call',
   'if must_copy_array_in:...',
   'if must_copy_array_in and not array_in_copied:\n    plan_arr_in = np.empty_like(array_in)\n'
   "    flags = [_flag_odl_to_pyfftw(planning_effort), 'FFTW_DESTROY_INPUT']\n"
   'else:\n    plan_arr_in = array_in\n    flags = [_flag_odl_to_pyfftw(planning_effort)]',
   'pyfftw_call')
MA('C18', 'wavelet inverse drops nlevels',
   'odl/trafos/wavelet.py', 'WaveletTransform.inverse',
   'return WaveletTransformInverse(...',
   'return WaveletTransformInverse(range=self.domain, wavelet=self.pywt_wavelet, pad_mode=self.pad_mode, pad_const=self.pad_const, impl=self.impl, axes=self.axes)',
   'WaveletTransform.inverse')
MA('C18', 'realspace grid odd parity shape', FTU, 'realspace_grid',
   'irshape[axes[-1]] = 2 * rshape[axes[-1]] - 1',
   'irshape[axes[-1]] = 2 * rshape[axes[-1]]', 'realspace_grid')
MA('C18', 'FT inverse numpy divides for wrong sign', FOURF,
   'FourierTransformInverse._call_numpy',
   'out /= np.prod(np.take(self.domain.shape, self.axes))', 'pass',
   'FourierTransformInverse')
MA('C03', 'halfcomplex inverse DFT copy regression', FOURF,
   'DiscreteFourierTransformInverse._call_pyfftw',
   'if self.halfcomplex and x.ndim > 1:...', 'pass',
   'DiscreteFourierTransformInverse._call_pyfftw')

# ---- C07 / C08 / C09 ----------------------------------------------------------
DEFF = 'odl/solvers/functional/default_functionals.py'
MA('C07', 'arg scaling uses scaling not its square', PROX,
   'proximal_arg_scaling.arg_scaling_prox_factory',
   'prox = prox_factory(sigma * scaling_square)',
   'prox = prox_factory(sigma * scaling)', 'proximal_arg_scaling')
MA('C07', 'moreau inner factor', PROX,
   'proximal_convex_conj.convex_conj_prox_factory',
   'mult_inner = MultiplyOperator(1.0 / sigma, domain=space, range=space)',
   'mult_inner = MultiplyOperator(sigma, domain=space, range=space)',
   'proximal')
MA('C07', 'l2 squared denominator', PROX,
   'proximal_l2_squared.ProximalL2Squared._call',
   'out.lincomb(1 / (1 + 2 * sig * lam), x)',
   'out.lincomb(1 / (1 + sig * lam), x)', 'proximal_l2_squared')
MA('C07', 'L1 norm bound to l2 prox', DEFF, 'LpNorm.proximal',
   'return proximal_l1(space=self.domain)',
   'return proximal_l2(space=self.domain)', 'LpNorm.proximal')
MA('C07', 'left scalar mult prox ignores scalar', FUNF,
   'FunctionalLeftScalarMult.proximal.proximal_left_scalar_mult',
   'if isinstance(sigma, (list, tuple)):...',
   'pass',
   'FunctionalLeftScalarMult.proximal')
MA('C07', 'translation prox forgets to shift back', PROX,
   'proximal_translation.translation_prox_factory',
   'return ConstantOperator(y) + prox_factory(sigma) * (IdentityOperator(y.space) - ConstantOperator(y))',
   'return prox_factory(sigma) * (IdentityOperator(y.space) - ConstantOperator(y))',
   'proximal_translation')
MA('C07', 'quadratic perturbation const', PROX,
   'proximal_quadratic_perturbation.quadratic_perturbation_prox_factory',
   'const = 1.0 / np.sqrt(sigma * 2.0 * a + 1)',
   'const = 1.0 / np.sqrt(sigma * a + 1)',
   'proximal_quadratic_perturbation')
MA('C07', 'ProximalSum attribute regression', DEFF,
   'IndicatorSumConstraint.proximal.ProximalSum._call',
   'offset = (sum_value - x.ufuncs.sum()) / num_entries',
   'offset = (self.sum_value - x.ufuncs.sum()) / num_entries',
   'ProximalSum._call')
MA('C07', 'conj l2 squared with g sign', PROX,
   'proximal_convex_conj_l2_squared.ProximalConvexConjL2Squared._call',
   'out.lincomb(1 / (1 + 0.5 * sig / lam), x, -sig / (1 + 0.5 * sig / lam), g)',
   'out.lincomb(1 / (1 + 0.5 * sig / lam), x, sig / (1 + 0.5 * sig / lam), g)',
   'proximal_convex_conj_l2_squared')
MA('C07', 'composition factor', PROX,
   'proximal_composition.proximal_composition_factory',
   'return Id + 1.0 / mu * operator.adjoint * ((prox_muf - Ir) * operator)',
   'return Id + operator.adjoint * ((prox_muf - Ir) * operator)',
   'proximal_composition')
MA('C08', 'left scalar conj drops inner scaling', FUNF,
   'FunctionalLeftScalarMult.convex_conj',
   'return self.scalar * self.functional.convex_conj * (1.0 / self.scalar)',
   'return self.scalar * self.functional.convex_conj',
   'FunctionalLeftScalarMult.convex_conj')
MA('C08', 'scalar sum conj sign', FUNF, 'FunctionalScalarSum.convex_conj',
   'return self.left.convex_conj - self.scalar',
   'return self.left.convex_conj + self.scalar',
   'FunctionalScalarSum.convex_conj')
MA('C08', 'translation conj sign of linear term', FUNF,
   'FunctionalTranslation.convex_conj',
   'return FunctionalQuadraticPerturb(self.functional.convex_conj, linear_term=self.translation)',
   'return FunctionalQuadraticPerturb(self.functional.convex_conj, linear_term=-self.translation)',
   'FunctionalTranslation.convex_conj')
MA('C08', 'L2NormSquared conj factor', DEFF, 'L2NormSquared.convex_conj',
   'return 1.0 / 4 * L2NormSquared(self.domain)',
   'return 1.0 / 2 * L2NormSquared(self.domain)', 'L2NormSquared.convex_conj')
MA('C08', 'quadratic form conj regression', DEFF, 'QuadraticForm.convex_conj',
   'return QuadraticForm(operator=0.25 * self.operator.inverse, constant=-self.constant)',
   'return QuadraticForm(operator=self.operator.inverse, constant=-self.constant)',
   'QuadraticForm.convex_conj')
MA('C08', 'right scalar conj multiplies', FUNF,
   'FunctionalRightScalarMult.convex_conj',
   'return self.functional.convex_conj * (1 / self.scalar)',
   'return self.functional.convex_conj * self.scalar',
   'FunctionalRightScalarMult.convex_conj')
MA('C08', 'infimal convolution conj difference', FUNF,
   'InfimalConvolution.convex_conj',
   'return self.left.convex_conj + self.right.convex_conj',
   'return self.left.convex_conj - self.right.convex_conj',
   'InfimalConvolution.convex_conj')
MA('C08', 'quadratic perturb conj drops constant', FUNF,
   'FunctionalQuadraticPerturb.convex_conj', 'if self.constant != 0:...',
   'pass', 'FunctionalQuadraticPerturb.convex_conj')
MA('C09', 'right scalar gradient misses outer factor', FUNF,
   'FunctionalRightScalarMult.gradient',
   'return self.scalar * self.functional.gradient * self.scalar',
   'return self.functional.gradient * self.scalar',
   'FunctionalRightScalarMult.gradient')
MA('C09', 'sum lipschitz max', FUNF, 'FunctionalSum.__init__',
   'Functional.__init__(self, space=left.domain...',
   'Functional.__init__(self, space=left.domain, linear=left.is_linear and right.is_linear, grad_lipschitz=max(left.grad_lipschitz, right.grad_lipschitz))',
   'grad_lipschitz')
MA('C09', 'quadratic perturb gradient factor', FUNF,
   'FunctionalQuadraticPerturb.gradient',
   'return self.functional.gradient + 2 * self.quadratic_coeff * IdentityOperator(self.domain) + ConstantOperator(self.linear_term)',
   'return self.functional.gradient + self.quadratic_coeff * IdentityOperator(self.domain) + ConstantOperator(self.linear_term)',
   'FunctionalQuadraticPerturb.gradient')
MA('C09', 'composition gradient without adjoint', FUNF,
   'FunctionalComp.gradient.FunctionalCompositionGradient._call',
   'return op.derivative(x).adjoint(func.gradient(op(x)))',
   'return func.gradient(op(x))', 'FunctionalComp.gradient')
MA('C09', 'quotient gradient sign', FUNF,
   'FunctionalQuotient.gradient.FunctionalQuotientGradient._call',
   'return 1 / divisorx * func.dividend.gradient(x) + -dividendx / divisorx ** 2 * func.divisor.gradient(x)',
   'return 1 / divisorx * func.dividend.gradient(x) + dividendx / divisorx ** 2 * func.divisor.gradient(x)',
   'FunctionalQuotient.gradient')
MA('C09', 'numerical gradient weight regression',
   'odl/solvers/functional/derivatives.py', 'NumericalGradient._call',
   "if hasattr(weighting, 'const'):...", 'pass', 'NumericalGradient._call')
MA('C09', 'right scalar lipschitz regression', FUNF,
   'FunctionalRightScalarMult.__init__',
   'Functional.__init__(self, space=func.domain...',
   'Functional.__init__(self, space=func.domain, linear=func.is_linear, grad_lipschitz=np.abs(scalar) * func.grad_lipschitz)',
   'grad_lipschitz')
MA('C09', 'translation gradient at wrong point', FUNF,
   'FunctionalTranslation.gradient',
   'return self.functional.gradient * (IdentityOperator(self.domain) - self.translation)',
   'return self.functional.gradient * (IdentityOperator(self.domain) + self.translation)',
   'FunctionalTranslation.gradient')
MA('C09', 'L2NormSquared gradient factor', DEFF, 'L2NormSquared.gradient',
   'return ScalingOperator(self.domain, 2.0)',
   'return ScalingOperator(self.domain, 1.0)', 'L2NormSquared.gradient')

# ---- C16 -------------------------------------------------------------------
NUMF = 'odl/util/numerics.py'
DOPF = 'odl/discr/discr_ops.py'
MA('C16', 'periodic adjoint assigns instead of accumulating', NUMF,
   '_apply_padding', 'lhs_arr[lhs_slc_l] += lhs_arr[rhs_slc_l]',
   'lhs_arr[lhs_slc_l] = lhs_arr[rhs_slc_l]', 'resize_array', nth=0)
MA('C16', 'symmetric inner slice repeats the edge', NUMF,
   '_padding_slices_inner', 'pad_slc_r = slice(istop_inner - 2, istop_r, -1)',
   'pad_slc_r = slice(istop_inner - 1, istop_r, -1)', 'resize_array[symmetric]')
MA('C16', 'resize_discr half cell dropped', DOPF, '_resize_discr',
   'new_minpt.append(grid_min[axis] - (num_l + 0.5) * cell_size[axis])',
   'new_minpt.append(grid_min[axis] - num_l * cell_size[axis])',
   '_resize_discr')
MA('C16', 'order1 slope sign', NUMF, '_apply_padding',
   'lhs_arr[lhs_slc_l] = lhs_arr[bdry_slc_l] + arange_l * slope_l',
   'lhs_arr[lhs_slc_l] = lhs_arr[bdry_slc_l] - arange_l * slope_l',
   'resize_array[order1]')
MA('C16', 'intersection offset on the wrong side', NUMF,
   '_intersection_slice_tuples', 'if n_lhs > n_rhs:...',
   'if n_lhs > n_rhs:\n    lhs_slc.append(slice(None, min(n_lhs, n_rhs)))\n    rhs_slc.append(slice(None))\n'
   'elif n_lhs < n_rhs:\n    lhs_slc.append(slice(None))\n    rhs_slc.append(inner_slc)\n'
   'else:\n    lhs_slc.append(slice(None))\n    rhs_slc.append(slice(None))',
   'resize_array')
MA('C16', 'adjoint operator uses forward direction', DOPF,
   'ResizingOperator.adjoint.ResizingOperatorAdjoint._call',
   'resize_array(...', "resize_array(x.asarray(), op.domain.shape, offset=op.offset, pad_mode=op.pad_mode, pad_const=0, direction='forward', out=out_arr)",
   'ResizingOperatorAdjoint._call')
MA('C16', 'periodic left pad from the wrong end', NUMF,
   '_padding_slices_inner',
   'pad_slc_l = slice(istop_inner - n_pad_l, istop_inner)',
   'pad_slc_l = slice(istart_inner, istart_inner + n_pad_l)',
   'resize_array[periodic]')
MA('C16', 'order0 adjoint forgets sum', NUMF, '_apply_padding',
   'lhs_arr[lhs_slc_r] += np.sum(lhs_arr[rhs_slc_r], axis=axis, keepdims=True, dtype=lhs_arr.dtype)',
   'pass', 'resize_array[order0]', nth=0)
MA('C16', 'order1 adjoint moment sign', NUMF, '_apply_padding',
   'sign = np.array([-1, 1])[bcast_slc]', 'sign = np.array([1, -1])[bcast_slc]',
   'resize_array[order1]')
MA('C16', 'adjoint inverse keyword regression', DOPF,
   'ResizingOperator.adjoint.ResizingOperatorAdjoint.inverse',
   'return op.inverse.adjoint',
   'return ResizingOperatorAdjoint(domain=self.range, range=self.domain, pad_mode=op.pad_mode)',
   'ResizingOperatorAdjoint')
MA('C16', 'inverse drops pad_mode', DOPF, 'ResizingOperator.inverse',
   'return ResizingOperator(...',
   'return ResizingOperator(self.range, self.domain, pad_const=self.pad_const)',
   'ResizingOperator.inverse')
MA('C16', 'resize_discr right count', DOPF, '_resize_discr',
   'num_r = n_diff - off', 'num_r = n_diff', '_resize_discr')

# ---- C15 -------------------------------------------------------------------
DUF = 'odl/discr/discr_utils.py'
MA('C15', 'linear lower weight is the distance', DUF,
   '_compute_linear_weights_edge', 'w_lo = 1 - ndist', 'w_lo = ndist * 1',
   'C15-R1')
MA('C15', 'nearest tie goes left', DUF, '_NearestInterpolator._evaluate',
   'idx_res.append(np.where(yi < 0.5, i, i + 1))',
   'idx_res.append(np.where(yi <= 0.5, i, i + 1))', 'nearest_interpolator')
MA('C15', 'index clamp one too high', DUF, '_Interpolator._find_indices',
   'idcs[idcs > cvec.size - 2] = cvec.size - 2',
   'idcs[idcs > cvec.size - 1] = cvec.size - 1', 'C15-R')
M('C15', 'corner labels swapped', DUF, "product(*([['l', 'h']] * len(indices)))",
  "product(*([['h', 'l']] * len(indices)))", 'C15-R1')
MA('C15', 'per-axis nearest weights overlap at the tie', DUF,
   '_compute_nearest_weights_edge', 'w_lo = np.where(ndist < 0.5, 1.0, 0.0)',
   'w_lo = np.where(ndist <= 0.5, 1.0, 0.0)', 'per_axis_interpolator[nearest]')
MA('C15', 'integer accumulator regression', DUF,
   '_PerAxisInterpolator._evaluate',
   'out_dtype = np.dtype(float)',
   'out_dtype = self.values.dtype', 'C15-R5')
MA('C15', 'distance normalised by the first cell', DUF,
   '_Interpolator._find_indices',
   'norm_distances.append((xi - cvec[idcs]) / (cvec[idcs + 1] - cvec[idcs]))',
   'norm_distances.append((xi - cvec[idcs]) / (cvec[1] - cvec[0]))',
   'C15-R3')
MA('C15', 'in-place accumulator not cleared', DUF,
   '_PerAxisInterpolator._evaluate', 'out[:] = 0.0', 'pass', ':out')
MA('C15', 'per-axis nearest picks the lower node in the upper half', DUF,
   '_compute_nearest_weights_edge', 'w_hi = np.where(ndist < 0.5, 0.0, 1.0)',
   'w_hi = np.where(ndist < 0.75, 0.0, 1.0)', 'per_axis_interpolator')
MA('C15', 'linear low edge index not reset below the hull', DUF,
   '_compute_linear_weights_edge', 'edge[1][lo] = 0', 'pass', 'C15-R1')
MA('C15', 'nearest interpolator averages in the upper half', DUF,
   '_NearestInterpolator._evaluate', 'return self.values[idx_res]',
   'return self.values[idx_res] * 1', 'C15-R2')
MA('C15', 'Resampling interpolates on the range nodes', 'odl/discr/discr_ops.py',
   'Resampling._call', 'interpolator = per_axis_interpolator(...',
   'interpolator = per_axis_interpolator(x, self.range.grid.coord_vectors, self.interp)',
   'Resampling._call')
MA('C15', 'element samples with default dtype', 'odl/discr/discr_space.py',
   'DiscretizedSpace.element', 'func = sampling_function(...',
   'func = sampling_function(inp, self.domain)', 'DiscretizedSpace.element')
MA('C15', 'linear_deform subtracts the displacement', 'odl/deform/linearized.py',
   'linear_deform', 'points[:, i] += vi.asarray().ravel()',
   'points[:, i] -= vi.asarray().ravel()', 'linear_deform')
MA('C15', 'out after a defaulted argument is optional', DUF,
   '_check_func_out_arg',
   "out_optional = pos_args.index('out') >= len(pos_args) - len(pos_defaults)",
   "out_optional = len(pos_defaults) > 0", '_func_out_type')
MA('C15', 'default out-of-place wrapper drops keyword arguments', DUF,
   'sampling_function._default_oop', 'func_ip(x, out=out, **kwargs)',
   'func_ip(x, out=out)', 'sampling[param,ip')
MA('C15', 'partial-coordinate result not broadcast', DUF,
   '_make_dual_use_func.dual_use_func',
   'out = np.broadcast_to(out, out_shape)', 'pass', 'sampling[partial0')
MA('C15', 'in-place default wrapper ignores out', DUF,
   'sampling_function._default_ip', 'out[:] = reshaped', 'out = reshaped',
   'sampling[')
MA('C15', 'point_collocation drops out', DUF, 'point_collocation',
   'func(points, out=out, **kwargs)', 'out = func(points, **kwargs)',
   'sampling[')
MA('C15', '1-d meshgrid not unpacked', DUF,
   '_make_dual_use_func.dual_use_func', 'x = x[0][None, ...]', 'x = x[0]',
   'sampling[one_d')

# ---- C02 -------------------------------------------------------------------
NPYF = 'odl/space/npy_tensors.py'
MA('C02', 'const inf-norm scaled by sqrt(c)', NPYF,
   'NumpyTensorSpaceConstWeighting.norm',
   'return float(self.const * _pnorm_default(x, self.exponent))',
   'return float(np.sqrt(self.const) * _pnorm_default(x, self.exponent))',
   'norm:const[p=inf')
MA('C02', 'diag weights applied before the power', NPYF, '_pnorm_diagweight',
   'xp = np.power(xp, p, out=xp)',
   'xp *= w.ravel(order)\nxp = np.power(xp, p, out=xp)\nxp /= w.ravel(order)',
   'norm:array[p=3')
MA('C02', 'vdot arguments swapped', NPYF, '_inner_default',
   'return np.vdot(x2.data.ravel(order), x1.data.ravel(order))',
   'return np.vdot(x1.data.ravel(order), x2.data.ravel(order))',
   'inner:const[p=2,C')
MA('C02', 'weights ravelled in C order regardless of the data', NPYF,
   '_pnorm_diagweight', 'xp *= w.ravel(order)', "xp *= w.ravel('C')",
   '2dF', nth=1)
MA('C02', 'array weights dropped from inner', NPYF,
   'NumpyTensorSpaceArrayWeighting.inner',
   'inner = _inner_default(x1 * self.array, x2)',
   'inner = _inner_default(x1, x2)', 'inner:array')
MA('C02', 'const dist p=2 uses c instead of sqrt(c)', NPYF,
   'NumpyTensorSpaceConstWeighting.dist',
   'return float(np.sqrt(self.const) * _norm_default(x1 - x2))',
   'return float(self.const * _norm_default(x1 - x2))', 'dist:const[p=2')
MA('C02', 'BLAS norm skips the last entry', NPYF, '_norm_default',
   'norm = partial(nrm2, n=native(x.size))',
   'norm = partial(nrm2, n=native(x.size - 1))', 'blas')
MA('C02', 'generic-p const norm forgets the root of c', NPYF,
   'NumpyTensorSpaceConstWeighting.norm',
   'return float(self.const ** (1 / self.exponent) * _pnorm_default(x, self.exponent))',
   'return float(self.const * _pnorm_default(x, self.exponent))',
   'norm:const[p=3')
MA('C02', 'inner defined for p != 2', NPYF,
   'NumpyTensorSpaceConstWeighting.inner',
   'if self.exponent != 2.0:...', 'if False:\n    pass\nelse:\n    inner = self.const * _inner_default(x1, x2)\n    return inner',
   'inner:const[p=1')
PSPF = 'odl/space/pspace.py'
DSPF = 'odl/discr/discr_space.py'
MA('C02', 'pspace array weights without the 1/p root', PSPF,
   'ProductSpaceArrayWeighting.norm',
   'norms *= self.array ** (1.0 / self.exponent)', 'norms *= self.array',
   'norm:pspace-array[p=3')
MA('C02', 'pspace const dist treats p=1 like inf', PSPF,
   'ProductSpaceConstWeighting.dist',
   "if self.exponent == float('inf'):...",
   "if self.exponent == float('inf'):\n    return self.const * np.linalg.norm(dnorms, ord=self.exponent)\nelse:\n    return self.const ** (1 / 2.0) * np.linalg.norm(dnorms, ord=self.exponent)",
   'dist:pspace-const')
MA('C02', 'pspace array inner sums without weights', PSPF,
   'ProductSpaceArrayWeighting.inner', 'inner = np.dot(inners, self.array)',
   'inner = np.sum(inners)', 'inner:pspace-array')
MA('C02', 'discr norm scales the boundary with exponent 1', DSPF,
   'DiscretizedSpace._norm',
   'func_list = _scaling_func_list(bdry_fracs, exponent=self.exponent)',
   'func_list = _scaling_func_list(bdry_fracs, exponent=1.0)', 'norm:discr')
MA('C02', 'discr dist scales only one operand', DSPF,
   'DiscretizedSpace._dist',
   'return self.tspace.dist(self.tspace.element(arrs[0]), self.tspace.element(arrs[1]))',
   'return self.tspace.dist(self.tspace.element(arrs[0]), y.tensor)',
   'dist:discr')
MA('C02', 'corner cells scaled only once', DSPF, 'DiscretizedSpace._inner',
   'x_arr = apply_on_boundary(x, func=func_list, only_once=False)',
   'x_arr = apply_on_boundary(x, func=func_list, only_once=True)',
   'inner:discr-2d')
MA('C02', 'scaling uses the fraction itself', DSPF, '_scaling_func_list',
   'func_list_entry.append(scaling(frac_r ** (1 / exponent)))',
   'func_list_entry.append(scaling(frac_r))', 'discr', nth=0)
MA('C02', 'right boundary fraction measured from the first cell',
   'odl/discr/partition.py', 'RectPartition.boundary_cell_fractions',
   'right_frac = 0.5 + (bmax - cvec[-1]) / (cvec[-1] - cvec[-2])',
   'right_frac = 0.5 + (bmax - cvec[-1]) / (cvec[-1] - cvec[0])',
   'boundary_cell_fractions')
MA('C02', 'default weighting is 1 for every exponent', DSPF,
   'uniform_discr_frompartition',
   "if exponent == float('inf') or partition.ndim == 0:...",
   'weighting = 1.0', 'uniform_discr_frompartition')
MA('C02', 'space norm forwards to dist', NPYF, 'NumpyTensorSpace._norm',
   'return self.weighting.norm(x)', 'return self.weighting.dist(x, x)',
   'NumpyTensorSpace._norm')
MA('C02', 'LinearSpace.inner swaps its arguments', 'odl/set/space.py',
   'LinearSpace.inner', 'return self.field.element(self._inner(x1, x2))',
   'return self.field.element(self._inner(x2, x1))', 'LinearSpace.inner')

# ---- C17 -------------------------------------------------------------------
UFNF = 'odl/util/ufuncs.py'
BTF = 'odl/space/base_tensors.py'
UTLF = 'odl/util/utility.py'
MA('C17', 'negative reduce axes not normalised', DSPF,
   'DiscretizedSpaceElement.__array_ufunc__',
   'axis = tuple((int(ax) % self.ndim for ax in axis))', 'pass',
   'add.reduce(axis=-1)')
M('C17', 'pspace two-output wrapper passes out1/out2', UFNF,
  "getattr(x.ufuncs, name)(out=(out1_x, out2_x), **kwargs)",
  "getattr(x.ufuncs, name)(out1=out1_x, out2=out2_x, **kwargs)",
  'pspace x.ufuncs.modf')
MA('C17', 'writable_array writes back with [:] on 0-d', UTLF,
   'writable_array', 'if arr.ndim == 0:...', 'obj[:] = arr',
   'axis=None),out=ndarray')
MA('C17', 'tensor operands not unwrapped', NPYF,
   'NumpyTensor.__array_ufunc__',
   'inputs = tuple((inp.asarray() if isinstance(inp, type(self)) else inp for inp in inputs))',
   'inputs = tuple(inputs)', 'NumpyTensor:')
MA('C17', 'result space keeps the operand dtype', NPYF,
   'NumpyTensor.__array_ufunc__',
   'out_space = type(self.space)(self.shape, res.dtype, **spc_kwargs)',
   'out_space = type(self.space)(self.shape, self.dtype, **spc_kwargs)',
   'isfinite')
MA('C17', 'methods ignore the out argument', NPYF,
   'NumpyTensor.__array_ufunc__', "if method != 'at':...", 'pass',
   'out=')
MA('C17', 'discretized call returns the tensor of out', DSPF,
   'DiscretizedSpaceElement.__array_ufunc__', 'result = out_tuple[0]',
   'result = out', 'out=delem', nth=0)
MA('C17', 'second output returns the first out', DSPF,
   'DiscretizedSpaceElement.__array_ufunc__', 'result2 = out_tuple[1]',
   'result2 = out_tuple[0]', 'out=(delem,delem)')
MA('C17', 'default reduce axis keeps the wrong axes', DSPF,
   'DiscretizedSpaceElement.__array_ufunc__',
   'reduced_axes = list(range(1, self.ndim))',
   'reduced_axes = list(range(self.ndim - 1))', 'add.reduce(axis=absent)')
MA('C17', 'legacy min uses maximum', UFNF, 'TensorSpaceUfuncs.min',
   "return self.elem.__array_ufunc__(np.minimum, 'reduce', self.elem, axis=axis, dtype=dtype, out=(out,), keepdims=keepdims)",
   "return self.elem.__array_ufunc__(np.maximum, 'reduce', self.elem, axis=axis, dtype=dtype, out=(out,), keepdims=keepdims)",
   'x.ufuncs.min')
M('C17', 'legacy binary wrapper swaps operands', UFNF,
  "ufunc, '__call__', self.elem, x2, out=(out,), **kwargs)",
  "ufunc, '__call__', x2, self.elem, out=(out,), **kwargs)",
  'x.ufuncs.add')
MA('C17', 'wrapping always copies', NPYF, 'NumpyTensorSpace.element',
   'arr = np.array(inp, copy=False, dtype=self.dtype, ndmin=self.ndim, order=order)',
   'arr = np.array(inp, copy=True, dtype=self.dtype, ndmin=self.ndim, order=order)',
   'shares memory')
MA('C17', '__array__ copies', BTF, 'Tensor.__array__',
   'return self.asarray()', 'return self.asarray().copy()', 'shares memory')
MA('C17', 'outer appends the partitions in reverse', DSPF,
   'DiscretizedSpaceElement.__array_ufunc__',
   'part = inp1.space.partition.append(inp2.space.partition)',
   'part = inp2.space.partition.append(inp1.space.partition)', 'add.outer')
MA('C18', 'half-complex parity taken from the last grid axis',
   'odl/trafos/util/ft_utils.py', 'reciprocal_grid',
   'last_odd = shape[axes[-1]] % 2 == 1', 'last_odd = shape[-1] % 2 == 1',
   'reciprocal_grid[2-d')
M('C06', 'block derivative taken at the row component', 'odl/operator/pspace_ops.py',
  """deriv_ops = [op.derivative(x[col]) for op, col in zip(self.ops.data,
                                                              self.ops.col)]""",
  """deriv_ops = [op.derivative(x[col]) for op, col in zip(self.ops.data,
                                                              self.ops.row)]""",
  'ProductSpaceOperator.derivative')
M('C06', 'reduction derivative at the whole point', 'odl/operator/pspace_ops.py',
  """return ReductionOperator(*[op.derivative(xi)
                                   for op, xi in zip(self.operators, x)])""",
  """return ReductionOperator(*[op.derivative(x)
                                   for op, xi in zip(self.operators, x)])""",
  'ReductionOperator.derivative')
M('C19', 'circular detector frame mirrored (tuple unpacking)',
  'odl/tomo/geometry/detector.py',
  "        sin = self.__axis[0]\n        cos = -self.__axis[1]\n",
  "        sin, cos = self.__axis\n", 'CircularDetector')
M('C20', 'uniform grids compared by corners only', 'odl/discr/grid.py',
  """        return (type(other) is type(self) and
                self.shape == other.shape and
                all(np.array_equal(vec_s, vec_o)
                    for (vec_s, vec_o) in zip(self.coord_vectors,
                                              other.coord_vectors)))""",
  """        if type(other) is not type(self) or self.shape != other.shape:
            return False
        if self.is_uniform and other.is_uniform:
            return (np.array_equal(self.min_pt, other.min_pt) and
                    np.array_equal(self.max_pt, other.max_pt))
        return all(np.array_equal(vec_s, vec_o)
                   for (vec_s, vec_o) in zip(self.coord_vectors,
                                             other.coord_vectors))""",
  'RectGrid.__hash__')
M('C01', 'BLAS guard ignores the output array', 'odl/space/npy_tensors.py',
  "not _blas_is_applicable(x1.data, x2.data, out.data)):",
  "not _blas_is_applicable(x1.data, x2.data)):", 'layouts x1/x2/out=C/C/strided')
MA('C01', 'BLAS arm ravels the operands in C order always', 'odl/space/npy_tensors.py',
   '_lincomb_impl', 'x1_arr = x1.data.ravel(order=ravel_order)',
   "x1_arr = x1.data.ravel(order='C')", 'layouts x1/x2/out=F/F/F')
M('C03', 'block operator in-place arm assumes row-sorted storage', 'odl/operator/pspace_ops.py',
  """            has_evaluated_row = np.zeros(len(self.range), dtype=bool)
            for i, j, op in zip(self.ops.row, self.ops.col, self.ops.data):
                if not has_evaluated_row[i]:
                    op(x[j], out=out[i])""",
  """            has_evaluated_row = np.zeros(len(self.range), dtype=bool)
            current_row = -1
            for i, j, op in zip(self.ops.row, self.ops.col, self.ops.data):
                if i != current_row:
                    current_row = i
                    op(x[j], out=out[i])""",
  'ProductSpaceOperator._call')
MA('C03', 'block operator forgets to clear empty rows', 'odl/operator/pspace_ops.py',
   'ProductSpaceOperator._call', 'out[i].set_zero()', 'pass',
   'ProductSpaceOperator._call')
DOPF = 'odl/operator/default_ops.py'
M('C05', 'ComplexEmbedding adjoint built from the conjugate scalar', DOPF,
  """                return (self.scalar.real * RealPart(self.range) +
                        self.scalar.imag * ImagPart(self.range))""",
  """                return (self.scalar.real * RealPart(self.range) -
                        self.scalar.imag * ImagPart(self.range))""",
  'ComplexEmbedding[R,scalar=a+bj]')
MA('C05', 'RealPart adjoint maps from the domain (regression)', DOPF,
   'RealPart.adjoint', 'return ComplexEmbedding(self.range, scalar=1)',
   'return ComplexEmbedding(self.domain, scalar=1)', 'RealPart[C]')
MA('C05', 'MultiplyOperator adjoint on complex spaces forgets conj', DOPF,
   'MultiplyOperator.adjoint',
   'return MultiplyOperator(np.conj(self.multiplicand), domain=self.range, range=self.domain)',
   'return MultiplyOperator(self.multiplicand, domain=self.range, range=self.domain)',
   'MultiplyOperator[C]')
MA('C05', 'InnerProductOperator adjoint over the wrong field', DOPF,
   'InnerProductOperator.adjoint',
   'return MultiplyOperator(self.vector, self.vector.space.field)',
   'return MultiplyOperator(self.vector.conj(), self.vector.space.field)',
   'InnerProductOperator[C]')
MA('C15', 'integer values accumulated in half precision', DUF,
   '_PerAxisInterpolator._evaluate', 'out_dtype = np.dtype(float)',
   'out_dtype = np.result_type(self.values.dtype, np.float16)', 'int8')
M('C15', 'query points cast to the value precision', DUF,
  "                xi = np.asarray(xi).astype(self.values.dtype, casting='safe')",
  "                xi = np.asarray(xi).astype(self.values.dtype, casting='same_kind')",
  'float32')
M('C14', 'multi-argument insert advances by one per block', 'odl/set/domain.py',
  """            return self.insert(index, intvs[0]).insert(
                index + intvs[0].ndim, *(intvs[1:]))""",
  """            return self.insert(index, intvs[0]).insert(
                index + 1, *(intvs[1:]))""", 'IntervalProd.insert')
M('C14', 'grid insert puts the block after the tail', 'odl/discr/grid.py',
  """            new_vecs = (self.coord_vectors[:index] + grid.coord_vectors +
                        self.coord_vectors[index:])""",
  """            new_vecs = (self.coord_vectors[:index] +
                        self.coord_vectors[index:] + grid.coord_vectors)""",
  'RectGrid.insert')
M('C11', 'pdhg rebinds x_relax when theta is zero',
  'odl/solvers/nonsmooth/primal_dual_hybrid_gradient.py',
  "        x_relax.lincomb(1 + theta, x, -theta, x_old)\n",
  "        if theta == 0:\n            x_relax = x\n        else:\n            x_relax.lincomb(1 + theta, x, -theta, x_old)\n",
  'pdhg')
M('C12', 'pdhg keeps the initial proximals under acceleration',
  'odl/solvers/nonsmooth/primal_dual_hybrid_gradient.py',
  "proximal_constant = (gamma_primal is None) and (gamma_dual is None)",
  "proximal_constant = (gamma_primal is None) or (gamma_dual is None)",
  'pdhg')
DEFFN = 'odl/solvers/functional/default_functionals.py'
MA('C08', 'group L1 conjugate keeps the exponent', DEFFN,
   'GroupL1Norm.convex_conj',
   'conj_exp = conj_exponent(self.pointwise_norm.exponent)',
   'conj_exp = self.pointwise_norm.exponent', 'GroupL1Norm.convex_conj')
MA('C08', 'nuclear norm conjugate swaps the two exponents', DEFFN,
   'NuclearNorm.convex_conj',
   'return IndicatorNuclearNormUnitBall(self.domain, conj_exponent(self.outernorm.exponent), conj_exponent(self.pwisenorm.exponent))',
   'return IndicatorNuclearNormUnitBall(self.domain, conj_exponent(self.pwisenorm.exponent), conj_exponent(self.outernorm.exponent))',
   'NuclearNorm.convex_conj')
M('C08', 'conj_exponent of a generic p', 'odl/util/utility.py',
  "        return exp / (exp - 1.0)", "        return exp / (exp + 1.0)",
  'convex_conj')
MA('C18', 'half-complex inverse forgets the real shape (regression)',
   'odl/trafos/fourier.py', 'DiscreteFourierTransformInverse._call_numpy',
   'return np.fft.irfftn(x, s=s, axes=self.axes)',
   'return np.fft.irfftn(x, axes=self.axes)', '_call_numpy:irfftn')
MA('C09', 'quadratic perturbation Lipschitz without abs', 'odl/solvers/functional/functional.py',
   'FunctionalQuadraticPerturb.__init__', 'grad_lipschitz = func.grad_lipschitz + 2 * abs(self.__quadratic_coeff)',
   'grad_lipschitz = func.grad_lipschitz + 2 * self.__quadratic_coeff', 'grad_lipschitz')
M('C16', 'corner blocks of earlier axes not extended', 'odl/util/numerics.py',
  """        if direction == 'forward':
            working_slc[axis] = full_slc[axis]
        else:
            working_slc[axis] = intersec_slc[axis]""",
  """        if direction == 'forward':
            working_slc = list(intersec_slc)
            working_slc[axis] = full_slc[axis]
        else:
            working_slc = list(full_slc)
            working_slc[axis] = intersec_slc[axis]""", 'resize_array[')
M('C07', 'simplex proximal drops the diameter', 'odl/solvers/functional/default_functionals.py',
  "                proj_simplex(x, diameter, out)", "                proj_simplex(x, out=out)",
  'IndicatorSimplex.proximal')
M('C11', 'landweber calls back before projecting', 'odl/solvers/iterative/iterative.py',
  """        if projection is not None:
            projection(x)

        if callback is not None:
            callback(x)


def conjugate_gradient(""",
  """        if callback is not None:
            callback(x)

        if projection is not None:
            projection(x)


def conjugate_gradient(""", 'landweber')
MA('C11', 'adupdates array step without the outer step size',
   'odl/solvers/nonsmooth/alternating_dual_updates.py', 'adupdates',
   'step = stepsize * inner_stepsizes[j] if np.isscalar(inner_stepsizes[j]) else stepsize * np.asarray(inner_stepsizes[j])',
   'step = stepsize * inner_stepsizes[j] if np.isscalar(inner_stepsizes[j]) else np.asarray(inner_stepsizes[j])',
   'adupdates')
M('C12', 'line search aborts on an infinite trial value', 'odl/solvers/util/steplen.py',
  "            if np.isnan(fval):", "            if not np.isfinite(fval):", 'BacktrackingLineSearch')
M('C20', 'sub-weighting of a product space drops the exponent', 'odl/space/pspace.py',
  """            return ProductSpaceArrayWeighting(
                np.asarray(self.weighting.array)[indices],
                self.weighting.exponent)""",
  """            return np.asarray(self.weighting.array)[indices]""", 'ProductSpace.__getitem__')
M('C06', 'PointwiseNorm derivative loses the explicit weighting', 'odl/operator/tensor_ops.py',
  "        return PointwiseInner(self.domain, inner_vf, weighting=self.weights)",
  "        return PointwiseInner(self.domain, inner_vf)", 'PointwiseNorm.derivative')
M('C19', 'cone beam detector axes rotated by the transpose', 'odl/tomo/geometry/conebeam.py',
  """        axes = self.rotation_matrix(angle).dot(self.det_axes_init.T)
        # `axes` has shape (a, 3, 2), need to roll the last dimensions
        # to the second-to-last place
        return np.rollaxis(axes, -1, -2)""",
  """        return np.matmul(self.det_axes_init, self.rotation_matrix(angle))""",
  'ConeBeamGeometry.det_axes')
M('C19', 'cone angle from the upper z bound only', 'odl/tomo/geometry/conebeam.py',
  """        half_cone_angle = max(np.arctan(abs(space.partition.min_pt[2]) / dist),
                              np.arctan(abs(space.partition.max_pt[2]) / dist))""",
  """        half_cone_angle = np.arctan(abs(space.partition.max_pt[2]) / dist)""",
  'cone_beam_geometry:h')
M('C18', 'wavelet reconstruction crops only one odd axis', 'odl/trafos/wavelet.py',
  """                    if n_recon == n_intended + 1:
                        # Upsampling added one entry too much in this axis,
                        # drop last one
                        recon_slc.append(slice(-1))""",
  """                    if n_recon == n_intended + 1 and not any(
                            s != slice(None) for s in recon_slc):
                        recon_slc.append(slice(-1))""", 'WaveletTransformInverse._call')
TOPS = 'odl/operator/tensor_ops.py'
MA('C05', 'MatrixOperator adjoint without conjugation', TOPS,
   'MatrixOperator.adjoint',
   'return MatrixOperator(self.matrix.conj().T, domain=self.range, range=self.domain, axis=self.axis)',
   'return MatrixOperator(self.matrix.T, domain=self.range, range=self.domain, axis=self.axis)',
   'MatrixOperator[complex]')
MA('C05', 'MatrixOperator adjoint forgets the axis', TOPS,
   'MatrixOperator.adjoint',
   'return MatrixOperator(self.matrix.conj().T, domain=self.range, range=self.domain, axis=self.axis)',
   'return MatrixOperator(self.matrix.conj().T, domain=self.range, range=self.domain)',
   'MatrixOperator[2-d domain, axis=1]')
MA('C05', 'SamplingOperator adjoint pairs integrate with dirac', TOPS,
   'SamplingOperator.adjoint', "variant = 'char_fun'", "variant = 'dirac'",
   'SamplingOperator[discretized,integrate]')
MA('C05', 'WeightedSumSampling dirac multiplies by the cell volume', TOPS,
   'WeightedSumSamplingOperator._call', 'out /= weights', 'out *= weights',
   'discretized')
MA('C05', 'Flattening adjoint scaled the wrong way', TOPS,
   'FlatteningOperator.adjoint', 'return 1 / scaling * self.inverse',
   'return scaling * self.inverse', 'FlatteningOperator[discretized')
MA('C05', 'Flattening inverse adjoint unscaled', TOPS,
   'FlatteningOperator.inverse.FlatteningOperatorInverse.adjoint',
   'return scaling * op', 'return op',
   'FlatteningOperator.inverse[discretized]')
MA('C05', 'Flattening inverse ignores the order', TOPS,
   'FlatteningOperator.inverse.FlatteningOperatorInverse._call',
   'return np.reshape(x.asarray(), self.range.shape, order=op.order)',
   'return np.reshape(x.asarray(), self.range.shape)',
   'order=F')
MA('C05', 'PointwiseInnerAdjoint weight ratio inverted', TOPS,
   'PointwiseInnerAdjoint._call', 'oi *= dom_wi / ran_wi',
   'oi *= ran_wi / dom_wi', 'PointwiseInner')
MA('C05', 'PointwiseInner adjoint forgets the operator weights', TOPS,
   'PointwiseInner.adjoint',
   'return PointwiseInnerAdjoint(sspace=self.base_space, vecfield=self.vecfield, vfspace=self.domain, weighting=self.weights)',
   'return PointwiseInnerAdjoint(sspace=self.base_space, vecfield=self.vecfield, vfspace=self.domain)',
   'weighting=q')
MA('C05', 'PointwiseInnerAdjoint adjoint forgets the operator weights', TOPS,
   'PointwiseInnerAdjoint.adjoint',
   'return PointwiseInner(vfspace=self.range, vecfield=self.vecfield, weighting=self.weights)',
   'return PointwiseInner(vfspace=self.range, vecfield=self.vecfield)',
   'weighting=q')
M('C05', 'PointwiseInner forgets conjugation of the first component', TOPS,
  """        if self.domain.field == ComplexNumbers():
            vf[0].multiply(self._vecfield[0].conj(), out=out)
        else:
            vf[0].multiply(self._vecfield[0], out=out)

        if self.is_weighted:""", """        vf[0].multiply(self._vecfield[0], out=out)

        if self.is_weighted:""", 'PointwiseInner[C')
MA('C05', 'PointwiseInner weights only the first component', TOPS,
   'PointwiseInner._call', 'tmp *= wi', 'pass', 'PointwiseInner')
M('C05', 'adjoint method table keeps forward', DIFF,
  "               'forward': 'backward',", "               'forward': 'forward',",
  'PartialDerivative[forward')
M('C05', 'adjoint padding table maps order1 to itself', DIFF,
  "                'order1': 'order1_adjoint',", "                'order1': 'order1',",
  'order1')
M('C05', 'Gradient adjoint loses the sign', DIFF,
  "        return - Divergence(domain=self.range, range=self.domain,",
  "        return Divergence(domain=self.range, range=self.domain,",
  'Gradient[')
MA('C05', 'Divergence adjoint keeps the difference method', DIFF,
   'Divergence.adjoint',
   'return -Gradient(self.range, self.domain, method=_ADJ_METHOD[self.method], pad_mode=_ADJ_PADDING[self.pad_mode])',
   'return -Gradient(self.range, self.domain, method=self.method, pad_mode=_ADJ_PADDING[self.pad_mode])',
   'Divergence[forward')
DFUN = 'odl/solvers/functional/default_functionals.py'
MA('C09', 'KL gradient without prior drops the constant one', DFUN,
   'KullbackLeibler.gradient.KLGradient._call', 'return -1.0 / x + 1',
   'return -1.0 / x', 'KullbackLeibler[')
MA('C09', 'KL convex conjugate gradient sign of x', DFUN,
   'KullbackLeiblerConvexConj.gradient.KLCCGradient._call',
   'return 1.0 / (1 - x)', 'return 1.0 / (1 + x)',
   'KullbackLeiblerConvexConj[')
MA('C09', 'KL cross entropy gradient ignores the prior', DFUN,
   'KullbackLeiblerCrossEntropy.gradient.KLCrossEntropyGradient._call',
   'tmp = np.log(x / functional.prior)', 'tmp = np.log(x)',
   'KullbackLeiblerCrossEntropy[prior')
MA('C09', 'L2 gradient divides by the squared norm', DFUN,
   'LpNorm.gradient.L2Gradient._call', 'norm_of_x = x.norm()',
   'norm_of_x = x.inner(x)', 'L2Norm[')
MA('C09', 'QuadraticForm gradient without the linear term', DFUN,
   'QuadraticForm.gradient', 'return gradient + self.vector',
   'return gradient', 'QuadraticForm[operator')
MA('C09', 'SeparableSum gradient reverses the components', DFUN,
   'SeparableSum.gradient',
   'gradients = [func.gradient for func in self.functionals]',
   'gradients = [func.gradient for func in self.functionals[::-1]]',
   'SeparableSum[L2Norm')
MA('C09', 'derivative on a field via gradient.T (regression)',
   'odl/solvers/functional/functional.py', 'Functional.derivative',
   'if self.domain == self.range:...', 'pass', 'field')
DOPS_ = 'odl/operator/default_ops.py'
MA('C06', 'PowerOperator derivative keeps the exponent', DOPS_,
   'PowerOperator.derivative',
   'return self.exponent * MultiplyOperator(point ** (self.exponent - 1), domain=self.domain, range=self.range)',
   'return self.exponent * MultiplyOperator(point ** self.exponent, domain=self.domain, range=self.range)',
   'PowerOperator[')
MA('C06', 'NormOperator derivative not normalised', DOPS_,
   'NormOperator.derivative', 'return InnerProductOperator(point / norm)',
   'return InnerProductOperator(point)', 'NormOperator[')
MA('C06', 'DistOperator derivative divides by the squared distance', DOPS_,
   'DistOperator.derivative', 'return InnerProductOperator(diff / dist)',
   'return InnerProductOperator(diff / dist ** 2)', 'DistOperator[')
MA('C06', 'Reduction derivative taken at the first component', 'odl/operator/pspace_ops.py',
   'ReductionOperator.derivative',
   'return ReductionOperator(*[op.derivative(xi) for op, xi in zip(self.operators, x)])',
   'return ReductionOperator(*[op.derivative(x[0]) for op, xi in zip(self.operators, x)])',
   'ReductionOperator[')
M('C03', 'left vector multiple scales the inner result in place', OPR,
  """        if out is None:
            return self.operator(x) * self.vector
        else:
            self.operator(x, out=out)
            out *= self.vector
""", """        if out is None:
            out = self.operator(x)
        else:
            self.operator(x, out=out)
        out *= self.vector
        return out
""", 'C03-R11')
M('C03', 'matrix operator uses dot(out=) for every axis-0 contraction', TOPS,
  "            elif self.range.ndim == 1:", "            elif self.axis == 0:",
  'MatrixOperator[3-d domain, axis=0]')
M('C01', 'BLAS guard admits every inexact dtype of 4 bytes or more', NPYF,
  "    elif any(x.dtype not in _BLAS_DTYPES for x in args):",
  "    elif any(x.dtype.kind not in 'fc' or x.dtype.itemsize < 4 for x in args):",
  'C01-R1c')
M('C01', 'BLAS dtype whitelist gains half precision', NPYF,
  "_BLAS_DTYPES = (np.dtype('float32'), np.dtype('float64'),",
  "_BLAS_DTYPES = (np.dtype('float16'), np.dtype('float32'), np.dtype('float64'),",
  'C01-R1c')
M('C01', 'division skips zero divisors with where=', NPYF,
  "        np.divide(x1.data, x2.data, out=out.data)",
  "        np.divide(x1.data, x2.data, out=out.data, where=(x2.data != 0))",
  'C01-R4L')
M('C01', 'multiply writes into the first factor', NPYF,
  "        np.multiply(x1.data, x2.data, out=out.data)",
  "        out.data[:] = np.multiply(x1.data, x2.data, out=x1.data)",
  'C01-R4L')
M('C17', 'second ufunc output typed like the first', NPYF,
  "                    out2_space = type(self.space)(self.shape, res2.dtype)",
  "                    out2_space = type(self.space)(self.shape, res1.dtype)",
  'frexp')
M('C17', 'product-space binary ufunc decides componentwise by type', 'odl/util/ufuncs.py',
  "                if x2 in self.elem.space:",
  "                if isinstance(x2, type(self.elem)):", 'nested pspace')
M('C20', 'astype forwards the weighting only of weighted spaces', 'odl/space/base_tensors.py',
  "            if weighting is not None:\n                kwargs['weighting'] = weighting",
  "            if weighting is not None and getattr(self, 'is_weighted', True):\n                kwargs['weighting'] = weighting",
  'C20-R7d')
M('C19', 'surface normal from normalised tangents', 'odl/tomo/geometry/detector.py',
  """            normal = np.cross(*deriv, axis=-1)
            normal /= np.linalg.norm(normal, axis=-1, keepdims=True)
            return normal""",
  """            deriv = deriv / np.linalg.norm(deriv, axis=-1, keepdims=True)
            return np.cross(*deriv, axis=-1)""", 'C19-R8')
M('C19', 'surface normal with swapped tangents', 'odl/tomo/geometry/detector.py',
  "            normal = np.cross(*deriv, axis=-1)",
  "            normal = np.cross(*deriv[::-1], axis=-1)", 'C19-R8')
M('C19', '2d surface normal loses its sign', 'odl/tomo/geometry/detector.py',
  "            return -perpendicular_vector(self.surface_deriv(param))",
  "            return perpendicular_vector(self.surface_deriv(param))", 'C19-R8')
M('C14', 'fromgrid ignores negative axis keys of min_pt', 'odl/discr/partition.py',
  """        min_pt.update({i: None for i in range(grid.ndim)
                       if i not in min_pt and i - grid.ndim not in min_pt})""",
  """        min_pt.update({i: None for i in range(grid.ndim) if i not in min_pt})""",
  'uniform_partition_fromgrid[min_pt={-1: v}')
DRF = 'odl/solvers/nonsmooth/douglas_rachford.py'
M('C12', 'Douglas-Rachford pairs L[i] with w2[i-1]', DRF,
  "            for Li, w2i in zip(L[1:], w2[1:]):",
  "            for Li, w2i in zip(L[1:], w2):", 'C12-R6')
M('C12', 'PDHG primal step ascends along L^* y', 'odl/solvers/nonsmooth/primal_dual_hybrid_gradient.py',
  "        primal_tmp.lincomb(1, x, -tau, primal_tmp)",
  "        primal_tmp.lincomb(1, x, tau, primal_tmp)", 'C12-R6')
M('C12', 'proximal gradient steps along +grad g', 'odl/solvers/nonsmooth/proximal_gradient_solvers.py',
  "        tmp.lincomb(1, x, -gamma, g_grad(x))",
  "        tmp.lincomb(1, x, gamma, g_grad(x))", 'C12-R6')
M('C12', 'forward-backward drops the smooth gradient', 'odl/solvers/nonsmooth/forward_backward.py',
  "        tmp_1 = grad_h(x) + sum(Li.adjoint(vi) for Li, vi in zip(L, v))",
  "        tmp_1 = sum(Li.adjoint(vi) for Li, vi in zip(L, v))", 'C12-R6')
M('C11', 'steepest descent caches the gradient before the projection', 'odl/solvers/smooth/gradient.py',
  """    for _ in range(maxiter):
        grad(x, out=grad_x)

        dir_derivative = -grad_x.norm() ** 2
        if np.abs(dir_derivative) < tol:
            return  # we have converged
        step = line_search(x, -grad_x, dir_derivative)

        x.lincomb(1, x, -step, grad_x)

        if projection is not None:""", """    grad(x, out=grad_x)
    for _ in range(maxiter):
        dir_derivative = -grad_x.norm() ** 2
        if np.abs(dir_derivative) < tol:
            return  # we have converged
        step = line_search(x, -grad_x, dir_derivative)

        x.lincomb(1, x, -step, grad_x)

        grad(x, out=grad_x)

        if projection is not None:""", 'steepest_descent')
M('C16', 'adjoint resize skips the fold-back when the total size does not shrink', 'odl/util/numerics.py',
  "        if pad_mode == 'constant':\n            # Skip the padding helper\n            _assign_intersection(out, arr, offset)",
  "        if pad_mode == 'constant' or arr.size <= out.size:\n            _assign_intersection(out, arr, offset)",
  'adjoint,3x4->5x2')
M('C16', 'offset sign follows the total size', 'odl/discr/discr_ops.py',
  "    diff_l = np.abs(ran.grid.min() - dom.grid.min())",
  "    small, large = (dom, ran) if dom.size <= ran.size else (ran, dom)\n    diff_l = small.grid.min() - large.grid.min()",
  'C16-R4b')
M('C18', 'pre-processing factors cached by axis length', 'odl/trafos/util/ft_utils.py',
  """    onedim_arrs = []
    for axis, shift in zip(axes, shift_list):
        length = shape[axis]
        onedim_arrs.append(_onedim_arr(length, shift))""",
  """    factors = {}
    onedim_arrs = []
    for axis, shift in zip(axes, shift_list):
        length = shape[axis]
        if length not in factors:
            factors[length] = _onedim_arr(length, shift)
        onedim_arrs.append(factors[length])""", 'C18-R2b')
M('C18', 'shifted pre-processing factor starts with -1', 'odl/trafos/util/ft_utils.py',
  "            factor[1::2] = -1", "            factor[::2] = -1", 'C18-R2b')
M('C15', 'factory converts every non-floating value array to float', DUF,
  "    f = np.asarray(f)\n\n    interp = _normalize_interp(interp, f.ndim)",
  "    f = np.asarray(f)\n    if not np.issubdtype(f.dtype, np.floating):\n        f = f.astype(float)\n\n    interp = _normalize_interp(interp, f.ndim)",
  'per_axis_interpolator')
PROXF = 'odl/solvers/nonsmooth/proximal_operators.py'
MA('C07', 'sum-constraint projection divides by the number of parts', DFUN,
   'IndicatorSumConstraint.proximal.ProximalSum._call',
   'num_entries = domain.one().ufuncs.sum()', 'num_entries = len(x)',
   'IndicatorSumConstraint[shape 2x2')
M('C07', 'Huber proximal keeps small entries when gamma is 0', PROXF,
  "            out[mask] = gamma / (gamma + self.sigma) * x[mask]",
  "            scale = 1 / (1 + self.sigma / gamma) if gamma > 0 else 1.0\n            out[mask] = scale * x[mask]",
  'Huber[gamma=0')
MA('C07', 'KL conjugate proximal forgets the factor 4', PROXF,
   'proximal_convex_conj_kl.ProximalConvexConjKL._call',
   'out += 4.0 * lam * self.sigma', 'out += lam * self.sigma',
   'KullbackLeibler[')
MA('C07', 'soft thresholding with the wrong sign', PROXF,
   'proximal_l1.ProximalL1._call', 'out.lincomb(1, x, -1, out)',
   'out.lincomb(1, x, 1, out)', 'L1Norm[')
MA('C07', 'box projection clips at the lower bound only', PROXF,
   'proximal_box_constraint.ProxOpBoxConstraint._call',
   'out.ufuncs.minimum(upper, out=out)', 'pass', 'IndicatorBox')
# ---- C07-R6d: directional optimality ----------------------------------------
MA('C07', 'simplex projection takes the first critical index', PROXF,
   'proj_simplex', 'i = np.argwhere(crit >= 0).flatten().max()',
   'i = np.argwhere(crit >= 0).flatten().min()', 'R6d')
MA('C07', 'l1-ball projection loses the signs', PROXF, 'proj_l1',
   'out *= v', 'pass', 'R6d')
MA('C07', 'l1-ball projection ignores the weighting again (regression)',
   PROXF, 'proj_l1',
   "radius = radius / getattr(weighting, 'const', 1.0)", 'pass',
   'weight 2')
MA('C07', 'sup-norm proximal returns the projection itself', PROXF,
   'proximal_linfty.ProximalLInfty._call', 'out.lincomb(-1, out, 1, x)',
   'pass', 'LpNorm[p=inf')
MA('C07', 'l2 proximal with half the step', PROXF,
   'proximal_l2.ProximalL2._call',
   'step = self.sigma * lam / x_norm',
   'step = self.sigma * lam / (2 * x_norm)', 'L2Norm[', nth=0)
MA('C07', 'l2 proximal never returns zero', PROXF,
   'proximal_l2.ProximalL2._call', 'out.set_zero()',
   'out.lincomb(0.5, x)', 'L2Norm[')
MA('C07', 'Huber on vector fields shrinks by gamma', PROXF,
   'proximal_huber.ProximalHuber._call',
   'factor = 1 - self.sigma / norm',
   'factor = 1 - gamma / norm', 'Huber[pspace')
MA('C07', 'Huber on vector fields writes into the input (regression)',
   PROXF, 'proximal_huber.ProximalHuber._call',
   'xi.multiply(factor, out=out_i)', 'out_i.multiply(factor, xi)',
   'Huber[pspace')
MA('C07', 'nuclear norm proximal inverts zero singular values', DEFF,
   'NuclearNorm.proximal.NuclearNormProximal._call',
   'sinv[sinv != 0] = 1 / sinv[sinv != 0]', 'sinv = 1 / s',
   'rank one')
MA('C07', 'nuclear norm proximal thresholds at 2 sigma', DEFF,
   'NuclearNorm.proximal.NuclearNormProximal._call',
   'abss = np.abs(s) - (self.sigma - eps)',
   'abss = np.abs(s) - 2 * (self.sigma - eps)', 'NuclearNorm[singular exp 1')
MA('C07', 'nuclear norm proximal forgets the transpose', DEFF,
   'NuclearNorm.proximal.NuclearNormProximal._call',
   'V = Vt.swapaxes(-1, -2)', 'V = Vt', 'NuclearNorm[')
MA('C07', 'group unit ball projection without the maximum', PROXF,
   'proximal_convex_conj_l1_l2.ProximalConvexConjL1L2._call',
   'denom.ufuncs.maximum(lam, out=denom)', 'pass',
   'IndicatorGroupL1UnitBall[p=2')
MA('C07', 'nuclear norm sup-norm proximal scales instead of cutting (regression)', DEFF,
   'NuclearNorm.proximal.NuclearNormProximal._call',
   'sprox = np.minimum(s, tau)',
   'sprox = (1 - self.sigma / np.maximum(self.sigma, np.sum(s, axis=-1)))[..., None] * s',
   'singular exp inf')
MA('C07', 'nuclear norm sup-norm proximal with the level of all components', DEFF,
   'NuclearNorm.proximal.NuclearNormProximal._call',
   'tau = np.take_along_axis(levels, k - 1, axis=-1)',
   'tau = levels[..., -1:]', 'singular exp inf')
M('C07', 'separable sum hands the first step to every part', PROXF,
  """            *[factory(sigmai)
              for sigmai, factory in zip(sigma, factory_list)])""",
  """            *[factory(sigma[0])
              for sigmai, factory in zip(sigma, factory_list)])""",
  'steps sigma, 2 sigma')
MA('C08', 'Lp norm conjugate keeps the exponent', DEFF, 'LpNorm.convex_conj',
   'return IndicatorLpUnitBall(self.domain, exponent=conj_exponent(self.exponent))',
   'return IndicatorLpUnitBall(self.domain, exponent=self.exponent)',
   'LpNorm[p=inf')
MA('C08', 'nuclear norm conjugate keeps the singular-vector exponent', DEFF,
   'NuclearNorm.convex_conj',
   'return IndicatorNuclearNormUnitBall(self.domain, conj_exponent(self.outernorm.exponent), conj_exponent(self.pwisenorm.exponent))',
   'return IndicatorNuclearNormUnitBall(self.domain, conj_exponent(self.outernorm.exponent), self.pwisenorm.exponent)',
   'NuclearNorm[singular exp')
MA('C08', 'group norm conjugate keeps the exponent', DEFF,
   'IndicatorGroupL1UnitBall.convex_conj',
   'conj_exp = conj_exponent(self.pointwise_norm.exponent)',
   'conj_exp = 1', 'IndicatorGroupL1UnitBall')
MA('C12', 'CG breakdown test with an absolute tolerance', ITERF,
   'conjugate_gradient', 'if inner_p_d == 0.0:...',
   'if abs(inner_p_d) < 1e-12:\n    return', 'R8')
MA('C12', 'CGN stops when the image is small in absolute terms', ITERF,
   'conjugate_gradient_normal', 'if sqnorm_q == 0.0:...',
   'if sqnorm_q < 1e-10:\n    return', 'R8')
MA('C12', 'CG step length from the new residual', ITERF,
   'conjugate_gradient', 'beta = sqnorm_r_new / sqnorm_r_old',
   'beta = sqnorm_r_old / sqnorm_r_new', 'R8')
MA('C12', 'Landweber steps along the residual without the adjoint sign', ITERF,
   'landweber', 'x.lincomb(1, x, -omega, tmp_dom)',
   'x.lincomb(1, x, omega, tmp_dom)', 'R8')
MA('C07', 'squared-norm proximal with per-point step subtracts the data term', PROXF,
   'proximal_l2_squared.ProximalL2Squared._call',
   'out.lincomb(1, x, 1, out)', 'out.lincomb(1, x, -1, out)',
   'step per point')
MA('C07', 'l1 proximal with per-point step uses the first step everywhere', PROXF,
   'proximal_l1.ProximalL1.__init__', 'self.sigma = space.element(sigma)',
   'self.sigma = space.element(sigma)[0] * space.one()', 'step per point')
MA('C06', 'sum rule skips the right summand when the left one is linear', OPR,
   'OperatorSum.derivative',
   'return OperatorSum(self.left.derivative(x), self.right.derivative(x), self.__tmp_ran, self.__tmp_dom)',
   'return OperatorSum(self.left.derivative(x), self.right if self.left.is_linear else self.right.derivative(x), self.__tmp_ran, self.__tmp_dom)',
   'Multiply + Power2')
MA('C09', 'translation inherits the linear flag', FUNF,
   'FunctionalTranslation.__init__',
   'super(FunctionalTranslation, self).__init__(space=func.domain, linear=False, grad_lipschitz=func.grad_lipschitz)',
   'super(FunctionalTranslation, self).__init__(space=func.domain, linear=func.is_linear, grad_lipschitz=func.grad_lipschitz)',
   'translated(y)')
MA('C09', 'sum ignores an unknown Lipschitz bound', FUNF,
   'FunctionalSum.__init__',
   'Functional.__init__(self, space=left.domain, linear=left.is_linear and right.is_linear, grad_lipschitz=left.grad_lipschitz + right.grad_lipschitz)',
   'Functional.__init__(self, space=left.domain, linear=left.is_linear and right.is_linear, grad_lipschitz=np.nansum([left.grad_lipschitz, right.grad_lipschitz]))',
   'R3n')
MA('C10', 'composition reuses out as the intermediate of an aliased call', OPR,
   'OperatorComp._call',
   'tmp = self.__tmp if self.__tmp is not None else self.right.range.element()',
   'tmp = self.__tmp if self.__tmp is not None else (out if x is out and out in self.right.range else self.right.range.element())',
   'R3')
M('C01', 'product-space lincomb converts the scalars to float', PSP,
  """        for space, xp, yp, outp in zip(self.spaces, x.parts, y.parts,
                                       out.parts):
            space._lincomb(a, xp, b, yp, outp)""",
  """        a, b = float(a), float(b)
        for space, xp, yp, outp in zip(self.spaces, x.parts, y.parts,
                                       out.parts):
            space._lincomb(a, xp, b, yp, outp)""", 'R4p')
M('C01', 'tensor space size ignores the shape of the data type', 'odl/space/base_tensors.py',
  """        return (0 if self.shape == () else
                int(np.prod(self.shape, dtype='int64')))""",
  """        return (0 if self.shape == () else
                int(np.prod(self.shape[-1:], dtype='int64')))""",
  'R6s')
MA('C15', 'deformation flattens the displacement in memory order', 'odl/deform/linearized.py',
   'linear_deform', 'points[:, i] += vi.asarray().ravel()',
   "points[:, i] += vi.asarray().ravel(order='K')", 'linear_deform')
MA('C18', 'post-processing reads the stride of the first axis', FTU,
   'dft_postprocess_data', 'stride = real_grid.stride[ax]',
   'stride = real_grid.stride[0]', 'R2c')
MA('C18', 'post-processing reads the minimum of the wrong axis', FTU,
   'dft_postprocess_data', 'x = real_grid.min_pt[ax]',
   'x = real_grid.min_pt[len(onedim_arrs)]', 'R2c')
MA('C11', 'osmlem normalises the data in place', 'odl/solvers/iterative/statistical.py',
   'osmlem', 'data[i].divide(tmp_ran[i], out=tmp_ran[i])',
   'data[i].divide(tmp_ran[i], out=data[i])\ntmp_ran[i].assign(data[i])', 'R2i')
MA('C11', 'landweber accumulates the residual in the right-hand side', ITERF,
   'landweber', 'tmp_ran -= rhs', 'rhs -= tmp_ran\ntmp_ran.lincomb(-1, rhs)',
   'R2i')
MA('C19', 'helix centred around zero instead of the volume', CONEF,
   'helical_geometry', 'offset_along_axis = space.partition.min_pt[2]',
   'offset_along_axis = -space.partition.extent[2] / 2', 'R5z')
MA('C19', 'spherical detector aligns the second axis from its initial position', DETF,
   'SphericalDetector.__init__',
   'r2 = rotation_matrix_from_to(np.matmul(r1, initial_axes[1]), axes[1])',
   'r2 = rotation_matrix_from_to(initial_axes[1], axes[1])', 'R1b')
MA('C19', 'cylindrical detector composes the alignment rotations in the wrong order', DETF,
   'CylindricalDetector.__init__',
   'self.__rotation_matrix = np.matmul(r2, r1)',
   'self.__rotation_matrix = np.matmul(r1, r2)', 'R1b')
MA('C04', 'vector * functional writes out before evaluating the functional', OPR,
   'FunctionalLeftVectorMult._call', 'out.lincomb(scalar, self.vector)',
   'out.assign(self.vector)\nout *= self.functional(x)', 'R3a')
MA('C04', 'functional composition flagged linear by the functional alone', FUNF,
   'FunctionalComp.__init__',
   'Functional.__init__(self, space=op.domain, linear=func.is_linear and op.is_linear, grad_lipschitz=np.nan)',
   'Functional.__init__(self, space=op.domain, linear=func.is_linear, grad_lipschitz=np.nan)',
   'R2')
M('C17', 'element copies arrays with negative strides', NPYT,
  "            if not arr.flags.writeable:",
  "            if not arr.flags.writeable or min(arr.strides, default=0) < 0:",
  'views')
M('C17', 'binary legacy wrapper drops the ufunc keywords', 'odl/util/ufuncs.py',
  "                    ufunc, '__call__', self.elem, x2, out=(out,), **kwargs)",
  "                    ufunc, '__call__', self.elem, x2, out=(out,))",
  'x.ufuncs.add')
M('C15', 'element from a callable no longer owns its data (regression)', 'odl/discr/discr_space.py',
  "                sampled = np.array(sampled, copy=True)",
  "                pass", 'C15-R4c')
MA('C10', 'Huber proximal computes the sign after the first write', PROXF,
   'proximal_huber.ProximalHuber._call', 'sign_x = x.ufuncs.sign()',
   'sign_x = out.ufuncs.sign()', 'proximal:Huber')
MA('C10', 'box projection reads the input after clipping below', PROXF,
   'proximal_box_constraint.ProxOpBoxConstraint._call',
   'out.ufuncs.minimum(upper, out=out)',
   'out.assign(x.ufuncs.minimum(upper) + (out - x))', 'ProxOpBoxConstraint')
MA('C08', 'squared norm conjugate with factor 1/2', DFUN,
   'L2NormSquared.convex_conj',
   'return 1.0 / 4 * L2NormSquared(self.domain)',
   'return 1.0 / 2 * L2NormSquared(self.domain)', 'L2NormSquared[')
MA('C08', 'KL conjugate forgets the prior', DFUN,
   'KullbackLeibler.convex_conj',
   'return KullbackLeiblerConvexConj(self.domain, self.prior)',
   'return KullbackLeiblerConvexConj(self.domain)',
   'KullbackLeibler[prior')
MA('C08', 'cross entropy conjugate forgets the prior', DFUN,
   'KullbackLeiblerCrossEntropy.convex_conj',
   'return KullbackLeiblerCrossEntropyConvexConj(self.domain, self.prior)',
   'return KullbackLeiblerCrossEntropyConvexConj(self.domain)',
   'KullbackLeiblerCrossEntropy[prior')
MA('C08', 'KL conjugate value with log(1 + x)', DFUN,
   'KullbackLeiblerConvexConj._call',
   'res = -np.log(1 - x).inner(self.domain.one())',
   'res = -np.log(1 + x).inner(self.domain.one())', 'KullbackLeibler[')
MA('C09', 'backward numerical gradient with the forward sign', 'odl/solvers/functional/derivatives.py',
   'NumericalGradient._call', 'dfdx[i] = fx - self.functional(x - dx)',
   'dfdx[i] = self.functional(x - dx) - fx', 'NumericalGradient[')
MA('C09', 'central numerical gradient with a full step', 'odl/solvers/functional/derivatives.py',
   'NumericalGradient._call', 'dx[i] = self.step / 2', 'dx[i] = self.step',
   'central')
MA('C09', 'left scalar multiple declares the signed Lipschitz constant', 'odl/solvers/functional/functional.py',
   'FunctionalLeftScalarMult.__init__',
   'Functional.__init__(self, space=func.domain, linear=func.is_linear, grad_lipschitz=np.abs(scalar) * func.grad_lipschitz)',
   'Functional.__init__(self, space=func.domain, linear=func.is_linear, grad_lipschitz=scalar * func.grad_lipschitz)',
   'FunctionalLeftScalarMult:grad_lipschitz')
M('C12', 'Kaczmarz takes the relaxation parameter by sweep position', 'odl/solvers/iterative/iterative.py',
  "            x.lincomb(1, x, -omega[i], tmp_dom)",
  "            x.lincomb(1, x, -omega[list(rng).index(i)], tmp_dom)", 'C12-R7')
M('C04', 'repeated scalar additions merge by multiplication', 'odl/solvers/functional/functional.py',
  """        super(FunctionalScalarSum, self).__init__(
            left=func,""", """        if isinstance(func, FunctionalScalarSum):
            scalar = scalar * func.scalar
            func = func.left

        super(FunctionalScalarSum, self).__init__(
            left=func,""", 'FunctionalScalarSum.__init__')
M('C05', 'weighted sum sampling drops imaginary parts (regression)', TOPS,
  """        if is_real_dtype(self.range.dtype):
            y = np.bincount(self._indices_flat, weights=x,
                            minlength=self.range.size)
        else:""", """        if True:
            y = np.bincount(self._indices_flat, weights=x,
                            minlength=self.range.size)
        else:""", 'discretized, complex')
M('C14', 'index normaliser rejects positive start with negative stop', 'odl/util/normalize.py',
  "    if any(s.start == s.stop and s.start is not None or",
  "    if any(s.start is not None and s.stop is not None and s.start >= s.stop or",
  'RectPartition.__getitem__')
M('C20', 'element selection re-indexes the weights only when the shape changes', NPYF,
  "                if isinstance(weighting, ArrayWeighting):\n                    weighting = NumpyTensorSpaceArrayWeighting(\n                        weighting.array[indices], weighting.exponent)",
  "                if (isinstance(weighting, ArrayWeighting) and\n                        arr.shape != self.shape):\n                    weighting = NumpyTensorSpaceArrayWeighting(\n                        weighting.array[indices], weighting.exponent)",
  'C20-R7e')
M('C01', 'copy of column-major data wraps the original array', NPYF,
  "        return self.space.element(self.data.copy())",
  "        if self.data.flags.f_contiguous and not self.data.flags.c_contiguous:\n            return self.space.element(self.data, order='F')\n        return self.space.element(self.data.copy())",
  'C01-R5L')
M('C01', 'lincomb converts its scalars to field elements', 'odl/set/space.py',
  "            self._lincomb(a, x1, b, x2, out)\n\n        return out",
  "            self._lincomb(self.field.element(a), x1, self.field.element(b), x2, out)\n\n        return out",
  'C01-R4t')
M('C19', 'parallel beam radius from the two extremal corners only', 'odl/tomo/geometry/parallel.py',
  "    corners = space.domain.corners()[:, :2]\n    rho = np.max(np.linalg.norm(corners, axis=1))",
  "    rho = max(np.linalg.norm(space.domain.min_pt[:2]),\n              np.linalg.norm(space.domain.max_pt[:2]))",
  'parallel_beam_geometry')
M('C16', 'offset clipped at zero from the smaller space', 'odl/discr/discr_ops.py',
  "    diff_l = np.abs(ran.grid.min() - dom.grid.min())",
  "    small, large = (dom, ran) if dom.size <= ran.size else (ran, dom)\n    diff_l = np.maximum(small.grid.min() - large.grid.min(), 0)",
  'C16-R4b')
M('C16', 'unchanged axes get the inner slice on both arrays', 'odl/util/numerics.py',
  """        else:
            # Same size, so full slices for both
            lhs_slc.append(slice(None))
            rhs_slc.append(slice(None))""",
  """        else:
            lhs_slc.append(inner_slc)
            rhs_slc.append(inner_slc)""", '3x4->3x7')
M('C15', 'dual-use wrapper accepts real scalars only', DUF,
  "            if isinstance(out, np.ndarray) or np.isscalar(out):",
  "            if isinstance(out, (np.ndarray, float, int)):", 'cconst')
M('C15', 'interpolation weights cast to the value dtype', DUF,
  "                    weight = weight * w_lo",
  "                    weight = (weight * w_lo).astype(self.values.dtype, copy=False)",
  'int64')
M('C17', 'legacy min ignores the dtype argument', 'odl/util/ufuncs.py',
  "            np.minimum, 'reduce', self.elem,\n            axis=axis, dtype=dtype, out=(out,), keepdims=keepdims)",
  "            np.minimum, 'reduce', self.elem,\n            axis=axis, out=(out,), keepdims=keepdims)", 'ufuncs.min')
M('C18', 'wavelet adjoint scaled by the transformed cell sides only', 'odl/trafos/wavelet.py',
  "            scale = 1 / self.domain.partition.cell_volume",
  "            scale = 1 / np.prod(self.domain.partition.cell_sides[list(self.axes)])",
  'C18-R9')
M('C18', 'inverse wavelet adjoint unscaled', 'odl/trafos/wavelet.py',
  "            scale = self.range.partition.cell_volume\n            return scale * self.inverse",
  "            return 1.0 * self.inverse", 'WaveletTransformInverse.adjoint')
MA('C11', 'proj_l1 takes the sign after the simplex projection wrote out',
   'odl/solvers/nonsmooth/proximal_operators.py', 'proj_l1',
   'out *= v', 'out *= x.ufuncs.sign()', 'R5')
M('C05', 'order1_adjoint forward increment applied before the boundary rows',
  DIFF, """            out[0] = f_arr[0] + f_arr[1]
            out[-1] = -f_arr[-1]

            # Increment in case array is very short and we get aliasing
            out[1] -= f_arr[0]
""", """            out[1] -= f_arr[0]
            out[0] = f_arr[0] + f_arr[1]
            out[-1] = -f_arr[-1]
""", 'axis of 2 points')
MA('C08', 'conjugate KL proximal reads the input after out was written',
   'odl/solvers/nonsmooth/proximal_operators.py',
   'proximal_convex_conj_kl.ProximalConvexConjKL._call',
   'x = x.copy()', 'out.assign(x)', 'in place')
MA('C13', 'Laplacian.adjoint returns the (possibly affine) operator itself',
   DIFF, 'Laplacian.adjoint',
   'return Laplacian(self.range, self.domain, pad_mode=self.pad_mode, pad_const=0)',
   'return self', 'R8')
MA('C13', 'Divergence scales once when the cell sides are close', DIFF,
   'Divergence._call', 'dx = self.range.cell_sides',
   'dx = self.range.cell_sides\nif np.allclose(dx, dx[0]):\n    dx = [dx[0]] * ndim',
   'np.allclose')
MA('C03', 'adjoint padding applied to the input array itself',
   'odl/util/numerics.py', 'resize_array', 'tmp = arr.copy()', 'tmp = arr',
   'adjoint:ResizingOperator')
MA('C16', 'adjoint padding applied to the input array itself',
   'odl/util/numerics.py', 'resize_array', 'tmp = arr.copy()', 'tmp = arr',
   'R2s')
MA('C16', 'block copy skipped for an all-zero input',
   'odl/util/numerics.py', '_assign_intersection',
   'lhs_arr[lhs_slc] = rhs_arr[rhs_slc]',
   'if rhs_arr.any():\n    lhs_arr[lhs_slc] = rhs_arr[rhs_slc]', 'R2s')
MA('C03', 'right scalar multiple scales the input into out and calls the operator aliased',
   'odl/operator/operator.py', 'OperatorRightScalarMult._call',
   'tmp = self.domain.element()',
   'tmp = out if (self.domain == self.range and x is not out) else self.domain.element()',
   'pad_const=c] * a')
MA('C06', 'composition differentiates the left factor at the shared temporary',
   'odl/operator/operator.py', 'OperatorComp.derivative',
   'left_deriv = self.left.derivative(self.right(x))',
   'left_deriv = self.left.derivative(self.right(x, out=self.__tmp) if self.__tmp is not None else self.right(x))',
   'tmp=')
MA('C09', 'quadratic perturbation with a constant keeps the linear flag',
   'odl/solvers/functional/functional.py',
   'FunctionalQuadraticPerturb.__init__',
   'super(FunctionalQuadraticPerturb, self).__init__(space=func.domain, linear=func.is_linear and quadratic_coeff == 0 and (self.__constant == 0), grad_lipschitz=grad_lipschitz)',
   'super(FunctionalQuadraticPerturb, self).__init__(space=func.domain, linear=func.is_linear and quadratic_coeff == 0, grad_lipschitz=grad_lipschitz)',
   'FunctionalQuadraticPerturb[<., v>, linear term, constant')
MA('C09', 'separable sum declares the largest bound Python max() finds',
   'odl/solvers/functional/default_functionals.py', 'SeparableSum.__init__',
   'super(SeparableSum, self).__init__(space=domain, linear=linear)',
   'super(SeparableSum, self).__init__(space=domain, linear=linear, grad_lipschitz=max(func.grad_lipschitz for func in functionals))',
   'R3e')
MA('C09', 'Huber gradient norm without the power-space weights',
   'odl/solvers/functional/default_functionals.py',
   'Huber.gradient.HuberGradient._call',
   'norm = PointwiseNorm(self.domain, 2)(x)',
   'norm = x[0].ufuncs.square()\nfor xi in x[1:]:\n    norm += xi.ufuncs.square()\nnorm.ufuncs.sqrt(out=norm)',
   'Huber[pspace weights')
MA('C10', 'conjugate KL proximal keeps the copy of the first aliased input',
   'odl/solvers/nonsmooth/proximal_operators.py',
   'proximal_convex_conj_kl.ProximalConvexConjKL._call',
   'x = x.copy()',
   "if getattr(self, '_buf', None) is None:\n    self._buf = x.copy()\nx = self._buf",
   'KullbackLeibler.convex_conj')
MA('C12', 'power method tests the stagnation of the raw iterate norm',
   'odl/operator/oputils.py', 'power_method_opnorm',
   'if np.isclose(opnorm, opnorm_old, rtol, atol):...',
   'if np.isclose(x_norm, opnorm_old ** (2 if use_normal else 1), rtol, atol):\n    break\nelse:\n    x /= x_norm',
   'R4b')
MA('C12', 'FISTA swaps buffers instead of copying the old iterate',
   'odl/solvers/nonsmooth/proximal_gradient_solvers.py',
   'accelerated_proximal_gradient', 'y.assign(x)',
   'x_old = x\nx = x.space.element()', 'R9')
MA('C18', 'plan direction derived from the class instead of the sign',
   'odl/trafos/fourier.py', 'DiscreteFourierTransformBase.init_fftw_plan',
   "direction = 'forward' if self.sign == '-' else 'backward'",
   "direction = 'backward' if isinstance(self, DiscreteFourierTransformInverse) else 'forward'",
   'R3p')
MA('C18', 'real input with sign + computed as the conjugate of the forward FFT',
   'odl/trafos/fourier.py', 'FourierTransform._call_numpy',
   'out = np.fft.ifftn(preproc, axes=self.axes)',
   'out = np.conj(np.fft.fftn(preproc, axes=self.axes)) / np.prod(np.take(self.domain.shape, self.axes)) if self.domain.field == RealNumbers() else np.fft.ifftn(preproc, axes=self.axes)',
   'unshifted')
MA('C01', 'discretized division skips zero denominators',
   'odl/discr/discr_space.py', 'DiscretizedSpace._divide',
   'self.tspace._divide(x1.tensor, x2.tensor, out.tensor)',
   'np.divide(x1.tensor.data, x2.tensor.data, out=out.tensor.data, where=(x2.tensor.data != 0))',
   'DiscretizedSpace._divide')
MA('C08', 'conjugate KL finite above one where the prior vanishes',
   'odl/solvers/functional/default_functionals.py',
   'KullbackLeiblerConvexConj._call',
   'if not np.isfinite(res) or np.any(x.asarray() > 1):...',
   'if not np.isfinite(res):\n    return np.inf\nelse:\n    return res',
   'prior with zeros')
MA('C08', 'conjugate KL infinite already on the boundary of its domain',
   'odl/solvers/functional/default_functionals.py',
   'KullbackLeiblerConvexConj._call',
   'if not np.isfinite(res) or np.any(x.asarray() > 1):...',
   'if not np.isfinite(res) or np.any(x.asarray() >= 1):\n    return np.inf\nelse:\n    return res',
   'prior with zeros')
MA('C08', 'translation merges its linear term into a quadratic perturbation and drops the quadratic part',
   'odl/solvers/functional/functional.py', 'FunctionalTranslation.convex_conj',
   'return FunctionalQuadraticPerturb(self.functional.convex_conj, linear_term=self.translation)',
   'cc = self.functional.convex_conj\nif isinstance(cc, FunctionalQuadraticPerturb):\n    return FunctionalQuadraticPerturb(cc.functional, linear_term=cc.linear_term + self.translation, constant=cc.constant)\nreturn FunctionalQuadraticPerturb(cc, linear_term=self.translation)',
   'translated')
MA('C05', 'pointwise inner product returns before weighting a single component',
   'odl/operator/tensor_ops.py', 'PointwiseInner._call',
   'out *= self.weights[0]',
   'if len(self.domain) > 1:\n    out *= self.weights[0]',
   'length 1')
MA('C07', 'Huber without smoothing returns the componentwise l1 proximal',
   'odl/solvers/functional/default_functionals.py', 'Huber.proximal',
   'return proximal_huber(space=self.domain, gamma=self.gamma)',
   'if self.gamma == 0:\n    return proximal_l1(space=self.domain)\nreturn proximal_huber(space=self.domain, gamma=self.gamma)',
   'gamma = 0')
MA('C15', 'nearest neighbour gathers from the values flattened in memory order',
   'odl/discr/discr_utils.py', '_NearestInterpolator._evaluate',
   'return self.values[idx_res]',
   "return np.take(self.values.ravel(order='K'), np.ravel_multi_index(idx_res, self.values.shape))",
   'R1L')
MA('C03', 'operator + vector adds the vector in place to the out-of-place result',
   'odl/operator/operator.py', 'OperatorVectorSum._call',
   'return self.operator(x) + self.vector',
   'out = self.operator(x)\nout += self.vector\nreturn out',
   'RealPart[R] + vector')
MA('C01', 'in-place broadcasting reads the part it has just updated',
   'odl/space/pspace.py', '_broadcast_arithmetic._broadcast_arithmetic_impl',
   'other = other.copy()', 'pass', 'operand: part 0')
MA('C01', 'broadcasting applies the reflected dunder to the parts',
   'odl/space/pspace.py', '_broadcast_arithmetic._broadcast_arithmetic_impl',
   'res = getattr(xi, op)(other)',
   "res = getattr(xi, op.replace('__r', '__'))(other)", '__rsub__')
MA('C14', 'single-cell axes lose their per-side boundary flags',
   'odl/discr/partition.py', 'uniform_partition_fromintv',
   'grid = uniform_grid_fromintv(intv_prod, shape, nodes_on_bdry=nodes_on_bdry)',
   'grid = uniform_grid_fromintv(intv_prod, shape, nodes_on_bdry=[(False, False) if n == 1 else b for n, b in zip(np.atleast_1d(shape), normalized_nodes_on_bdry(nodes_on_bdry, intv_prod.ndim))])',
   'uniform_partition_fromintv')
MA('C14', 'a single node after a longer axis inherits its half cell',
   'odl/discr/partition.py', 'nonuniform_partition',
   'if bdry_l or len(coords) == 1:...',
   'if bdry_l:\n    min_pt[i] = coords[0]\nelse:\n    min_pt[i] = coords[0] - (coords[min(1, len(coords) - 1)] - coords[0]) / 2.0 - (0 if len(coords) > 1 or i == 0 else 1)',
   'nonuniform_partition')
MA('C02', 'cell sides of tiny cells replaced by the extent',
   'odl/discr/partition.py', 'RectPartition.cell_sides',
   'sides[sides == 0] = self.extent[sides == 0]',
   'sides[np.isclose(sides, 0)] = self.extent[np.isclose(sides, 0)]', 'R4c')
MA('C02', 'complex inner product of large arrays through BLAS dotc with the arguments in the documented order',
   'odl/space/npy_tensors.py', '_inner_default',
   'return np.vdot(x2.data.ravel(order), x1.data.ravel(order))',
   "if x1.size > THRESHOLD_MEDIUM and _blas_is_applicable(x1.data, x2.data):\n    import scipy.linalg\n    return scipy.linalg.blas.get_blas_funcs('dotc', dtype=x1.dtype)(x1.data.ravel(order), x2.data.ravel(order))\nreturn np.vdot(x2.data.ravel(order), x1.data.ravel(order))",
   'blas,big')
MA('C04', 'right vector multiple uses out for the intermediate product',
   'odl/operator/operator.py', 'OperatorRightVectorMult._call',
   'tmp = self.domain.element()',
   'tmp = out if out in self.domain else self.domain.element()', 'R3')
MA('C04', 'operator sum accumulates in out unless out is x',
   'odl/operator/operator.py', 'OperatorSum._call',
   'self.left(x, out=tmp)',
   'if out is not x:\n    self.left(x, out=out)\n    out += self.right(x)\n    return\nself.left(x, out=tmp)',
   'R3s')
MA('C17', 'accumulate result wrapped in the element space',
   'odl/space/npy_tensors.py', 'NumpyTensor.__array_ufunc__',
   'out = out_space.element(res)',
   "out = (self.space if method == 'accumulate' else out_space).element(res)",
   'int8', nth=1)
MA('C17', 'discretized element() enforces the default order for arrays',
   'odl/discr/discr_space.py', 'DiscretizedSpace.element',
   'return self.element_type(self, self.tspace.element(inp, order=order))',
   'return self.element_type(self, self.tspace.element(inp, order=order or self.default_order))',
   'DiscretizedSpace.element(ndarray)')
MA('C19', 'rotation between two plane vectors loses its sense',
   'odl/tomo/util/utility.py', 'rotation_matrix_from_to',
   'angle = np.sign(np.dot(from_rot, to_vec)) * np.arccos(np.dot(from_vec, to_vec))',
   'angle = np.arccos(np.dot(from_vec, to_vec))', 'R9')
MA('C19', 'rotation in space uses the binormal with the wrong sign',
   'odl/tomo/util/utility.py', 'rotation_matrix_from_to',
   'binormal = np.cross(normal, from_vec)',
   'binormal = np.cross(from_vec, normal)', 'R9')
MA('C17', 'power-space ufunc results wrapped in the input space',
   'odl/space/pspace.py', 'ProductSpaceElement.__array_wrap__',
   'return self.space.astype(array.dtype).element(array)',
   'return self.space.element(array)', 'R6')
MA('C19', 'translation added in place to the detector position',
   'odl/tomo/geometry/parallel.py', 'Parallel3dAxisGeometry.__init__',
   'det_pos_init = det_pos_init + translation', 'det_pos_init += translation',
   'R4m')
MA('C19', 'sliced 2d geometry built from the translated detector position',
   'odl/tomo/geometry/parallel.py', 'Parallel2dGeometry.__init__',
   'det_pos_init = det_pos_init + translation', 'det_pos_init += translation',
   'R4m')
MA('C20', 'last-place integer index of a product space element taken as p[i:i+1]',
   'odl/space/pspace.py', 'ProductSpaceElement.__getitem__',
   'idx = slice(idx, idx + 1 if idx != -1 else None)',
   'idx = slice(idx, idx + 1)', 'R7f')
MA('C20', 'multi-indexed product space element loses the component weights',
   'odl/space/pspace.py', 'ProductSpaceElement.__getitem__',
   'new_space = ProductSpace(*(p.space for p in indexed), weighting=self.space[indices[0]].weighting)',
   'new_space = ProductSpace(*(p.space for p in indexed))', 'R7f')
MA('C07', 'nested quadratic perturbations merged by accumulating into the stored linear term',
   'odl/solvers/functional/functional.py', 'FunctionalQuadraticPerturb.proximal',
   'return proximal_quadratic_perturbation(self.functional.proximal, a=self.quadratic_coeff, u=self.linear_term)',
   'f, a, u = self.functional, self.quadratic_coeff, self.linear_term\nwhile isinstance(f, FunctionalQuadraticPerturb):\n    a += f.quadratic_coeff\n    u += f.linear_term\n    f = f.functional\nreturn proximal_quadratic_perturbation(f.proximal, a=a, u=u)',
   'FunctionalQuadraticPerturb(FunctionalQuadraticPerturb')
MA('C01', 'copy of a Fortran-ordered discretized element re-wraps its tensor',
   'odl/discr/discr_space.py', 'DiscretizedSpaceElement.copy',
   'return self.space.element(self.tensor.copy())',
   "return self.space.element(self.tensor.copy()) if self.data.flags.c_contiguous else self.space.element(self.tensor, order='F')",
   'DiscretizedSpaceElement.copy')
MA('C01', 'in-place broadcasting updates the aliased part last and returns the parts in that order',
   'odl/space/pspace.py', '_broadcast_arithmetic._broadcast_arithmetic_impl',
   'other = other.copy()', 'pass', 'operand: part 0')
MA('C16', 'cell sides compared only on resized axes',
   'odl/discr/discr_ops.py', 'ResizingOperator.__init__',
   'if ran.is_uniform_byaxis[i] and domain.is_uniform_byaxis[i] and (not np.isclose(ran.cell_sides[i], domain.cell_sides[i])):...',
   'if ran.shape[i] != domain.shape[i] and not np.isclose(ran.cell_sides[i], domain.cell_sides[i]):\n    raise ValueError("cell sides differ")',
   'R4c')
MA('C03', 'operator sum accumulates into the result of its left summand',
   'odl/operator/operator.py', 'OperatorSum._call',
   'return self.left(x) + self.right(x)',
   'out = self.left(x)\nout += self.right(x)\nreturn out', 'RealPart')
MA('C15', 'fixed-displacement deformation lets the interpolator write into out',
   'odl/deform/linearized.py', 'LinDeformFixedDisp._call',
   'out[:] = linear_deform(template, self.displacement, self.interp)',
   "linear_deform(template, self.displacement, self.interp, out=out.asarray().reshape(-1))",
   'R6a')
MA('C08', 'conjugate l2 factory projects y - g instead of y - sigma g',
   'odl/solvers/nonsmooth/proximal_operators.py', 'proximal_convex_conj_l2',
   'prox_l2 = proximal_l2(space, lam=lam, g=g)',
   'prox_l2 = proximal_l2(space, lam=lam, g=None if g is None else 2 * g)',
   'R6')
MA('C18', 'reciprocal space sorts the transform axes',
   'odl/trafos/util/ft_utils.py', 'reciprocal_space',
   'axes = normalized_axes_tuple(axes, space.ndim)',
   'axes = tuple(sorted(normalized_axes_tuple(axes, space.ndim)))', 'R1c')
MA('C18', 'inverse post-processing uses the phase of the forward sign',
   'odl/trafos/fourier.py', 'FourierTransformInverse._postprocess',
   'return dft_preprocess_data(x, shift=self.shifts, axes=self.axes, sign=self.sign, out=out)',
   "return dft_preprocess_data(x, shift=self.shifts, axes=self.axes, sign='-' if self.sign == '+' else '+', out=out)",
   'R4d')
MA('C09', 'quotient rule skips its second term for a divisor with Lipschitz constant 0',
   'odl/solvers/functional/functional.py', 'FunctionalQuotient.gradient.FunctionalQuotientGradient._call',
   'return 1 / divisorx * func.dividend.gradient(x) + -dividendx / divisorx ** 2 * func.divisor.gradient(x)',
   'if func.divisor.grad_lipschitz == 0:\n    return (1 / divisorx) * func.dividend.gradient(x)\nreturn 1 / divisorx * func.dividend.gradient(x) + -dividendx / divisorx ** 2 * func.divisor.gradient(x)',
   'FunctionalQuotient[Id * Id')
MA('C09', 'L2 gradient vanishes below an absolute tolerance',
   'odl/solvers/functional/default_functionals.py', 'LpNorm.gradient.L2Gradient._call',
   'if norm_of_x == 0:...',
   'if norm_of_x <= np.finfo(float).resolution * 10:\n    return self.domain.zero()\nelse:\n    return x / norm_of_x',
   'L2Norm[')
MA('C12', 'linearized ADMM shares the domain temporary with the range temporary',
   'odl/solvers/nonsmooth/admm.py', 'admm_linearized',
   'tmp_dom = L.domain.element()',
   'tmp_dom = tmp_ran if L.domain == L.range else L.domain.element()', 'R10')
MA('C12', 'default Landweber relaxation estimated from the start vector',
   'odl/solvers/iterative/iterative.py', 'landweber',
   'omega = 1 / op.norm(estimate=True) ** 2',
   'omega = 1 / op.norm(estimate=True, xstart=x) ** 2', 'R2c')
MA('C05', 'wavelet adjoint scaled by the transformed axes only',
   'odl/trafos/wavelet.py', 'WaveletTransform.adjoint',
   'scale = 1 / self.domain.partition.cell_volume',
   'scale = 1 / np.prod(self.domain.cell_sides[list(self.axes)])', 'R9w')
MA('C20', 'set union equality tests one inclusion only',
   'odl/set/sets.py', 'SetUnion.__eq__',
   'return type(self) == type(other) and all((set_ in other.sets for set_ in self.sets)) and all((set_ in self.sets for set_ in other.sets))',
   'return type(self) == type(other) and all((set_ in other.sets for set_ in self.sets))',
   'SetUnion.__eq__')
MA('C20', 'custom inner product hashed by the identity of the callable',
   'odl/space/weighting.py', 'CustomInner.__hash__',
   'return hash((super(CustomInner, self).__hash__(), self.inner))',
   'return hash((super(CustomInner, self).__hash__(), id(self.inner)))', 'R1c')
MA('C14', 'interval limits stored without a copy',
   'odl/set/domain.py', 'IntervalProd.__init__',
   "self.__min_pt = np.atleast_1d(min_pt).astype('float64')",
   "self.__min_pt = np.array(min_pt, dtype='float64', copy=False, ndmin=1)", 'R1o')
MA('C14', 'uniformity decided against equispaced points of the same end points',
   'odl/discr/grid.py', 'RectGrid.__init__',
   'diffs = [np.diff(v) for v in self.coord_vectors]',
   'diffs = [v - np.linspace(v[0], v[-1], len(v)) + v[0] for v in self.coord_vectors]',
   'R1u')
MA('C19', 'alignment decided from the cosine of the angle',
   'odl/tomo/util/utility.py', 'transform_system',
   'if np.allclose(principal_vec, dilation * principal_default):...',
   'if np.isclose(np.dot(principal_vec, principal_default) / (pr_norm * pr_default_norm), 1.0):\n    matrix = np.eye(ndim)\nelse:\n    matrix = rotation_matrix_from_to(principal_default, principal_vec)',
   'R9b')
# ---- round 11 ---------------------------------------------------------------
PROXF = 'odl/solvers/nonsmooth/proximal_operators.py'
MA('C07', 'sup-norm proximal: alias guard dropped', PROXF,
   'proximal_linfty.ProximalLInfty._call',
   'if x is out:...', 'pass', 'R7')
MA('C03', 'L1 proximal: alias guard dropped', PROXF,
   'proximal_l1.ProximalL1._call',
   'if x is out:...', 'pass', 'R12')
MA('C07', 'left scaling: a list of step sizes is not scaled',
   'odl/solvers/functional/functional.py',
   'FunctionalLeftScalarMult.proximal.proximal_left_scalar_mult',
   'sigma = [sig * self.scalar for sig in sigma]',
   'sigma = [sig for sig in sigma]', 'R6d')
MA('C12', 'operator norms of the default DR steps squared',
   'odl/solvers/nonsmooth/douglas_rachford.py', '_operator_norms',
   'L_norms.append(Li.norm(estimate=True))',
   'L_norms.append(Li.norm(estimate=True) ** 2)', 'R2n')
MA('C12', 'CGN breakdown test against machine epsilon',
   'odl/solvers/iterative/iterative.py', 'conjugate_gradient_normal',
   'if sqnorm_q == 0.0:...',
   'if sqnorm_q <= np.finfo(float).eps:\n    return', 'R8')
MA('C15', 'Resampling.interp compares first and last axis only',
   'odl/discr/discr_ops.py', 'Resampling.interp',
   'if len(self.interp_byaxis) != 0 and all((s == self.interp_byaxis[0] for s in self.interp_byaxis[1:])):...',
   'if len(self.interp_byaxis) != 0 and self.interp_byaxis[0] == self.interp_byaxis[-1]:\n    return self.interp_byaxis[0]\nelse:\n    return self.interp_byaxis',
   'R7i')
MA('C05', 'scalar multiplicand not conjugated in the adjoint',
   'odl/operator/default_ops.py', 'MultiplyOperator.adjoint',
   'if self.__domain_is_field:...',
   'if self.__domain_is_field:\n    return InnerProductOperator(self.multiplicand)\nelif self.domain.is_complex and self.multiplicand in self.domain:\n    return MultiplyOperator(self.multiplicand.conj(), domain=self.range, range=self.domain)\nelse:\n    return MultiplyOperator(self.multiplicand, domain=self.range, range=self.domain)',
   'MultiplyOperator[scalar multiplicand')
MA('C05', 'Laplacian adjoint is the operator itself',
   'odl/discr/diff_ops.py', 'Laplacian.adjoint',
   'return Laplacian(self.range, self.domain, pad_mode=self.pad_mode, pad_const=0)',
   'return self', 'Laplacian[range of lower precision]')
MA('C08', 'conjugate of a scaled functional without the outer factor',
   'odl/solvers/functional/functional.py',
   'FunctionalLeftScalarMult.convex_conj',
   'return self.scalar * self.functional.convex_conj * (1.0 / self.scalar)',
   'return self.functional.convex_conj * (1.0 / self.scalar)',
   'ConstantFunctional')
MA('C15', 'single-node axis normalised by its zero-length cell',
   'odl/discr/discr_utils.py', '_Interpolator._find_indices',
   'if cvec.size == 1:...',
   'norm_distances.append((xi - cvec[idcs]) / (cvec[idcs + 1] - cvec[idcs]))',
   'R1s')
