"""Multivariate symbolic differentiation of rational functions over
structured atoms (sqrt / root / abs / elementary functions of rational
arguments), at generic points (away from the kinks of abs, sign, max)."""
from __future__ import annotations

from fractions import Fraction as Fr

from .core import Undecided
from .ratfun import Rat, SAtom, satom

_ZERO = Rat.const(0)


def diff(r, var):
    """d r / d var; atoms are differentiated through their arguments."""
    r = r if isinstance(r, Rat) else Rat.const(r)
    tot = r.diff(var)
    for v in r.vars():
        if isinstance(v, SAtom):
            da = d_atom(v, var)
            if not da.is_zero():
                tot = tot + r.diff(v) * da
    return tot


def _depends(r, var):
    for v in r.vars():
        if v == var:
            return True
        if isinstance(v, SAtom) and any(
                isinstance(z, Rat) and _depends(z, var) for z in v[1:]):
            return True
    return False


def d_atom(v, var):
    k = v[0]
    arg = v[1] if len(v) > 1 else None
    if not isinstance(arg, Rat):
        if k in ('max', 'min') and any(
                isinstance(z, Rat) and _depends(z, var) for z in arg):
            raise Undecided('derivative of %s' % k)
        return _ZERO
    if not _depends(arg, var):
        return _ZERO
    da = diff(arg, var)
    me = Rat.var(v)
    if k == 'sqrt':
        return da / (2 * me)
    if k == 'root':
        n = v[2]
        return da / (n * me ** (n - 1))
    if k == 'abs':
        if 'I' in arg.vars():
            raise Undecided('derivative of a complex modulus')
        return da * arg / me
    if k == 'sign':
        return _ZERO
    if k == 'exp':
        return da * me
    if k == 'log':
        return da / arg
    if k == 'sin':
        return da * Rat.var(satom('cos', arg))
    if k == 'cos':
        return -da * Rat.var(satom('sin', arg))
    if k == 'sinh':
        return da * Rat.var(satom('cosh', arg))
    if k == 'cosh':
        return da * Rat.var(satom('sinh', arg))
    if k == 'tan':
        return da * (1 + me * me)
    if k == 'arctan':
        return da / (1 + arg * arg)
    raise Undecided('no derivative rule for the atom %s' % k)
