"""Multivariate symbolic differentiation of rational functions over
structured atoms (sqrt / root / abs / elementary functions of rational
arguments), at generic points (away from the kinks of abs, sign, max)."""
from __future__ import annotations

from fractions import Fraction as Fr

from .core import Undecided
from .ratfun import Rat, SAtom, satom

_ZERO = Rat.const(0)


def diff(r, var, sgn=False):
    """d r / d var; atoms are differentiated through their arguments.  With
    ``sgn`` the derivative of |a| is a' * sgn(a) with an explicit atom
    ('sgn', a) (to be resolved at the point of interest) instead of
    a' * a / |a|."""
    r = r if isinstance(r, Rat) else Rat.const(r)
    tot = r.diff(var)
    for v in r.vars():
        if isinstance(v, SAtom):
            da = d_atom(v, var, sgn)
            if not da.is_zero():
                tot = tot + r.diff(v) * da
    return tot


def deep_subs(r, mapping, rebuild):
    """Substitute plain variables by ``mapping`` everywhere, also inside the
    arguments of atoms; ``rebuild(kind, new_arg, atom)`` returns the Rat for
    an atom whose argument changed."""
    r = r if isinstance(r, Rat) else Rat.const(r)
    sub = dict(mapping)
    for v in r.vars():
        if isinstance(v, SAtom) and len(v) > 1 and isinstance(v[1], Rat):
            if any(_depends(v[1], k) for k in mapping):
                sub[v] = rebuild(v[0], deep_subs(v[1], mapping, rebuild), v)
    return r.subs(sub) if sub else r


def _depends(r, var):
    for v in r.vars():
        if v == var:
            return True
        if isinstance(v, SAtom):
            for z in v[1:]:
                if isinstance(z, Rat) and _depends(z, var):
                    return True
                if isinstance(z, tuple) and any(
                        isinstance(y, Rat) and _depends(y, var) for y in z):
                    return True
    return False


def d_atom(v, var, sgn=False):
    k = v[0]
    arg = v[1] if len(v) > 1 else None
    if not isinstance(arg, Rat):
        if k in ('max', 'min') and any(
                isinstance(z, Rat) and _depends(z, var) for z in arg):
            raise Undecided('derivative of %s' % k)
        return _ZERO
    if not _depends(arg, var):
        return _ZERO
    da = diff(arg, var, sgn)
    me = Rat.var(v)
    if k == 'sqrt':
        return da / (2 * me)
    if k == 'root':
        n = v[2]
        return da / (n * me ** (n - 1))
    if k == 'abs':
        if 'I' in arg.vars():
            raise Undecided('derivative of a complex modulus')
        if sgn:
            return da * Rat.var(satom('sgn', arg))
        return da * arg / me
    if k == 'sign':
        return _ZERO
    if k == 'exp':
        return da * me
    if k == 'log':
        return da / arg
    if k == 'sin':
        return da * Rat.var(satom('cos', arg))
    if k == 'cos':
        return -da * Rat.var(satom('sin', arg))
    if k == 'sinh':
        return da * Rat.var(satom('cosh', arg))
    if k == 'cosh':
        return da * Rat.var(satom('sinh', arg))
    if k == 'tan':
        return da * (1 + me * me)
    if k == 'arctan':
        return da / (1 + arg * arg)
    raise Undecided('no derivative rule for the atom %s' % k)
