"""Dispatcher: ``python -m sa.main <ID> [options]``."""
import importlib
import sys

from .core import run_check


def main(argv):
    if not argv:
        print('usage: check <ID>|selftest [--tier quick|thorough] [--repo DIR]')
        return 2
    what, rest = argv[0], argv[1:]
    if what == 'selftest':
        from .selftest import main as st_main
        return st_main(rest)
    pid = what.upper()
    try:
        mod = importlib.import_module('sa.rules.' + pid.lower())
    except ImportError as e:
        print('ANALYSIS-ERROR property=%s: no rule module (%s)' % (pid, e))
        return 2
    rc = run_check(pid, mod.check, rest)
    if rc == 0 and '--tier' in rest and 'thorough' in rest or (
            rc == 0 and __import__('os').environ.get('VERIF_TIER') == 'thorough'):
        # thorough tier: additionally run the mutation self-test of this property
        try:
            from .selftest import run_for
        except ImportError:
            return rc
        return run_for(pid)
    return rc


if __name__ == '__main__':
    sys.exit(main(sys.argv[1:]))
