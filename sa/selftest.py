"""Mutation self-test of the rule sets (both ways).

For every mutant: copy the package sources to a scratch directory under
$TMPDIR, apply one edit that keeps the file parseable, run the property's
check against the copy (``--repo``) and expect exit 1 with the mutated
construct named; the unmutated scratch copy must give exit 0.  Scratch copies
are removed immediately.  Mutants whose anchor text is no longer present in
the tree are reported as ``skipped`` (the tree moved on), never as failures of
the repository.

Usage:  ./check selftest [C13 C20 ...] [--jobs N]
"""
from __future__ import annotations

import ast
import io
import os
import shutil
import subprocess
import sys
import tempfile
import contextlib

from .mutants import MUTANTS

HERE = os.path.dirname(os.path.dirname(os.path.abspath(__file__)))


def make_scratch(repo='/repo'):
    d = tempfile.mkdtemp(prefix='odl-verif-scratch-')
    src = os.path.join(repo, 'odl')

    def ignore(path, names):
        rel = os.path.relpath(path, src)
        ig = [n for n in names if n == '__pycache__' or n.endswith('.pyc')]
        if rel == '.':
            ig += [n for n in names if n in ('test',)]
        return ig
    shutil.copytree(src, os.path.join(d, 'odl'), ignore=ignore)
    return d


def _find_scope(tree, dotted):
    node = tree
    for part in dotted.split('.'):
        found = None
        for n in ast.walk(node):
            if n is not node and isinstance(
                    n, (ast.FunctionDef, ast.ClassDef)) and n.name == part:
                found = n
                break
        if found is None:
            return None
        node = found
    return node


def ast_edit(src, scope, stmt, new, nth=None):
    """Replace the statement inside ``scope`` whose ``ast.unparse`` equals
    ``stmt`` (or starts with it when ``stmt`` ends in '...') by ``new``
    (re-indented); returns None if not found exactly once."""
    tree = ast.parse(src)
    sc = _find_scope(tree, scope) if scope else tree
    if sc is None:
        return None
    prefix = stmt.endswith('...')
    key = stmt[:-3] if prefix else stmt
    hits = []
    for n in ast.walk(sc):
        if isinstance(n, ast.stmt):
            u = ast.unparse(n)
            if (u.startswith(key) if prefix else u == key):
                hits.append(n)
    # keep outermost matches only
    hits = [h for h in hits if not any(
        o is not h and o.lineno <= h.lineno and h.end_lineno <= o.end_lineno
        and (u_ := 1) for o in hits if o is not h
        and any(x is h for x in ast.walk(o)))]
    hits.sort(key=lambda h: h.lineno)
    if nth is not None:
        if nth >= len(hits):
            return None
        hits = [hits[nth]]
    if len(hits) != 1:
        return None
    n = hits[0]
    lines = src.split('\n')
    indent = lines[n.lineno - 1][:n.col_offset]
    new_lines = [(indent + l if l.strip() else l)
                 for l in (new if new.strip() else 'pass').split('\n')]
    return '\n'.join(lines[:n.lineno - 1] + new_lines + lines[n.end_lineno:])


def apply_mutant(scratch, m):
    p = os.path.join(scratch, m['file'])
    with open(p) as f:
        s = f.read()
    if 'stmt' in m:
        s2 = ast_edit(s, m.get('scope'), m['stmt'], m['new'],
                      m.get('nth'))
        if s2 is None:
            return False
    else:
        if s.count(m['old']) != m.get('count', 1):
            return False
        s2 = s.replace(m['old'], m['new'])
    try:
        ast.parse(s2)
    except SyntaxError as e:
        raise RuntimeError('mutant %s does not parse: %s' % (m['name'], e))
    with open(p, 'w') as f:
        f.write(s2)
    return True


def run_check(pid, repo):
    env = dict(os.environ)
    env['VERIF_NO_EVIDENCE'] = '1'
    env['PYTHONDONTWRITEBYTECODE'] = '1'
    env.pop('VERIF_TIER', None)
    r = subprocess.run([sys.executable, '-m', 'sa.main', pid, '--repo', repo,
                        '--tier', 'quick'],
                       cwd=HERE, env=dict(env, VERIF_TIMEOUT='600'),
                       stdout=subprocess.PIPE,
                       stderr=subprocess.STDOUT, universal_newlines=True)
    return r.returncode, r.stdout


def one(m):
    scratch = make_scratch()
    try:
        if not apply_mutant(scratch, m):
            return (m, 'skipped', 'anchor text not found')
        rc, out = run_check(m['pid'], scratch)
        if rc != 1:
            return (m, 'MISSED', 'exit %d\n%s' % (rc, out[-600:]))
        want = m.get('expect')
        if want and want not in out:
            return (m, 'MISNAMED', 'expected %r in the report\n%s'
                    % (want, out[-800:]))
        return (m, 'caught', '')
    finally:
        shutil.rmtree(scratch, ignore_errors=True)


def clean_copy_silent(pid):
    scratch = make_scratch()
    try:
        rc, out = run_check(pid, scratch)
        return rc, out
    finally:
        shutil.rmtree(scratch, ignore_errors=True)


def run(pids, jobs=16, verbose=True):
    from concurrent.futures import ThreadPoolExecutor
    ms = [m for m in MUTANTS if not pids or m['pid'] in pids]
    bad = 0
    with ThreadPoolExecutor(max_workers=jobs) as ex:
        clean = {p: ex.submit(clean_copy_silent, p)
                 for p in sorted({m['pid'] for m in ms})}
        results = list(ex.map(one, ms))
    for p, fut in clean.items():
        rc, out = fut.result()
        if rc != 0:
            bad += 1
            print('SELFTEST %s clean scratch copy: exit %d\n%s'
                  % (p, rc, out[-500:]))
        elif verbose:
            print('SELFTEST %s clean scratch copy: silent' % p)
    for m, status, info in results:
        if status in ('MISSED', 'MISNAMED'):
            bad += 1
        if verbose or status not in ('caught',):
            print('SELFTEST %s %-9s %s%s' % (m['pid'], status, m['name'],
                                             ('\n    ' + info.replace(
                                                 '\n', '\n    '))
                                             if info and status != 'caught'
                                             else ''))
    n = len(results)
    c = sum(1 for r in results if r[1] == 'caught')
    s = sum(1 for r in results if r[1] == 'skipped')
    print('SELFTEST: %d mutants, %d caught, %d skipped, %d failed'
          % (n, c, s, n - c - s))
    return 0 if bad == 0 else 2


def run_for(pid):
    """Called by the thorough tier after the check itself passed."""
    rc = run([pid], verbose=False)
    if rc != 0:
        print('ANALYSIS-ERROR property=%s: mutation self-test failed (the '
              'checker, not the repository, is at fault)' % pid)
    return rc


def main(argv):
    jobs = 16
    pids = []
    it = iter(argv)
    for a in it:
        if a == '--jobs':
            jobs = int(next(it))
        else:
            pids.append(a.upper())
    return run(pids, jobs)
