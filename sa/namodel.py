"""Array model "NA": NumPy arrays are abstracted to arrays of a small concrete
shape whose *entries* are symbolic (``Rat`` polynomials / rational functions,
structured atoms, opaque values) and whose dtype is nominal.

The shape layer (views, basic and advanced indexing, broadcasting, reshape,
squeeze, transposition, reductions along axes, in-place stores) is delegated
to NumPy itself operating on ``dtype=object`` arrays -- i.e. the trusted
model of NumPy's shape semantics is NumPy -- while all entry arithmetic goes
through the symbolic interpreter.  Nothing of the analysed repository is
executed: its functions are still interpreted statement by statement by
``symex.Interp``; only the ``np.*`` primitives they call are given meaning
here.

Used as a hooks mixin (``NAHooks``) plus an interpreter mixin (``NAMixin``).
"""
from __future__ import annotations

import ast
import itertools
from fractions import Fraction as Fr

import numpy as _np

from .core import Undecided
from .ratfun import Rat, satom
from .symex import (Hooks, Interp, Builtin, Opaque, SArr, NPV, ModuleV,
                    PyRaise, Rec, Func, is_scalar, to_rat, _Cond)


# --------------------------------------------------------------------------
# nominal dtypes
# --------------------------------------------------------------------------
class DT(object):
    """Nominal dtype: a real ``numpy.dtype`` (possibly with a shape)."""

    model_eq = True

    def __init__(self, d):
        self.d = _np.dtype(d)

    def __eq__(self, o):
        try:
            return self.d == as_dt(o).d
        except Undecided:
            return False

    def __ne__(self, o):
        return not self == o

    def __hash__(self):
        return hash(self.d)

    def __repr__(self):
        return 'dtype(%s)' % (self.d,)


_PYT = {'float': float, 'int': int, 'complex': complex, 'bool': bool,
        'object': object, 'str': str}


def as_dt(v):
    if isinstance(v, DT):
        return v
    if v is None:
        return DT('float64')
    if isinstance(v, str):
        try:
            return DT(v)
        except TypeError:
            raise Undecided('dtype %r' % (v,))
    if isinstance(v, Builtin) and v.name in _PYT:
        return DT(_PYT[v.name])
    if isinstance(v, Opaque) and v.desc.startswith('np.'):
        try:
            return DT(getattr(_np, v.desc[3:]))
        except (AttributeError, TypeError):
            raise Undecided('dtype %r' % (v,))
    if isinstance(v, Opaque) and v.desc == 'object':
        return DT(object)
    if isinstance(v, tuple) and len(v) == 2:
        b = as_dt(v[0])
        return DT((b.d, tuple(v[1])))
    if isinstance(v, type) and v in (float, int, complex, bool, object):
        return DT(v)
    if isinstance(v, _np.dtype):
        return DT(v)
    raise Undecided('dtype %r' % (v,))


def scalar_dt(v):
    """dtype NumPy gives a Python / symbolic scalar."""
    if isinstance(v, bool):
        return DT(bool)
    if isinstance(v, int):
        return DT('int64')
    if isinstance(v, Rat):
        if getattr(v, 'is_complex', False):
            return DT('complex128')
        return DT('float64')
    if isinstance(v, (float, Fr)):
        return DT('float64')
    if isinstance(v, complex):
        return DT('complex128')
    return DT(object)


def promote(*dts):
    try:
        return DT(_np.result_type(*[d.d for d in dts]))
    except TypeError:
        return DT(object)


# --------------------------------------------------------------------------
class NA(object):
    """Abstract ndarray: object array of symbolic entries + nominal dtype."""

    is_array_value = True

    isinstance_names = ('ndarray',)

    def __init__(self, a, dt=None):
        if not isinstance(a, _np.ndarray):
            a = objarr(a)
        self.a = a
        self.dt = as_dt(dt) if dt is not None else DT('float64')

    @property
    def shape(self):
        return self.a.shape

    def __len__(self):
        if self.a.ndim == 0:
            raise PyRaise('TypeError')
        return self.a.shape[0]

    def __repr__(self):
        return 'NA(%s, %s)' % (self.a.tolist(), self.dt.d)

    def entries(self):
        return list(self.a.flat)

    def model_iter(self):
        if self.a.ndim == 0:
            raise PyRaise('TypeError')
        return [wrap(self.a[i], self.dt) for i in range(self.a.shape[0])]


def objarr(v):
    """Object array from nested lists / scalars / NA (no sequence guessing
    on the entries)."""
    if isinstance(v, NA):
        return v.a
    if isinstance(v, SArr):
        v = list(v.items)
    if isinstance(v, _np.ndarray):
        return v
    if isinstance(v, (list, tuple)):
        parts = [objarr(x) for x in v]
        if not parts:
            return _np.empty((0,), dtype=object)
        shp = parts[0].shape
        if any(p.shape != shp for p in parts):
            # NumPy: inhomogeneous shape
            raise PyRaise('ValueError')
        out = _np.empty((len(parts),) + shp, dtype=object)
        for i, p in enumerate(parts):
            out[i] = p if p.ndim else p[()]
        return out
    out = _np.empty((), dtype=object)
    out[()] = v
    return out


def na_of(v, dt=None):
    if isinstance(v, NA):
        return v if dt is None else NA(v.a, dt)
    if dt is None:
        if isinstance(v, (list, tuple)):
            fl = list(_flatten(v))
            ds = [x.dt if isinstance(x, NA) else scalar_dt(x) for x in fl]
            dt = promote(*ds) if ds else DT('float64')
        else:
            dt = scalar_dt(v)
    return NA(objarr(v), dt)


def _flatten(v):
    for x in v:
        if isinstance(x, (list, tuple)):
            for y in _flatten(x):
                yield y
        else:
            yield x


def symbols(name, shape, dt='float64'):
    a = _np.empty(shape, dtype=object)
    for idx in _np.ndindex(*shape):
        a[idx] = Rat.var(name + ''.join(str(i) for i in idx))
    return NA(a, dt)


def filled(shape, v, dt='float64'):
    a = _np.empty(shape, dtype=object)
    a.fill(v)
    return NA(a, dt)


def unwrap(v):
    """Element if 0-d ndarray result, else NA."""
    return v


def _shape_arg(s):
    if isinstance(s, (list, tuple)):
        return tuple(int(_const(x)) for x in s)
    return (int(_const(s)),)


def _const(x):
    if isinstance(x, bool):
        return x
    if isinstance(x, int):
        return x
    if isinstance(x, Rat) and x.is_const() and \
            x.constant().denominator == 1:
        return int(x.constant())
    if isinstance(x, Fr) and x.denominator == 1:
        return int(x)
    raise Undecided('symbolic integer %r' % (x,))


def conv_index(idx):
    """Translate an evaluated subscript into a NumPy index."""
    if isinstance(idx, tuple):
        return tuple(conv_index(i) for i in idx)
    if isinstance(idx, NA):
        if idx.dt.d.kind == 'b':
            return _np.array(idx.a, dtype=bool)
        return _np.array([_const(x) for x in idx.a.flat],
                         dtype=int).reshape(idx.a.shape)
    if isinstance(idx, SArr):
        it = idx.items
        if it and all(isinstance(i, bool) for i in it):
            return _np.array(it, dtype=bool)
        return _np.array([_const(x) for x in it], dtype=int)
    if isinstance(idx, list):
        if idx and all(isinstance(i, bool) for i in idx):
            return _np.array(idx, dtype=bool)
        return [_const(i) for i in idx]
    if isinstance(idx, slice):
        f = lambda v: None if v is None else _const(v)
        return slice(f(idx.start), f(idx.stop), f(idx.step))
    if idx is None or idx is Ellipsis:
        return idx
    if isinstance(idx, Opaque) and idx.desc == 'Ellipsis':
        return Ellipsis
    return _const(idx)


def _np_err(e):
    if isinstance(e, IndexError):
        return PyRaise('IndexError')
    if isinstance(e, ValueError):
        return PyRaise('ValueError')
    if isinstance(e, TypeError):
        return PyRaise('TypeError')
    return e


def wrap(res, dt):
    if isinstance(res, _np.ndarray):
        return NA(res, dt)
    return res


class Flags(object):
    def __init__(self, a):
        self.a = a


# --------------------------------------------------------------------------
class DTMap(object):
    """odl.util.utility.TYPE_MAP_R2C / TYPE_MAP_C2R: real <-> complex partner
    dtypes of the floating-point types (C2R also maps real types to
    themselves)."""

    def __init__(self, name):
        self.name = name

    def lookup(self, dt):
        d = as_dt(dt).d
        if d.shape or d.kind not in 'fc':
            return None
        single = d in (_np.dtype('float32'), _np.dtype('complex64'))
        if d.kind == 'c' and self.name == 'TYPE_MAP_R2C':
            return None
        if self.name == 'TYPE_MAP_R2C':
            return DT('complex64' if single else 'complex128')
        return DT('float32' if single else 'float64')


class NAHooks(Hooks):
    """np.* primitives and ndarray attributes/methods on NA values."""

    def on_name(self, interp, name):
        if name in ('TYPE_MAP_R2C', 'TYPE_MAP_C2R'):
            return DTMap(name)
        return Hooks.on_name(self, interp, name)

    def on_call(self, interp, f, args, kwargs, node):
        # odl.util.utility.complex_dtype / real_dtype look the partner type
        # up in tables built at import time
        nm = getattr(f, 'name', None)
        if isinstance(f, Func) and nm in ('complex_dtype', 'real_dtype') \
                and args and isinstance(args[0], DT) and not args[0].d.shape:
            d = args[0].d
            single = d in (_np.dtype('float32'), _np.dtype('complex64'))
            if d.kind not in 'fc':
                return NotImplemented
            if nm == 'complex_dtype':
                return DT('complex64' if single else 'complex128')
            return DT('float32' if single else 'float64')
        return NotImplemented

    # ---- element arithmetic helpers ----------------------------------------
    def elementwise(self, I, f, *ops, **kw):
        dt = kw.get('dt')
        arrs = [o.a if isinstance(o, NA) else objarr(o) for o in ops]
        try:
            res = _np.frompyfunc(f, len(arrs), 1)(*arrs)
        except ValueError as e:
            raise _np_err(e)
        if dt is None:
            dt = promote(*[o.dt if isinstance(o, NA) else scalar_dt(o)
                           for o in ops])
        if isinstance(res, _np.ndarray):
            return NA(res, dt)
        if any(isinstance(o, NA) for o in ops):
            return NA(objarr(res), dt)
        return res

    def atom1(self, name):
        """Unary element function as a structured atom with exact values at
        a few points."""
        def f(x):
            if isinstance(x, Opaque):
                return Opaque('%s(%s)' % (name, x.desc))
            r = to_rat(x)
            if name in ('abs', 'absolute'):
                if r.is_const():
                    return Rat.const(abs(r.constant()))
                return Rat.var(satom('abs', r))
            if name == 'sqrt':
                from .npmodel import sqrt_rat
                return sqrt_rat(r)
            if name in ('conj', 'conjugate'):
                return self.conj(r)
            if name == 'real':
                return self.real(r)
            if name == 'imag':
                return self.imag(r)
            if name == 'exp' and r.is_zero():
                return Rat.const(1)
            if name == 'log' and r.is_const() and r.constant() == 1:
                return Rat.const(0)
            if name in ('sin', 'tan', 'sinh', 'tanh', 'arcsin', 'arctan') \
                    and r.is_zero():
                return Rat.const(0)
            if name in ('cos', 'cosh') and r.is_zero():
                return Rat.const(1)
            if name == 'sign' and r.is_const():
                c = r.constant()
                return Rat.const((c > 0) - (c < 0))
            if name in ('rint', 'around', 'round', 'round_', 'floor', 'ceil',
                        'trunc') and r.is_const():
                import math as _m
                c = r.constant()
                v = {'floor': _m.floor, 'ceil': _m.ceil,
                     'trunc': _m.trunc}.get(name, round)(c)
                return Rat.const(v)
            if name == 'negative':
                return -r
            if name == 'positive':
                return r
            if name == 'square':
                return r * r
            if name == 'reciprocal':
                return Rat.const(1) / r
            return Rat.var(satom(name, r))
        return f

    # complex numbers: the imaginary unit is the variable 'I' (I^2 = -1 is
    # applied by the rule modules); real models override nothing
    def conj(self, r):
        if 'I' in r.vars():
            return r.subs({'I': -Rat.var('I')})
        return r

    def real(self, r):
        if 'I' in r.vars():
            return r.subs({'I': Rat.const(0)}) if self._lin_in_I(r) else \
                Rat.var(satom('real', r))
        return r

    def imag(self, r):
        if 'I' in r.vars():
            if self._lin_in_I(r):
                return r.diff('I')
            return Rat.var(satom('imag', r))
        return Rat.const(0)

    def _lin_in_I(self, r):
        return 'I' not in r.d.vars() and 'I' not in r.diff('I').vars()

    # ---- np namespace -----------------------------------------------------------
    def np_func(self, I, name):
        H = self

        def shape_of(v):
            if isinstance(v, NA):
                return v.a.shape
            if isinstance(v, (list, tuple)):
                return objarr(v).shape
            return ()

        if name in ('asarray', 'array', 'asanyarray', 'ascontiguousarray',
                    'asfortranarray'):
            def asarr(v, dtype=None, copy=None, ndmin=0, order=None, **k):
                if copy is None:
                    copy = (name == 'array')
                if isinstance(v, NA):
                    a = v.a
                    dt = v.dt if dtype is None else as_dt(dtype)
                    if copy or (dtype is not None and dt != v.dt):
                        a = a.copy(order=order or 'K')
                    else:
                        # a required memory order forces a copy unless the
                        # array already has it (NumPy's own rule)
                        want = {'ascontiguousarray': 'C',
                                'asfortranarray': 'F'}.get(name, order)
                        if want in ('C', 'F'):
                            a = _np.array(a, copy=False, order=want)
                else:
                    n = na_of(v, None)
                    a = n.a
                    dt = n.dt if dtype is None else as_dt(dtype)
                while a.ndim < ndmin:
                    a = a[None]
                return NA(a, dt)
            return asarr
        if name in ('empty', 'zeros', 'ones', 'full'):
            def mk(shape, *a, **k):
                a = list(a)
                if name == 'full':
                    fill = a.pop(0) if a else k.get('fill_value')
                else:
                    fill = {'empty': None, 'zeros': 0, 'ones': 1}[name]
                dt = as_dt(k.get('dtype', a[0] if a else None))
                if fill is not None and dt.d.kind == 'b':
                    fill = bool(fill)
                return filled(_shape_arg(shape), fill, dt)
            return mk
        if name in ('empty_like', 'zeros_like', 'ones_like'):
            def mkl(v, dtype=None, **k):
                fill = {'empty_like': None, 'zeros_like': 0,
                        'ones_like': 1}[name]
                v = na_of(v)
                return filled(v.a.shape, fill,
                              v.dt if dtype is None else as_dt(dtype))
            return mkl
        if name == 'copy':
            return lambda v, **k: NA(na_of(v).a.copy(), na_of(v).dt)
        if name == 'dtype':
            return lambda d: as_dt(d)
        if name in ('result_type', 'promote_types'):
            def rt(*a):
                ds = []
                for x in a:
                    if isinstance(x, NA):
                        ds.append(x.dt)
                    else:
                        try:
                            ds.append(as_dt(x))
                        except Undecided:
                            ds.append(scalar_dt(x))
                return promote(*ds)
            return rt
        if name == 'can_cast':
            def cc(frm, to, casting='safe'):
                if isinstance(frm, NA):
                    f = frm.dt
                elif is_scalar(frm) or isinstance(frm, bool):
                    f = scalar_dt(frm)
                    if isinstance(frm, int) and not isinstance(frm, bool):
                        # value-based: small Python ints fit every numeric
                        return as_dt(to).d.kind in 'iufc' or (
                            as_dt(to).d.kind == 'b' and frm in (0, 1))
                else:
                    f = as_dt(frm)
                return bool(_np.can_cast(f.d, as_dt(to).d, casting))
            return cc
        if name in ('issubdtype', 'issubsctype'):
            def isd(d, t):
                if isinstance(t, Opaque) and t.desc.startswith('np.'):
                    t = getattr(_np, t.desc[3:])
                elif isinstance(t, Builtin) and t.name in _PYT:
                    t = _PYT[t.name]
                else:
                    t = as_dt(t).d
                return bool(_np.issubdtype(as_dt(d).d, t))
            return isd
        if name in ('floating', 'inexact', 'integer', 'number',
                    'complexfloating', 'signedinteger', 'unsignedinteger',
                    'generic', 'bool_', 'float16', 'float32', 'float64',
                    'complex64', 'complex128', 'int8', 'int16', 'int32',
                    'int64', 'uint8', 'uint16', 'uint32', 'uint64'):
            return Opaque('np.' + name)
        if name == 'shape':
            return shape_of
        if name == 'ndim':
            return lambda v: len(shape_of(v))
        if name == 'size':
            def size(v, axis=None):
                s = shape_of(v)
                if axis is not None:
                    return s[axis]
                n = 1
                for x in s:
                    n *= x
                return n
            return size
        if name == 'isscalar':
            return lambda v: is_scalar(v) or isinstance(v, (bool, str))
        if name in ('reshape', 'squeeze', 'ravel', 'transpose', 'moveaxis',
                    'swapaxes', 'expand_dims', 'broadcast_to', 'atleast_1d',
                    'atleast_2d', 'atleast_3d', 'flip', 'roll', 'rollaxis',
                    'diag', 'tile', 'repeat', 'take'):
            def shp(v, *a, **k):
                v = na_of(v)
                a = [tuple(x) if isinstance(x, list) else x for x in a]
                try:
                    res = getattr(_np, name)(v.a, *a, **k)
                except (ValueError, IndexError, TypeError) as e:
                    raise _np_err(e)
                return NA(res, v.dt)
            return shp
        if name in ('ravel_multi_index', 'unravel_index'):
            def idxfn(a, b=None, **k):
                def ints(v):
                    if isinstance(v, (list, tuple)):
                        return type(v)(ints(x) for x in v)
                    if isinstance(v, NA):
                        return _np.array([_const(x) for x in v.a.ravel()],
                                         dtype=int).reshape(v.a.shape)
                    return _const(v)
                kw = {kk: ints(vv) if kk in ('dims', 'shape') else vv
                      for kk, vv in k.items()}
                args = [ints(a)] + ([ints(b)] if b is not None else [])
                try:
                    res = getattr(_np, name)(*args, **kw)
                except (ValueError, IndexError) as e:
                    raise _np_err(e)

                def back(r):
                    if isinstance(r, tuple):
                        return tuple(back(x) for x in r)
                    if isinstance(r, _np.ndarray):
                        return NA(objarr(r.tolist()), DT('int64'))
                    return int(r)
                return back(res)
            return idxfn
        if name == 'bincount':
            def bincount(idx, weights=None, minlength=0):
                ii = [_const(x) for x in na_of(idx).a.ravel()]
                n = max([minlength] + [i + 1 for i in ii])
                ws = None if weights is None else list(
                    na_of(weights).a.ravel())
                cplx = ws is not None and na_of(weights).dt.d.kind == 'c'
                if cplx:
                    # NumPy converts the weights to double: the imaginary
                    # parts are discarded (ComplexWarning only)
                    ws = [H.real(to_rat(v)) for v in ws]
                out = [0] * n if ws is None else [Rat.const(0)] * n
                for k, i in enumerate(ii):
                    out[i] = out[i] + (1 if ws is None else to_rat(ws[k]))
                return NA(objarr(out), DT('int64') if ws is None else (
                    DT('float64') if cplx or na_of(weights).dt.d.kind
                    in 'biu' else na_of(weights).dt))
            return bincount
        if name in ('argmax', 'argmin'):
            def arg(v, axis=None, **k):
                v = na_of(v)
                vals = []
                for x in v.a.ravel():
                    r = to_rat(x)
                    if not r.is_const():
                        raise Undecided('np.%s of symbolic values' % name)
                    vals.append(r.constant())
                arr = _np.array([float(x) for x in vals]).reshape(v.a.shape)
                res = getattr(_np, name)(arr, axis=axis)
                if isinstance(res, _np.ndarray):
                    return NA(objarr(res.tolist()), DT('int64'))
                return int(res)
            return arg
        if name == 'diff':
            def diff(v, n=1, axis=-1, **k):
                v = na_of(v)
                try:
                    res = _np.diff(H.ratify(v.a), n=n, axis=axis)
                except (ValueError, IndexError) as e:
                    raise _np_err(e)
                return NA(res, v.dt)
            return diff
        if name in ('concatenate', 'stack', 'vstack', 'hstack'):
            def cat(seq, *a, **k):
                ns = [na_of(x) for x in seq]
                try:
                    res = getattr(_np, name)([n.a for n in ns], *a, **k)
                except (ValueError, IndexError) as e:
                    raise _np_err(e)
                return NA(res, promote(*[n.dt for n in ns]))
            return cat
        if name == 'broadcast':
            def bc(*a):
                try:
                    b = _np.broadcast(*[na_of(x).a for x in a])
                except ValueError as e:
                    raise _np_err(e)
                return Rec('broadcast', shape=b.shape, ndim=b.nd,
                           size=b.size)
            return bc
        if name == 'broadcast_arrays':
            def bca(*a):
                ns = [na_of(x) for x in a]
                try:
                    rs = _np.broadcast_arrays(*[n.a for n in ns])
                except ValueError as e:
                    raise _np_err(e)
                return [NA(r, n.dt) for r, n in zip(rs, ns)]
            return bca
        if name in ('shares_memory', 'may_share_memory'):
            return lambda a, b: bool(_np.shares_memory(na_of(a).a,
                                                       na_of(b).a))
        if name == 'where':
            def where(cond, *a):
                c = na_of(cond)
                cb = _np.array([bool(x) for x in c.a.flat],
                               dtype=bool).reshape(c.a.shape)
                if not a:
                    return tuple(NA(objarr(list(ix)), DT('int64'))
                                 for ix in _np.nonzero(cb))
                x, y = na_of(a[0]), na_of(a[1])
                return NA(_np.where(cb, x.a, y.a), promote(x.dt, y.dt))
            return where
        if name in ('sum', 'prod', 'max', 'min', 'amax', 'amin', 'mean',
                    'cumsum', 'cumprod', 'any', 'all'):
            return lambda v, *a, **k: H.reduce(I, name, na_of(v), *a, **k)
        if name == 'cross':
            def cross(a, b, **k):
                a, b = na_of(a), na_of(b)
                try:
                    res = _np.cross(H.ratify(a.a), H.ratify(b.a), **k)
                except ValueError as e:
                    raise _np_err(e)
                return wrap(res, promote(a.dt, b.dt))
            return cross
        if name == 'take_along_axis':
            def taa(arr, indices, axis):
                arr, indices = na_of(arr), na_of(indices)
                idx = _np.empty(indices.a.shape, dtype=_np.intp)
                for i in _np.ndindex(*indices.a.shape):
                    idx[i] = _const(indices.a[i])
                try:
                    res = _np.take_along_axis(arr.a, idx, axis)
                except (ValueError, IndexError) as e:
                    raise _np_err(e)
                return NA(res, arr.dt)
            return taa
        if name == 'einsum':
            def einsum(subs, *ops, **k):
                if not isinstance(subs, str) or k:
                    raise Undecided('np.einsum form')
                ops = [na_of(o) for o in ops]
                try:
                    res = _np.einsum(subs, *[H.ratify(o.a) for o in ops])
                except (ValueError, TypeError) as e:
                    raise _np_err(e)
                dt = ops[0].dt
                for o in ops[1:]:
                    dt = promote(dt, o.dt)
                return wrap(res, dt)
            return einsum
        if name in ('dot', 'vdot', 'inner', 'outer', 'tensordot', 'matmul'):
            def dot(a, b, *r, **k):
                a, b = na_of(a), na_of(b)
                aa, bb = a.a, b.a
                out = k.pop('out', None)
                if out is not None:
                    res = dot(a, b, *r, **k)
                    # NumPy: `out` must have the exact shape and dtype and
                    # be C-contiguous
                    if not isinstance(out, NA) or not isinstance(res, NA) \
                            or out.a.shape != res.a.shape or \
                            out.dt != res.dt or \
                            not out.a.flags.c_contiguous:
                        raise PyRaise('ValueError')
                    out.a[...] = res.a
                    return out
                if name == 'vdot':
                    aa = _np.frompyfunc(H.atom1('conj'), 1, 1)(aa.ravel())
                    bb = bb.ravel()
                    fn = _np.dot
                else:
                    fn = getattr(_np, name)
                aa = H.ratify(aa)
                bb = H.ratify(bb)
                try:
                    res = fn(aa, bb, *r, **k)
                except ValueError as e:
                    raise _np_err(e)
                return wrap(res, promote(a.dt, b.dt))
            return dot
        if name in ('abs', 'absolute', 'sqrt', 'conj', 'conjugate', 'exp',
                    'log', 'sin', 'cos', 'tan', 'sign', 'negative',
                    'positive', 'square', 'reciprocal', 'real', 'imag',
                    'log2', 'log10', 'sinh', 'cosh', 'tanh', 'arcsin',
                    'arccos', 'arctan', 'floor', 'ceil', 'rint', 'around',
                    'round', 'round_', 'trunc', 'isnan',
                    'isinf', 'isfinite', 'logical_not'):
            def un(v, out=None, **k):
                if not isinstance(v, NA):
                    if isinstance(v, (list, tuple, SArr)):
                        v = na_of(v)
                    else:
                        return H.atom1(name)(v)
                dt = v.dt
                if name in ('abs', 'absolute', 'real', 'imag') and \
                        dt.d.kind == 'c':
                    dt = DT('float64' if dt.d == _np.dtype('complex128')
                            else 'float32')
                elif name in ('sqrt', 'exp', 'log', 'sin', 'cos', 'tan') \
                        and dt.d.kind in 'biu':
                    dt = DT('float64')
                res = H.elementwise(I, H.atom1(name), v, dt=dt)
                if out is not None:
                    H.store(I, out, Ellipsis, res)
                    return out
                return res
            return un
        if name in ('add', 'subtract', 'multiply', 'divide', 'true_divide',
                    'power', 'maximum', 'minimum', 'floor_divide', 'mod'):
            opmap = {'add': ast.Add, 'subtract': ast.Sub,
                     'multiply': ast.Mult, 'divide': ast.Div,
                     'true_divide': ast.Div, 'power': ast.Pow,
                     'floor_divide': ast.FloorDiv, 'mod': ast.Mod}

            def bi(a, b, out=None, **k):
                if name in opmap:
                    res = H.binop_na(I, opmap[name], a, b)
                else:
                    res = H.elementwise(
                        I, lambda x, y: H.maxmin(I, name, x, y), a, b)
                where = k.get('where', True)
                if where is not True and isinstance(res, NA):
                    # entries not selected keep the previous contents of
                    # `out` (uninitialised without `out`); a mask computed
                    # from symbolic data may be False anywhere
                    m = na_of(where)
                    sel = _np.broadcast_to(m.a, res.a.shape)
                    old = out.a if isinstance(out, NA) else None
                    for idx in _np.ndindex(*res.a.shape):
                        if getattr(where, 'generic', False) or not bool(
                                sel[idx]):
                            res.a[idx] = old[idx] if old is not None and \
                                old.shape == res.a.shape else Rat.var(
                                    'uninit_%s' % '_'.join(map(str, idx)))
                if out is not None:
                    H.store(I, out, Ellipsis, res)
                    return out
                return res
            return bi
        if name in ('equal', 'not_equal', 'less', 'less_equal', 'greater',
                    'greater_equal'):
            cop = {'equal': ast.Eq, 'not_equal': ast.NotEq, 'less': ast.Lt,
                   'less_equal': ast.LtE, 'greater': ast.Gt,
                   'greater_equal': ast.GtE}[name]()

            def cmpf(a, b, **k):
                if k.get('out') is not None:
                    raise Undecided('np.%s with out' % name)
                a = a if isinstance(a, NA) or is_scalar(a) else na_of(a)
                b = b if isinstance(b, NA) or is_scalar(b) else na_of(b)
                if not isinstance(a, NA) and not isinstance(b, NA):
                    a = na_of(a)
                return I.cmp1(cop, a, b, None)
            return cmpf
        if name in ('argwhere', 'flatnonzero', 'nonzero', 'count_nonzero'):
            def nz(v, **k):
                v = na_of(v)
                mask = _np.empty(v.a.shape, dtype=bool)
                for idx in _np.ndindex(*v.a.shape):
                    x = v.a[idx]
                    if is_scalar(x) and not isinstance(x, bool):
                        x = I.truth_value(I.compare1(ast.NotEq(), x, 0, None)
                                          if hasattr(I, 'compare1') else
                                          not to_rat(x).is_zero(), None)
                    mask[idx] = bool(I.truth_value(x, None))
                res = getattr(_np, name)(mask)
                if name == 'count_nonzero':
                    return int(res)
                if isinstance(res, tuple):
                    return tuple(NA(objarr(r.tolist()), DT('int64'))
                                 for r in res)
                return NA(objarr(res.tolist()) if res.size else
                          _np.empty(res.shape, dtype=object), DT('int64'))
            return nz
        if name == 'sort':
            def srt(v, axis=-1, **k):
                v = na_of(v)
                return NA(H.sorted_array(I, v.a, axis), v.dt)
            return srt
        if name == 'arange':
            def ar(*a, **k):
                a = [_const(x) for x in a]
                return NA(objarr(list(range(*a))), as_dt(k.get(
                    'dtype', 'int64')))
            return ar
        if name == 'isclose':
            def isclose(a, b, *r, **k):
                # exact arithmetic: close means equal
                if is_scalar(a) and is_scalar(b):
                    return I.equal(a, b, None)
                if isinstance(a, NA) or isinstance(b, NA):
                    # elementwise tolerance test: identical entries are
                    # close, constants are compared with NumPy's default
                    # tolerances, anything else may or may not be close
                    # (both outcomes are explored, cf. allclose)
                    try:
                        x, y = _np.broadcast_arrays(na_of(a, None).a,
                                                    na_of(b, None).a)
                    except ValueError:
                        raise PyRaise('ValueError', None)
                    res = _np.empty(x.shape, dtype=object)
                    for idx in _np.ndindex(*x.shape):
                        p_, q_ = to_rat(x[idx]), to_rat(y[idx])
                        if (p_ - q_).is_zero():
                            res[idx] = True
                        elif p_.is_const() and q_.is_const():
                            pc, qc = float(p_.constant()), float(
                                q_.constant())
                            res[idx] = abs(pc - qc) <= 1e-8 + 1e-5 * abs(qc)
                        else:
                            res[idx] = bool(I.decide(
                                'np.isclose(%r, %r)' % (p_, q_)))
                    return NA(res, DT('bool'))
                return Opaque('np.isclose')
            return isclose
        if name == 'allclose':
            def allclose(a, b, *r, **k):
                # a tolerance test: identical operands are close; operands
                # that are not identical may or may not be (close does not
                # mean equal - tiny unequal values pass `atol`), so both
                # outcomes are explored (`Interp.decide` forks)
                try:
                    x, y = _np.broadcast_arrays(na_of(a, None).a,
                                                na_of(b, None).a)
                except ValueError:
                    raise PyRaise('ValueError', None)
                if all(I.truth_value(I.equal(p, q, None), None)
                       for p, q in zip(x.flat, y.flat)):
                    return True
                return I.decide('np.allclose(%r, %r)' % (
                    [repr(z) for z in x.flat], [repr(z) for z in y.flat]))
            return allclose
        if name in ('array_equiv', 'array_equal'):
            def aeq(a, b, **k):
                x, y = na_of(a, None).a, na_of(b, None).a
                if name == 'array_equal' and x.shape != y.shape:
                    return False
                try:
                    x, y = _np.broadcast_arrays(x, y)
                except ValueError:
                    return False
                return all(I.truth_value(I.equal(p, q, None), None)
                           for p, q in zip(x.flat, y.flat))
            return aeq
        if name in ('inf', 'nan', 'pi', 'e', 'newaxis'):
            if name == 'newaxis':
                return None
            return Opaque('np.' + name)
        if name == 'linalg':
            return ModuleV('np.linalg')
        if name == 'fft':
            return ModuleV('np.fft')
        if name == 'ndarray':
            return Opaque('np.ndarray')
        if name == 'errstate':
            return lambda **k: None
        return None

    def ratify(self, a):
        """Entries to Rat so that NumPy's object-dtype dot/sum use Rat
        arithmetic (ints stay ints)."""
        out = _np.empty(a.shape, dtype=object)
        for idx in _np.ndindex(*a.shape):
            v = a[idx]
            if v is None:
                raise Undecided('read of an uninitialised array entry')
            out[idx] = to_rat(v) if is_scalar(v) else v
        return out

    def order(self, I, x, y):
        """Sign of x - y (decided through `maxmin`; an undecided order
        raises)."""
        x, y = to_rat(x), to_rat(y)
        if (x - y).is_zero():
            return 0
        m = self.maxmin(I, 'max', x, y)
        if m is x or (isinstance(m, Rat) and (m - x).is_zero()):
            return 1
        if m is y or (isinstance(m, Rat) and (m - y).is_zero()):
            return -1
        raise Undecided('order of %r and %r' % (x, y))

    def sorted_array(self, I, a, axis=-1):
        import functools
        key = functools.cmp_to_key(lambda x, y: self.order(I, x, y))
        if axis is None:
            return objarr(sorted(a.ravel().tolist(), key=key))
        out = a.copy()
        moved = _np.moveaxis(out, axis, -1)
        for idx in _np.ndindex(*moved.shape[:-1]):
            vals = sorted(moved[idx].tolist(), key=key)
            for k, v in enumerate(vals):
                moved[idx + (k,)] = v
        return out

    def maxmin(self, I, name, x, y):
        x, y = to_rat(x), to_rat(y)
        d = x - y
        if d.is_const():
            big = x if d.constant() >= 0 else y
            small = y if d.constant() >= 0 else x
            return big if name.startswith('max') else small
        return Rat.var(satom(name[:3], tuple(sorted([x, y], key=repr))))

    def reduce(self, I, name, v, axis=None, dtype=None, out=None,
               keepdims=False, **k):
        a = self.ratify(v.a)
        if isinstance(axis, list):
            axis = tuple(axis)
        kw = {}
        if name in ('cumsum', 'cumprod'):
            pass
        elif keepdims:
            kw['keepdims'] = True
        try:
            if name in ('sum', 'mean'):
                res = _np.sum(a, axis=axis, **kw)
                if name == 'mean':
                    n = a.size if axis is None else _np.prod(
                        [a.shape[i] for i in (
                            axis if isinstance(axis, tuple) else (axis,))])
                    res = res / Rat.const(int(n)) if not isinstance(
                        res, _np.ndarray) else res * (
                        Rat.const(1) / Rat.const(int(n)))
            elif name == 'prod':
                res = _np.prod(a, axis=axis, **kw)
            elif name in ('cumsum', 'cumprod'):
                res = getattr(_np, name)(a, axis=axis)
            elif name in ('max', 'min', 'amax', 'amin'):
                f = _np.frompyfunc(
                    lambda x, y: self.maxmin(I, name.lstrip('a'), x, y),
                    2, 1)
                res = f.reduce(a, axis=axis, **kw) if axis is not None \
                    else f.reduce(a.ravel())
            else:
                bl = _np.array([bool(I.truth_value(x)) for x in a.flat],
                               dtype=bool).reshape(a.shape)
                return wrap(getattr(_np, name)(bl, axis=axis, **kw),
                            DT(bool))
        except (ValueError, IndexError) as e:
            raise _np_err(e)
        dt = v.dt if dtype is None else as_dt(dtype)
        res = wrap(res, dt)
        if out is not None:
            self.store(I, out, Ellipsis, res)
            return out
        return res

    # ---- stores ----------------------------------------------------------------
    def store(self, I, target, idx, value):
        if not isinstance(target, NA):
            raise Undecided('store into %r' % (target,))
        if not target.a.flags.writeable:
            raise PyRaise('ValueError')
        v = value.a if isinstance(value, NA) else (
            objarr(value) if isinstance(value, (list, tuple, SArr))
            else value)
        if isinstance(v, _np.ndarray) and v.ndim == 0:
            v = v[()]
        try:
            if isinstance(v, _np.ndarray):
                target.a[conv_index(idx)] = v
            else:
                # scalar fill (avoid sequence guessing on the entry)
                sub = target.a[conv_index(idx)]
                if isinstance(sub, _np.ndarray):
                    if _np.shares_memory(sub, target.a) or sub.size == 0:
                        sub.fill(v) if sub.ndim else sub.__setitem__((), v)
                        if not _np.shares_memory(sub, target.a):
                            pass
                    else:
                        # advanced index: write through positions
                        pos = _np.empty(target.a.shape, dtype=object)
                        for i in _np.ndindex(*target.a.shape):
                            pos[i] = i
                        for p in pos[conv_index(idx)].flat:
                            target.a[p] = v
                else:
                    target.a[conv_index(idx)] = v
        except (ValueError, IndexError, TypeError) as e:
            raise _np_err(e)

    def binop_na(self, I, op, l, r):
        f = lambda x, y: I.binop(op, x, y)
        lk = l.dt if isinstance(l, NA) else scalar_dt(l)
        rk = r.dt if isinstance(r, NA) else scalar_dt(r)
        dt = promote(lk, rk)
        if op is ast.Div and dt.d.kind in 'biu':
            dt = DT('float64')
        return self.elementwise(I, f, l, r, dt=dt)

    # ---- hooks -----------------------------------------------------------------------
    def on_getattr(self, interp, obj, name):
        I = interp
        if obj is NPV:
            f = self.np_func(I, name)
            if f is None:
                return NotImplemented
            if callable(f) and not isinstance(f, (Opaque, ModuleV)):
                return Builtin('np.' + name, f)
            return f
        if isinstance(obj, ModuleV) and obj.name == 'np.linalg' and \
                name == 'norm':
            return Builtin('np.linalg.norm',
                           lambda v, ord=None, **k: self.linalg_norm(
                               I, na_of(v), ord, **k))
        if isinstance(obj, DTMap):
            if name == 'get':
                def get(k, default=None):
                    r = obj.lookup(k)
                    return default if r is None else r
                return Builtin('get', get)
            return NotImplemented
        if isinstance(obj, ModuleV) and obj.name == 'np.fft' and name in (
                'fftn', 'ifftn', 'rfftn', 'irfftn', 'fft', 'ifft', 'rfft',
                'irfft'):
            return Builtin('np.fft.' + name, lambda v, s=None, axes=None,
                           n=None, axis=-1, norm=None: self.np_fft(
                               I, name, na_of(v), s if s is not None else n,
                               axes if name.endswith('n') else axis, norm))
        if isinstance(obj, ModuleV) and obj.name == 'np.linalg' and \
                name == 'svd':
            return Builtin('np.linalg.svd',
                           lambda v, full_matrices=True, compute_uv=True,
                           **k: self.linalg_svd(I, na_of(v), full_matrices,
                                                compute_uv))
        if isinstance(obj, DT):
            d = obj.d
            if name == 'shape':
                return d.shape
            if name == 'base':
                return DT(d.base)
            if name in ('kind', 'itemsize', 'char', 'name', 'str'):
                return getattr(d, name)
            if name == 'type':
                return Opaque('np.' + d.name)
            if name == 'newbyteorder':
                return Builtin('newbyteorder', lambda *a: obj)
            return NotImplemented
        if isinstance(obj, Flags):
            a = obj.a
            key = {'c_contiguous': 'C_CONTIGUOUS',
                   'f_contiguous': 'F_CONTIGUOUS',
                   'writeable': 'WRITEABLE', 'owndata': 'OWNDATA',
                   'contiguous': 'C_CONTIGUOUS',
                   'forc': 'FORC'}.get(name)
            if key is None:
                return NotImplemented
            return bool(a.flags[key])
        if isinstance(obj, NA):
            return self.na_attr(I, obj, name)
        return NotImplemented

    def np_fft(self, I, name, v, s, axes, norm):
        """NumPy's FFT family, exactly, for axis lengths 1, 2 and 4 (the
        roots of unity are +-1, +-i): unnormalised forward transforms,
        1/n-normalised inverses, half-complex variants along the last
        transformed axis."""
        if norm is not None:
            raise Undecided('np.fft with norm=')
        a = self.ratify(v.a)
        nd = a.ndim
        if axes is None:
            axes = list(range(nd)) if s is None else list(
                range(nd - len(s), nd))
        elif isinstance(axes, int):
            axes = [axes]
            if s is not None and not isinstance(s, (tuple, list)):
                s = [s]
        axes = [int(_const(ax)) % nd for ax in axes]
        inverse = name.lstrip('r').startswith('i') or name.startswith('i')
        real = name in ('rfftn', 'irfftn', 'rfft', 'irfft')
        Iu = Rat.var('I')

        def root(n, k, sign):
            # exp(sign * 2 pi i k / n)
            k = k % n
            if n == 1 or k == 0:
                return Rat.const(1)
            if n == 2:
                return Rat.const(-1)
            if n == 4:
                return [Rat.const(1), Iu * sign, Rat.const(-1),
                        Iu * (-sign)][k]
            raise Undecided('np.fft along an axis of length %d' % n)

        def along(arr, ax, n_out, sign, scale, n_in=None):
            arr = _np.moveaxis(arr, ax, -1)
            n = arr.shape[-1] if n_in is None else n_in
            out = _np.empty(arr.shape[:-1] + (n_out,), dtype=object)
            for idx in _np.ndindex(*arr.shape[:-1]):
                for k in range(n_out):
                    tot = Rat.const(0)
                    for j in range(n):
                        tot = tot + arr[idx + (j,)] * root(n, j * k, sign)
                    from . import posalg as PA
                    out[idx + (k,)] = PA.ired(tot * scale)
            return _np.moveaxis(out, -1, ax)
        if s is not None:
            if isinstance(s, NA):
                s = s.a.ravel().tolist()
            s = [int(_const(z)) for z in s]
        if not inverse:
            if v.dt.d.kind == 'c' and real:
                raise PyRaise('TypeError')
            for pos, ax in enumerate(reversed(axes)):
                n = a.shape[ax]
                if s is not None and s[len(axes) - 1 - pos] != n:
                    raise Undecided('np.fft with padding / cropping (s=)')
                n_out = n // 2 + 1 if (real and pos == 0) else n
                a = along(a, ax, n_out, -1, Rat.const(1))
        else:
            for pos, ax in enumerate(axes):
                last = pos == len(axes) - 1
                n_in = a.shape[ax]
                if real and last:
                    n = s[pos] if s is not None else 2 * (n_in - 1)
                    # Hermitian completion of the half spectrum (the
                    # imaginary parts of the self-conjugate entries are
                    # dropped, like NumPy does)
                    from . import posalg as PA
                    arr = _np.moveaxis(a, ax, -1)
                    full = _np.empty(arr.shape[:-1] + (n,), dtype=object)
                    for idx in _np.ndindex(*arr.shape[:-1]):
                        for k in range(n):
                            if k < n_in and k <= n // 2:
                                z = arr[idx + (k,)]
                                if k == 0 or 2 * k == n:
                                    z = PA.real_part(z)
                            elif n - k < n_in:
                                z = PA.conj(arr[idx + (n - k,)])
                            else:
                                z = Rat.const(0)
                            full[idx + (k,)] = z
                    a = _np.moveaxis(full, -1, ax)
                    a = along(a, ax, n, +1, Rat.const(1) / n)
                else:
                    n = a.shape[ax]
                    if s is not None and s[pos] != n:
                        raise Undecided('np.fft with padding / cropping '
                                        '(s=)')
                    a = along(a, ax, n, +1, Rat.const(1) / n)
        if inverse and real:
            from . import posalg as PA
            a = _np.frompyfunc(PA.real_part, 1, 1)(a)
            dt = DT('float32' if v.dt.d == _np.dtype('complex64')
                    else 'float64')
        else:
            dt = DT('complex64' if v.dt.d in (_np.dtype('float32'),
                                              _np.dtype('complex64'))
                    else 'complex128')
        return NA(a, dt)

    def linalg_svd(self, I, v, full_matrices=True, compute_uv=True):
        """Singular value decomposition of stacks of 2 x 2 real matrices.
        Singular values: the closed form
            s = sqrt((S +- sqrt(S^2 - 4 D^2)) / 2),
            S = sum of the squared entries, D = the determinant;
        factors U, Vt: only for diagonal matrices whose entries have a
        decided order (signed permutation matrices)."""
        from . import posalg as PA
        a = self.ratify(v.a)
        if a.ndim < 2 or a.shape[-2:] != (2, 2) or v.dt.d.kind != 'f':
            raise Undecided('np.linalg.svd of shape %r (only stacks of real '
                            '2 x 2 matrices are modelled)' % (a.shape,))
        signs = getattr(self, 'signs', None)
        lead = a.shape[:-2]
        S_ = _np.empty(lead + (2,), dtype=object)
        U = _np.empty(lead + (2, 2), dtype=object)
        Vt = _np.empty(lead + (2, 2), dtype=object)
        zero, one = Rat.const(0), Rat.const(1)
        for idx in _np.ndindex(*lead):
            m = a[idx]
            p, q, r, t = m[0, 0], m[0, 1], m[1, 0], m[1, 1]
            diag = q.is_zero() and r.is_zero()
            if diag:
                try:
                    sp_, st = self.order(I, p, zero), self.order(I, t, zero)
                    ap, at = p * sp_, t * st
                    first = self.order(I, ap, at) >= 0
                except Undecided:
                    diag = False
            if diag:
                # A = U diag(s) Vt with signed unit vectors
                cols = [(0, ap, sp_), (1, at, st)]
                if not first:
                    cols.reverse()
                for k, (j, sv, sg) in enumerate(cols):
                    S_[idx + (k,)] = sv
                    for i in range(2):
                        U[idx + (i, k)] = (one * (sg if sg else 1)
                                           if i == j else zero)
                        Vt[idx + (k, i)] = one if i == j else zero
                continue
            S2 = p * p + q * q + r * r + t * t
            D = p * t - q * r
            inner = PA.root(S2 * S2 - 4 * D * D, 2, signs)
            s1 = PA.root((S2 + inner) / 2, 2, signs)
            # s1 s2 = |det| (no cancellation, unlike the minus branch)
            if PA.reduce_full(s1).n.is_zero():
                s2 = zero
            else:
                s2 = PA.abs_nf(D, signs or PA.Signs()) / s1
            S_[idx + (0,)], S_[idx + (1,)] = s1, s2
            if not compute_uv:
                continue
            # factors of a general matrix with distinct singular values:
            # v1 = eigenvector of A^T A for s1^2, v2 its rotation, u_k =
            # A v_k / s_k (any valid SVD; the pairs (u_k, v_k) are unique
            # up to a joint sign)
            if PA.full_sign(inner, signs or PA.Signs()) != 1:
                raise Undecided('np.linalg.svd factors of a matrix whose '
                                'singular values are not known to differ')
            m00, m01 = p * p + r * r, p * q + r * t
            ev = (m01, s1 * s1 - m00)
            if PA.reduce_full(ev[0]).n.is_zero() and \
                    PA.reduce_full(ev[1]).n.is_zero():
                m11 = q * q + t * t
                ev = (s1 * s1 - m11, m01)
            nv = PA.root(ev[0] * ev[0] + ev[1] * ev[1], 2, signs)
            if PA.reduce_full(nv).n.is_zero():
                raise Undecided('np.linalg.svd factors (degenerate '
                                'eigenvector)')
            v1 = (PA.reduce_full(ev[0] / nv), PA.reduce_full(ev[1] / nv))
            v2 = (-v1[1], v1[0])
            u1 = (PA.reduce_full((p * v1[0] + q * v1[1]) / s1),
                  PA.reduce_full((r * v1[0] + t * v1[1]) / s1))
            if PA.reduce_full(s2).n.is_zero():
                u2 = (-u1[1], u1[0])
            else:
                u2 = (PA.reduce_full((p * v2[0] + q * v2[1]) / s2),
                      PA.reduce_full((r * v2[0] + t * v2[1]) / s2))
            for i in range(2):
                U[idx + (i, 0)], U[idx + (i, 1)] = u1[i], u2[i]
                Vt[idx + (0, i)], Vt[idx + (1, i)] = v1[i], v2[i]
        if not compute_uv:
            return NA(S_, v.dt)
        return (NA(U, v.dt), NA(S_, v.dt), NA(Vt, v.dt))

    def linalg_norm(self, I, v, ord=None, **k):
        raise Undecided('np.linalg.norm (no model in this rule set)')

    def na_attr(self, I, obj, name):
        a = obj.a
        if name == 'shape':
            return a.shape
        if name == 'ndim':
            return a.ndim
        if name == 'size':
            return a.size
        if name == 'dtype':
            return obj.dt
        if name == 'T':
            return NA(a.T, obj.dt)
        if name == 'flags':
            return Flags(a)
        if name == 'base':
            return None if a.base is None else Opaque('base')
        if name == 'strides':
            # byte strides of the array with its nominal dtype (the model
            # array stores one pointer per entry)
            unit = a.itemsize or 1
            return tuple(st // unit * obj.dt.d.itemsize for st in a.strides)
        if name == 'itemsize':
            return obj.dt.d.itemsize
        if name == 'nbytes':
            return obj.dt.d.itemsize * a.size
        if name in ('real', 'imag'):
            if obj.dt.d.kind != 'c':
                if name == 'real':
                    return obj
                z = filled(a.shape, 0, obj.dt)
                z.a.flags.writeable = False
                return z
            dt = DT('float64' if obj.dt.d == _np.dtype('complex128')
                    else 'float32')
            return self.elementwise(I, self.atom1(name), obj, dt=dt)
        if name in ('reshape', 'squeeze', 'ravel', 'transpose', 'swapaxes',
                    'flatten', 'repeat', 'take'):
            def m(*args, **k):
                args = [tuple(x) if isinstance(x, list) else x
                        for x in args]
                try:
                    return NA(getattr(a, name)(*args, **k), obj.dt)
                except (ValueError, IndexError, TypeError) as e:
                    raise _np_err(e)
            return Builtin(name, m)
        if name == 'copy':
            return Builtin('copy', lambda *x, **k: NA(a.copy(), obj.dt))
        if name == 'sort':
            def sort(axis=-1, **k):
                a[...] = self.sorted_array(I, a, axis)
            return Builtin('sort', sort)
        if name == 'astype':
            def astype(dt, order=None, casting='unsafe', copy=True, **k):
                dt = as_dt(dt)
                if not _np.can_cast(obj.dt.d, dt.d, casting):
                    raise PyRaise('TypeError')
                if not copy and dt == obj.dt:
                    return obj
                b = a.copy()
                if dt.d.kind in 'iu' and obj.dt.d.kind == 'f':
                    # float -> int truncates (constants only; symbolic
                    # entries denote integral values)
                    import math as _m
                    for idx in _np.ndindex(*b.shape):
                        v = b[idx]
                        if is_scalar(v) and to_rat(v).is_const():
                            b[idx] = Rat.const(_m.trunc(to_rat(v).constant()))
                return NA(b, dt)
            return Builtin('astype', astype)
        if name == 'view':
            return Builtin('view', lambda *x, **k: NA(a, obj.dt))
        if name == 'item':
            def item(*args):
                try:
                    return a.item(*args)
                except ValueError as e:
                    raise _np_err(e)
            return Builtin('item', item)
        if name == 'tolist':
            return Builtin('tolist', lambda: a.tolist())
        if name == 'fill':
            return Builtin('fill', lambda v: a.fill(v))
        if name in ('sum', 'prod', 'max', 'min', 'mean', 'any', 'all',
                    'cumsum'):
            return Builtin(name, lambda *x, **k: self.reduce(I, name, obj,
                                                             *x, **k))
        if name in ('conj', 'conjugate'):
            return Builtin(name, lambda: self.elementwise(
                I, self.atom1('conj'), obj, dt=obj.dt))
        if name == 'dot':
            return Builtin('dot', lambda o, out=None: Builtin(
                'np.dot', self.np_func(I, 'dot')).fn(obj, o, out=out))
        if name == 'setflags':
            def sf(write=None, **k):
                if write is not None:
                    a.flags.writeable = bool(write)
            return Builtin('setflags', sf)
        return NotImplemented

    def on_subscript(self, interp, obj, idx):
        if isinstance(obj, DTMap):
            r = obj.lookup(idx)
            if r is None:
                raise PyRaise('KeyError')
            return r
        if isinstance(obj, NA):
            try:
                res = obj.a[conv_index(idx)]
            except (IndexError, ValueError, TypeError) as e:
                raise _np_err(e)
            return wrap(res, obj.dt)
        return NotImplemented

    def on_binop(self, interp, op, l, r):
        if isinstance(l, NA) or isinstance(r, NA):
            if isinstance(l, (Opaque,)) or isinstance(r, (Opaque,)):
                return NotImplemented
            if op is ast.MatMult:
                return Builtin('np.matmul', self.np_func(
                    interp, 'matmul')).fn(l, r)
            return self.binop_na(interp, op, l, r)
        return NotImplemented


class NAMixin(object):
    """Interpreter mixin: stores into / in-place updates of NA values and
    elementwise comparisons."""

    def assign(self, t, v, scope, func):
        if isinstance(t, ast.Subscript):
            obj = self.ev(t.value, scope, func)
            if isinstance(obj, NA):
                idx = self._na_index(t.slice, scope, func)
                self.hooks.store(self, obj, idx, v)
                return
        return super(NAMixin, self).assign(t, v, scope, func)

    def _na_index(self, sl, scope, func):
        if isinstance(sl, ast.Slice):
            return slice(
                self.ev(sl.lower, scope, func) if sl.lower else None,
                self.ev(sl.upper, scope, func) if sl.upper else None,
                self.ev(sl.step, scope, func) if sl.step else None)
        if isinstance(sl, ast.Tuple):
            return tuple(self._na_index(e, scope, func) for e in sl.elts)
        if isinstance(sl, ast.Constant) and sl.value is Ellipsis:
            return Ellipsis
        return self.ev(sl, scope, func)

    def augassign(self, s, scope, func):
        cur = self.ev(s.target, scope, func) if not isinstance(
            s.target, ast.Name) else scope.get(s.target.id, self)
        if isinstance(cur, NA):
            v = self.ev(s.value, scope, func)
            res = self.hooks.binop_na(self, type(s.op), cur, v)
            if not _np.can_cast(res.dt.d, cur.dt.d, 'same_kind'):
                raise PyRaise('UFuncTypeError', s)
            if isinstance(s.target, ast.Name) or _np.shares_memory(
                    cur.a, cur.a):
                # in-place: the target array object keeps its identity
                self.hooks.store(self, cur, Ellipsis, res)
                if isinstance(s.target, ast.Subscript):
                    # advanced-index targets are copies: write back
                    obj = self.ev(s.target.value, scope, func)
                    if isinstance(obj, NA) and not _np.shares_memory(
                            obj.a, cur.a):
                        idx = self._na_index(s.target.slice, scope, func)
                        self.hooks.store(self, obj, idx, cur)
                return
        return super(NAMixin, self).augassign(s, scope, func)

    def cmp1(self, op, l, r, node):
        if (isinstance(l, NA) or isinstance(r, NA)) and isinstance(
                op, (ast.Lt, ast.LtE, ast.Gt, ast.GtE, ast.Eq, ast.NotEq)):
            base = super(NAMixin, self).cmp1
            generic = []

            def f(x, y):
                c = base(op, x, y, node)
                if not isinstance(c, bool):
                    generic.append(1)      # decided for generic values only
                return bool(self.truth_value(c, node))
            res = self.hooks.elementwise(self, f, l, r, dt=DT(bool))
            if generic and isinstance(res, NA):
                res.generic = True
            return res
        return super(NAMixin, self).cmp1(op, l, r, node)

    def invert_array(self, v):
        if v.dt.d.kind != 'b':
            raise Undecided('~ on a non-boolean array')
        r = NA(_np.frompyfunc(lambda x: not bool(x), 1, 1)(v.a), v.dt)
        if getattr(v, 'generic', False):
            r.generic = True
        return r

    def truth_value(self, v, node=None):
        if isinstance(v, NA):
            if v.a.size != 1:
                raise PyRaise('ValueError')
            return self.truth_value(v.a.flat[0], node)
        return super(NAMixin, self).truth_value(v, node)

    def subscript(self, obj, sl, scope, func):
        if isinstance(obj, NA):
            idx = self._na_index(sl, scope, func)
            return self.hooks.on_subscript(self, obj, idx)
        return super(NAMixin, self).subscript(obj, sl, scope, func)


class NAInterp(NAMixin, Interp):
    pass
