"""Verdict discipline, reporting and evidence plumbing shared by all checks.

Nothing in here (or in any rule module) imports or executes repository code:
the repository is only ever *parsed* (``ast``).
"""
from __future__ import annotations

import ast
import json
import os
import sys
import time
import traceback

VERIF_DIR = os.path.dirname(os.path.dirname(os.path.abspath(__file__)))
KNOWN_FILE = os.path.join(VERIF_DIR, 'known_findings.json')

HOLDS = 'HOLDS'
VIOLATION = 'VIOLATION'
UNDECIDED = 'UNDECIDED'


class AnalysisError(Exception):
    """The analyser met something it cannot follow (vanished anchor, construct
    outside the modelled subset, instance floor not reached).  Exit code 2;
    never an alarm about the property."""


class Undecided(Exception):
    """Raised inside a rule instance for a construct outside the modelled
    subset.  Caught per instance; becomes an UNDECIDED obligation."""


class _BudgetExceeded(BaseException):
    pass


def with_budget(fn, seconds=None):
    """Run ``fn()`` under a wall-clock budget; a normal form that swells
    ends as Undecided for that instance instead of a check that hangs until
    the global timeout.  Nested use and the global alarm are preserved."""
    import signal
    import threading
    import time
    if seconds is None:
        seconds = int(os.environ.get('VERIF_JOB_TIMEOUT', '0') or 0) or 90
    if threading.current_thread() is not threading.main_thread():
        return fn()

    def _alarm(signum, frame):
        raise _BudgetExceeded()
    old = signal.signal(signal.SIGALRM, _alarm)
    prev = signal.alarm(seconds)
    t0 = time.time()
    try:
        return fn()
    except _BudgetExceeded:
        raise Undecided('the evaluation of this instance exceeded %d s '
                        '(expression swell)' % seconds)
    finally:
        signal.alarm(0)
        signal.signal(signal.SIGALRM, old)
        if prev:
            signal.alarm(max(1, prev - int(time.time() - t0)))


class Ctx(object):
    """One run: repository root, tier, seed, parsed-module cache."""

    def __init__(self, repo='/repo', tier='quick', seed=0):
        self.repo = os.path.abspath(repo)
        self.tier = tier
        self.seed = seed
        self._trees = {}
        self._src = {}
        self.files_read = []

    def path(self, rel):
        return os.path.join(self.repo, rel)

    def src(self, rel):
        if rel not in self._src:
            p = self.path(rel)
            if not os.path.exists(p):
                raise AnalysisError('anchor file vanished: %s' % rel)
            with open(p, 'r', encoding='utf-8') as f:
                self._src[rel] = f.read()
            self.files_read.append(rel)
        return self._src[rel]

    def tree(self, rel):
        if rel not in self._trees:
            try:
                self._trees[rel] = ast.parse(self.src(rel), filename=rel)
            except SyntaxError as e:
                raise AnalysisError('cannot parse %s: %s' % (rel, e))
        return self._trees[rel]

    # ---- small AST lookups used by every rule module -------------------
    def func(self, rel, name):
        """Top-level function ``name`` in module ``rel``."""
        for n in self.tree(rel).body:
            if isinstance(n, (ast.FunctionDef,)) and n.name == name:
                return n
        raise AnalysisError('anchor vanished: function %s in %s' % (name, rel))

    def cls(self, rel, name):
        for n in ast.walk(self.tree(rel)):
            if isinstance(n, ast.ClassDef) and n.name == name:
                return n
        raise AnalysisError('anchor vanished: class %s in %s' % (name, rel))

    def method(self, rel, clsname, name, optional=False):
        c = self.cls(rel, clsname)
        for n in c.body:
            if isinstance(n, ast.FunctionDef) and n.name == name:
                return n
        if optional:
            return None
        raise AnalysisError('anchor vanished: %s.%s in %s'
                            % (clsname, name, rel))

    def module_consts(self, rel):
        """Literal module-level assignments ``NAME = <literal>``."""
        out = {}
        for n in self.tree(rel).body:
            if (isinstance(n, ast.Assign) and len(n.targets) == 1
                    and isinstance(n.targets[0], ast.Name)):
                try:
                    out[n.targets[0].id] = ast.literal_eval(n.value)
                except Exception:
                    pass
        return out


class Report(object):
    """Collects obligations of one property check and turns them into exit
    code, VIOLATION / KNOWN-FINDING lines and the evidence file."""

    def __init__(self, pid, ctx, level, explanation, trusted_base,
                 not_decided):
        self.pid = pid
        self.ctx = ctx
        self.level = level
        self.explanation = explanation
        self.trusted_base = list(trusted_base)
        self.not_decided = list(not_decided)
        self.obl = []          # dicts
        self.diag = []
        self.analysed = {}     # free-form counters
        self.t0 = time.time()
        self.floors = []

    # ---- recording -----------------------------------------------------
    def _add(self, verdict, rule, construct, detail, file=None, line=None,
             extra=None):
        o = {'rule': rule, 'construct': construct, 'verdict': verdict,
             'detail': detail}
        if file:
            o['file'] = file
        if line:
            o['line'] = line
        if extra:
            o.update(extra)
        self.obl.append(o)
        return o

    def holds(self, rule, construct, detail='', **kw):
        return self._add(HOLDS, rule, construct, detail, **kw)

    def violation(self, rule, construct, detail, file=None, line=None, **kw):
        return self._add(VIOLATION, rule, construct, detail, file, line,
                         extra=kw or None)

    def undecided(self, rule, construct, detail, file=None, line=None):
        return self._add(UNDECIDED, rule, construct, detail, file, line)

    def diagnostic(self, text):
        self.diag.append(text)

    def count(self, key, n=1):
        self.analysed[key] = self.analysed.get(key, 0) + n

    def floor(self, rule, what, got, floor):
        """Instance floor: a rule that matches fewer sites than confirmed by
        hand is analysis-broken, not a pass."""
        self.floors.append({'rule': rule, 'what': what, 'got': got,
                            'floor': floor})
        if got < floor:
            raise AnalysisError(
                'rule %s matched %d %s, fewer than the confirmed floor %d'
                % (rule, got, what, floor))

    def instance(self, rule, construct, fn, file=None, line=None):
        """Run one rule instance; map Undecided to an UNDECIDED obligation."""
        try:
            res = fn()
        except Undecided as e:
            self.undecided(rule, construct, str(e), file, line)
            return None
        return res

    # ---- finishing -----------------------------------------------------
    def finish(self):
        known = load_known()
        viol = [o for o in self.obl if o['verdict'] == VIOLATION]
        und = [o for o in self.obl if o['verdict'] == UNDECIDED]
        new, listed = [], []
        for v in viol:
            k = match_known(known, self.pid, v)
            if k is not None:
                v['known_finding'] = k.get('id', True)
                listed.append((v, k))
            else:
                new.append(v)
        replay_dir = os.path.join(VERIF_DIR, 'evidence', 'replay')
        lines = []
        for i, v in enumerate(new):
            os.makedirs(replay_dir, exist_ok=True)
            rp = os.path.join(replay_dir, '%s-%d.json' % (self.pid, i))
            with open(rp, 'w') as f:
                json.dump({'property': self.pid, 'repo': self.ctx.repo,
                           'finding': v}, f, indent=1, default=str)
            loc = '%s:%s' % (v.get('file', '?'), v.get('line', '?'))
            print('VIOLATION property=%s replay=%s' % (self.pid, rp))
            print('  rule=%s-%s construct=%s at %s\n  %s'
                  % (self.pid, v['rule'], v['construct'], loc, v['detail']))
        seen = set()
        for v, k in listed:
            key = (k.get('rule'), k.get('construct'))
            if key in seen:
                continue
            seen.add(key)
            print('KNOWN-FINDING: property=%s rule=%s construct=%s %s'
                  % (self.pid, k.get('rule'), k.get('construct'),
                     k.get('what', '')))
        for u in und:
            print('ANALYSIS-ERROR property=%s rule=%s construct=%s: %s'
                  % (self.pid, u['rule'], u['construct'], u['detail']))
        for d in self.diag:
            print('diagnostic: ' + d)
        self.write_evidence(len(new), len(listed), len(und))
        n_h = sum(1 for o in self.obl if o['verdict'] == HOLDS)
        print('%s: %d obligations, %d hold, %d violations (%d new, %d known),'
              ' %d undecided; %.2fs'
              % (self.pid, len(self.obl), n_h, len(viol), len(new),
                 len(listed), len(und), time.time() - self.t0))
        if new:
            return 1
        if und:
            return 2
        return 0

    def write_evidence(self, n_new, n_known, n_und):
        obl = self.obl
        held = [o for o in obl if o['verdict'] == HOLDS]
        distinct = len({(o['rule'], o['construct']) for o in held})
        # samples: a seed-dependent selection of actual obligations
        samples = []
        if obl:
            step = max(1, len(obl) // 8)
            start = self.ctx.seed % step if step > 1 else 0
            for o in obl[start::step][:10]:
                samples.append({k: o[k] for k in
                                ('rule', 'construct', 'verdict', 'detail',
                                 'file', 'line') if k in o})
        by_rule = {}
        for o in obl:
            d = by_rule.setdefault(o['rule'], {HOLDS: 0, VIOLATION: 0,
                                               UNDECIDED: 0})
            d[o['verdict']] += 1
        cov = {
            'explanation': self.explanation,
            'obligations': len(obl),
            'discharged': len(held),
            'known_findings': n_known,
            'undecided': n_und,
            'checker_cmd': './check %s --tier %s' % (self.pid, self.ctx.tier),
            'trusted_base': self.trusted_base,
            'evaluations': max(1, len(obl)),
            'distinct_nontrivial': distinct,
            'rule': ('one evaluation = one rule instance (obligation) decided '
                     'on a construct of the parsed repository; distinct = '
                     'distinct (rule, construct) pairs with verdict HOLDS; '
                     'every obligation is non-trivial in the sense that it '
                     'is derived from the source and has a mutant in the '
                     'self-test that falsifies it'),
            'samples': samples,
            'programs': max(1, self.analysed.get('programs', len(obl))),
            'disagreements_checked': len(obl),
            'per_rule': by_rule,
            'analysed': self.analysed,
            'floors': self.floors,
            'files_parsed': sorted(set(self.ctx.files_read)),
            'clauses_not_decided': self.not_decided,
            'exhaustive': False,
        }
        ev = {
            'property_id': self.pid,
            'tier': self.ctx.tier if self.ctx.tier in ('quick', 'thorough')
            else 'quick',
            'seed': int(self.ctx.seed),
            'level': self.level,
            'coverage': cov,
            'assumptions': self.trusted_base + [
                'static analysis of the parsed source only; no repository '
                'code is imported or executed'],
            'wall_s': round(time.time() - self.t0, 3),
            'violations': n_new,
        }
        # evidence is only rewritten for runs against the real repository
        if os.environ.get('VERIF_NO_EVIDENCE') == '1':
            return
        d = os.path.join(VERIF_DIR, 'evidence')
        os.makedirs(d, exist_ok=True)
        with open(os.path.join(d, self.pid + '.json'), 'w') as f:
            json.dump(ev, f, indent=1, default=str)


def load_known():
    if not os.path.exists(KNOWN_FILE):
        return {'known': [], 'fixed': []}
    with open(KNOWN_FILE) as f:
        return json.load(f)


def match_known(known, pid, v):
    for k in known.get('known', []):
        if (k.get('property') == pid and k.get('rule') == v['rule']
                and k.get('construct') == v['construct']):
            return k
    return None


def run_check(pid, fn, argv=None):
    """Entry used by ``check``: parse options, run, map exceptions to exit 2."""
    import argparse
    ap = argparse.ArgumentParser()
    ap.add_argument('--tier', default=os.environ.get('VERIF_TIER') or 'quick')
    ap.add_argument('--repo', default='/repo')
    ap.add_argument('--replay', default=None)
    a = ap.parse_args(argv)
    try:
        seed = int(os.environ.get('VERIF_SEED', '0') or 0)
    except ValueError:
        seed = 0
    tier = a.tier if a.tier in ('quick', 'thorough') else 'quick'
    repo = a.repo
    if a.replay:
        try:
            with open(a.replay) as f:
                rp = json.load(f)
            print('replaying %s against %s' % (rp.get('finding', {}), repo))
        except Exception as e:  # pragma: no cover
            print('ANALYSIS-ERROR cannot read replay file: %s' % e)
            return 2
    ctx = Ctx(repo, tier, seed)
    # a check that does not terminate is analysis-broken, not a pass
    try:
        import signal
        limit = int(os.environ.get('VERIF_TIMEOUT', '0') or 0) or (
            3000 if tier == 'thorough' else 1200)

        def _alarm(signum, frame):
            raise AnalysisError('analysis did not finish within %d s'
                                % limit)
        signal.signal(signal.SIGALRM, _alarm)
        signal.alarm(limit)
    except (ImportError, ValueError, AttributeError):
        pass
    try:
        rep = fn(ctx)
        try:
            signal.alarm(0)
        except Exception:
            pass
        return rep.finish()
    except AnalysisError as e:
        print('ANALYSIS-ERROR property=%s: %s' % (pid, e))
        return 2
    except Exception:
        print('ANALYSIS-ERROR property=%s: internal error\n%s'
              % (pid, traceback.format_exc()))
        return 2
