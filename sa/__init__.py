"""Static-analysis checks for the ODL properties (see /verif/DESIGN.md)."""
