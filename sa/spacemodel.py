"""Concrete space / element model for evaluating operator classes on small
tensor spaces: elements hold ``NA`` arrays (symbolic entries, NumPy shape
semantics), spaces carry a dtype and a symbolic weight.  The element and
space API (arithmetic, lincomb, inner, real / imag, ...) is implemented here
as primitives -- its agreement with the repository's own implementation is
what C01 / C02 establish; the rule sets that use this model evaluate
*operator* code on top of it.

Complex numbers are polynomials in the symbol ``I`` (``I**2 = -1``).
"""
from __future__ import annotations

import ast

import numpy as _np

from .core import Undecided
from .ratfun import Rat, satom
from .symex import (Interp, Hooks, Inst, Func, Bound, Builtin, Opaque, Rec,
                    ClassV, TypeV, NPV, NI, ModuleV, PyRaise, is_scalar,
                    to_rat)
from .namodel import (NA, NAHooks, NAMixin, DT, na_of, as_dt, objarr, filled,
                      promote, scalar_dt)
from .opalg import OpHooks, DUNDER
from . import posalg as PA

IU = Rat.var('I')


class NField(object):
    model_eq = True

    def __init__(self, kind):
        self.kind = kind
        self.isinstance_names = (
            ('RealNumbers' if kind == 'R' else 'ComplexNumbers'), 'Field',
            'Set')

    def __eq__(self, o):
        return isinstance(o, NField) and o.kind == self.kind

    def __hash__(self):
        return hash(('NField', self.kind))

    def __repr__(self):
        return 'Field(%s)' % self.kind


class NSpace(object):
    isinstance_names = ('NumpyTensorSpace', 'TensorSpace', 'LinearSpace',
                        'Set')
    model_eq = True

    def __init__(self, shape, dt='float64', weight=None, exponent=2,
                 name=None, cell_volume=None, cell_sides=None):
        # `cell_sides` not None: a uniformly discretized space (isinstance
        # DiscretizedSpace) with these symbolic cell sides
        self.cell_sides = cell_sides
        if cell_sides is not None:
            self.isinstance_names = ('DiscretizedSpace',) + \
                NSpace.isinstance_names
            if cell_volume is None:
                cell_volume = Rat.const(1)
                for h in cell_sides:
                    cell_volume = cell_volume * to_rat(h)
        # `cell_volume` not None: a DiscretizedSpace-like space exposing
        # that attribute (default weighting there: weight == cell_volume)
        self.cell_volume = cell_volume
        self.shape = tuple(shape)
        self.dt = as_dt(dt)
        self.weight = Rat.const(1) if weight is None else weight
        self.exponent = exponent
        self.name = name or 'sp'
        self._twins = {}

    @property
    def is_real(self):
        return self.dt.d.kind == 'f'

    @property
    def is_complex(self):
        return self.dt.d.kind == 'c'

    def twin(self, real):
        """The real / complex counterpart (same shape and weighting)."""
        if real == self.is_real:
            return self
        key = 'R' if real else 'C'
        if key not in self._twins:
            t = NSpace(self.shape, 'float64' if real else 'complex128',
                       self.weight, self.exponent, self.name,
                       self.cell_volume, self.cell_sides)
            t._twins['C' if real else 'R'] = self
            self._twins[key] = t
        return self._twins[key]

    def __eq__(self, o):
        if not isinstance(o, NSpace):
            return False
        if self.shape != o.shape or self.dt != o.dt:
            return False
        a, b = self.weight, o.weight
        if isinstance(a, NA) or isinstance(b, NA):
            if a is b:
                return True
            if not (isinstance(a, NA) and isinstance(b, NA)) or \
                    a.a.shape != b.a.shape:
                return False
            return all((to_rat(p) - to_rat(q)).is_zero()
                       for p, q in zip(a.a.flat, b.a.flat))
        return (to_rat(a) - to_rat(b)).is_zero()

    def __ne__(self, o):
        return not self == o

    def __hash__(self):
        return hash(('NSpace', self.shape, self.dt))

    def __repr__(self):
        return '%sn%s[w=%r]' % ('r' if self.is_real else 'c', self.shape,
                                self.weight)

    def __len__(self):
        return self.shape[0]


class NPSpace(object):
    """Product space of NSpace / NPSpace parts with per-part weights."""
    isinstance_names = ('ProductSpace', 'LinearSpace', 'Set')
    model_eq = True

    def __init__(self, parts, weights=None, name=None):
        self.parts = list(parts)
        self.weights = weights or [Rat.const(1)] * len(self.parts)
        self.name = name or 'ps'

    @property
    def is_real(self):
        return all(p.is_real for p in self.parts)

    @property
    def is_complex(self):
        return all(p.is_complex for p in self.parts)

    def __eq__(self, o):
        return isinstance(o, NPSpace) and len(o.parts) == len(self.parts) \
            and all(a == b for a, b in zip(self.parts, o.parts)) and all(
                (to_rat(a) - to_rat(b)).is_zero()
                for a, b in zip(self.weights, o.weights))

    def __ne__(self, o):
        return not self == o

    def __hash__(self):
        return hash(('NPSpace', len(self.parts)))

    def __len__(self):
        return len(self.parts)

    def __repr__(self):
        return 'PS%r' % (self.parts,)


class NElem(object):
    isinstance_names = ('NumpyTensor', 'Tensor', 'LinearSpaceElement')

    def __init__(self, space, data):
        self.space = space
        self.data = data

    def __repr__(self):
        return 'Elem(%r)' % (self.data.a.tolist(),)


_EW_UFUNCS = frozenset((
    'log', 'exp', 'sqrt', 'abs', 'absolute', 'sign', 'sin', 'cos', 'tan',
    'sinh', 'cosh', 'tanh', 'arctan', 'arcsin', 'square', 'negative',
    'reciprocal', 'add', 'subtract', 'multiply', 'divide', 'true_divide',
    'power', 'maximum', 'minimum', 'log2', 'log10', 'expm1', 'log1p'))


class UfuncsV(object):
    """`x.ufuncs` of a model element."""

    def __init__(self, elem):
        self.elem = elem


class NPElem(object):
    isinstance_names = ('ProductSpaceElement', 'LinearSpaceElement')

    def __init__(self, space, parts):
        self.space = space
        self.parts = list(parts)

    def model_iter(self):
        return list(self.parts)

    def __len__(self):
        return len(self.parts)


def _c(x):
    if isinstance(x, int):
        return x
    r = to_rat(x)
    return int(r.constant())


def red_arr(a):
    out = _np.empty(a.shape, dtype=object)
    for idx in _np.ndindex(*a.shape):
        v = a[idx]
        out[idx] = PA.ired(to_rat(v)) if is_scalar(v) else v
    return out


def sym_elem(space, name):
    if isinstance(space, NPSpace):
        return NPElem(space, [sym_elem(p, '%s%d' % (name, i))
                              for i, p in enumerate(space.parts)])
    a = _np.empty(space.shape, dtype=object)
    for idx in _np.ndindex(*space.shape):
        s = ''.join(str(i) for i in idx)
        v = Rat.var(name + s)
        if space.is_complex:
            v = v + IU * Rat.var(name + 'i' + s)
        a[idx] = v
    return NElem(space, NA(a, space.dt))


def garbage_elem(space, tag='garbage'):
    if isinstance(space, NPSpace):
        return NPElem(space, [garbage_elem(p, '%s%d' % (tag, i))
                              for i, p in enumerate(space.parts)])
    a = _np.empty(space.shape, dtype=object)
    for idx in _np.ndindex(*space.shape):
        a[idx] = Rat.var('%s_%s' % (tag, ''.join(str(i) for i in idx)))
    return NElem(space, NA(a, space.dt))


_ELEM_DUNDERS = {}
for _nm, _op in (('add', ast.Add), ('sub', ast.Sub), ('mul', ast.Mult),
                 ('div', ast.Div), ('truediv', ast.Div)):
    for _k in ('', 'r', 'i'):
        _ELEM_DUNDERS['__%s%s__' % (_k, _nm)] = (_k, _op)


class BoolElem(object):
    """A boolean-valued element (result of a comparison ufunc)."""

    def __init__(self, space, data):
        self.space, self.data = space, data

    def invert(self, out=None):
        r = NA(_np.frompyfunc(lambda v: not bool(v), 1, 1)(self.data.a),
               self.data.dt)
        if out is None:
            return BoolElem(self.space, r)
        out.data = r
        return out


class NotAnElement(Exception):
    """An evaluated call produced something that is not a space element."""


def flat(e):
    """All entries of an element (product elements concatenated)."""
    if not isinstance(e, (NElem, NPElem)):
        raise NotAnElement('%r is not a space element' % (e,))
    if isinstance(e, NPElem):
        out = []
        for p in e.parts:
            out.extend(flat(p))
        return out
    return [PA.ired(to_rat(v)) for v in e.data.a.ravel()]


def inner(x, y):
    """<x, y> of the model space (weighted, conjugate-linear in y)."""
    for e in (x, y):
        if not isinstance(e, (NElem, NPElem)):
            raise NotAnElement('%r is not a space element' % (e,))
    sp = x.space
    if isinstance(sp, NPSpace):
        tot = Rat.const(0)
        for w, a, b in zip(sp.weights, x.parts, y.parts):
            tot = tot + to_rat(w) * inner(a, b)
        return PA.ired(tot)
    w = sp.weight
    tot = Rat.const(0)
    xs, ys = x.data.a.ravel(), y.data.a.ravel()
    ws = w.a.ravel() if isinstance(w, NA) else [w] * len(xs)
    for a, b, ww in zip(xs, ys, ws):
        tot = tot + to_rat(ww) * PA.ired(to_rat(a) * PA.conj(to_rat(b)))
    return PA.ired(tot)


class SMHooks(NAHooks, OpHooks):
    def __init__(self):
        OpHooks.__init__(self)
        self.signs = PA.Signs()

    # ---- Operator.__init__ primitive: accept the model spaces --------------
    def operator_init(self, interp, inst, args, kwargs):
        names = ['domain', 'range', 'linear']
        vals = {'linear': False}
        for n, a in zip(names, args):
            vals[n] = a
        vals.update(kwargs)
        for k in ('domain', 'range'):
            if not isinstance(vals.get(k), (NSpace, NPSpace, NField)):
                raise PyRaise('TypeError')
        lin = vals['linear']
        if not isinstance(lin, bool):
            lin = interp.truth_value(lin)
        inst.attrs['_Operator__domain'] = vals['domain']
        inst.attrs['_Operator__range'] = vals['range']
        inst.attrs['_Operator__is_linear'] = bool(lin)
        inst.attrs['_Operator__is_functional'] = isinstance(vals['range'],
                                                            NField)

    # ---- element construction ---------------------------------------------------
    def element(self, I, sp, inp=None, **k):
        if isinstance(sp, NPSpace):
            if inp is None:
                return garbage_elem(sp)
            if isinstance(inp, NPElem) and inp.space == sp:
                return inp
            parts = I.seq(inp)
            if len(parts) != len(sp.parts):
                raise PyRaise('ValueError')
            return NPElem(sp, [self.element(I, p, q)
                               for p, q in zip(sp.parts, parts)])
        if inp is None:
            return garbage_elem(sp)
        if isinstance(inp, NElem):
            if inp.space == sp:
                return inp
            inp = inp.data
        if is_scalar(inp):
            raise PyRaise('ValueError') if sp.shape != () else None
        arr = na_of(inp)
        if arr.a.shape != sp.shape:
            raise PyRaise('ValueError')
        if arr.dt.d.kind == 'c' and sp.is_real:
            raise PyRaise('TypeError')
        if arr.dt == sp.dt:
            return NElem(sp, arr)
        return NElem(sp, NA(arr.a.copy(), sp.dt))

    def const_elem(self, sp, c):
        if isinstance(sp, NPSpace):
            return NPElem(sp, [self.const_elem(p, c) for p in sp.parts])
        return NElem(sp, filled(sp.shape, c, sp.dt))

    def weighting_rec(self, sp):
        if isinstance(sp, NPSpace):
            return Rec('ProductSpaceArrayWeighting',
                       array=NA(objarr(list(sp.weights)), 'float64'),
                       exponent=Rat.const(2))
        if isinstance(sp.weight, NA):
            return Rec('NumpyTensorSpaceArrayWeighting', array=sp.weight,
                       exponent=Rat.const(sp.exponent))
        return Rec('NumpyTensorSpaceConstWeighting', const=sp.weight,
                   exponent=Rat.const(sp.exponent))

    # ---- arithmetic primitives ------------------------------------------------------
    def ew(self, I, op, l, r):
        """Elementwise op on elements / arrays / scalars -> NA or list."""
        if isinstance(l, NPElem) or isinstance(r, NPElem):
            n = len(l.parts) if isinstance(l, NPElem) else len(r.parts)
            lp = l.parts if isinstance(l, NPElem) else [l] * n
            rp = r.parts if isinstance(r, NPElem) else [r] * n
            return [self.ew(I, op, a, b) for a, b in zip(lp, rp)]
        la = l.data if isinstance(l, NElem) else l
        ra = r.data if isinstance(r, NElem) else r
        res = self.binop_na(I, op, la, ra)
        res.a = red_arr(res.a)
        return res

    def wrap_like(self, sp, res):
        if isinstance(sp, NPSpace):
            return NPElem(sp, [self.wrap_like(p, q)
                               for p, q in zip(sp.parts, res)])
        if res.dt.d.kind == 'c' and sp.is_real:
            raise PyRaise('TypeError')
        return NElem(sp, NA(res.a, sp.dt))

    def write(self, I, out, res):
        """out[:] = res (in place, keeps the array objects)."""
        if isinstance(out, NPElem):
            rs = res.parts if isinstance(res, NPElem) else res
            for o, q in zip(out.parts, rs):
                self.write(I, o, q)
            return
        src = res.data if isinstance(res, NElem) else res
        if isinstance(src, NA) and src.dt.d.kind == 'c' and \
                out.space.is_real:
            raise PyRaise('TypeError')
        self.store(I, out.data, Ellipsis, src)
        self.sync_view(out)

    def sync_view(self, e):
        """`x.real` / `x.imag` of a complex element are views: a write into
        them changes the element they were taken from."""
        v = getattr(e, 'view_of', None)
        if v is None:
            return
        base, part = v
        for idx in _np.ndindex(*base.data.a.shape):
            old = PA.ired(to_rat(base.data.a[idx]))
            new = PA.ired(to_rat(e.data.a[idx]))
            if part == 'real':
                base.data.a[idx] = PA.ired(new + IU * PA.imag_part(old))
            else:
                base.data.a[idx] = PA.ired(PA.real_part(old) + IU * new)
        self.sync_view(base)

    def lincomb(self, I, sp, a, x1, b=None, x2=None, out=None):
        if out is None:
            out = garbage_elem(sp)
        t = self.ew(I, ast.Mult, a, x1)
        if x2 is not None:
            t2 = self.ew(I, ast.Mult, b, x2)
            t = self._addres(I, t, t2)
        self.write(I, out, t)
        return out

    def _addres(self, I, a, b):
        if isinstance(a, list):
            return [self._addres(I, p, q) for p, q in zip(a, b)]
        r = self.binop_na(I, ast.Add, a, b)
        r.a = red_arr(r.a)
        return r

    # ---- attribute protocol --------------------------------------------------------
    def on_getattr(self, interp, obj, name):
        I = interp
        if isinstance(obj, BoolElem):
            if name == 'ufuncs':
                return Rec('boolufuncs', logical_not=Builtin(
                    'logical_not', lambda out=None: obj.invert(out)))
            if name in ('data', 'asarray'):
                return obj.data if name == 'data' else Builtin(
                    'asarray', lambda: obj.data)
            raise PyRaise('AttributeError')
        if isinstance(obj, (NSpace, NPSpace)):
            r = self.space_attr(I, obj, name)
            if r is not NotImplemented:
                return r
        if isinstance(obj, (NElem, NPElem)):
            r = self.elem_attr(I, obj, name)
            if r is not NotImplemented:
                return r
        if isinstance(obj, UfuncsV):
            return self.ufunc_attr(I, obj.elem, name)
        if isinstance(obj, NField):
            if name == 'element':
                return Builtin('field.element', lambda v=0: PA.ired(to_rat(
                    v.a.flat[0] if isinstance(v, NA) else v)))
            if name in ('is_real',):
                return obj.kind == 'R'
            if name == 'field':
                return obj
            raise PyRaise('AttributeError')
        if isinstance(obj, Rec):
            if name in obj.attrs:
                return obj.attrs[name]
            raise PyRaise('AttributeError')
        if is_scalar(obj):
            r = to_rat(obj)
            if name == 'real':
                return PA.real_part(r)
            if name == 'imag':
                return PA.imag_part(r)
            if name in ('conjugate', 'conj'):
                return Builtin('conjugate', lambda: PA.conj(r))
            if name in ('T', 'space', 'inner', 'norm', 'ufuncs', 'asarray'):
                # a plain number is not a space element
                raise PyRaise('AttributeError')
        r = OpHooks.on_getattr(self, interp, obj, name)
        if r is not NotImplemented:
            return r
        return NAHooks.on_getattr(self, interp, obj, name)

    def space_attr(self, I, sp, name):
        isp = isinstance(sp, NPSpace)
        if name == 'element':
            return Builtin('space.element',
                           lambda *a, **k: self.element(I, sp, *a, **k))
        if name == 'zero':
            return Builtin('zero', lambda: self.const_elem(sp, 0))
        if name == 'one':
            return Builtin('one', lambda: self.const_elem(sp, 1))
        if name == 'field':
            return NField('R' if sp.is_real else 'C')
        if name in ('is_real', 'is_complex'):
            return getattr(sp, name)
        if name == 'real_space':
            if isp:
                return NPSpace([p.twin(True) for p in sp.parts], sp.weights)
            return sp.twin(True)
        if name == 'complex_space':
            if isp:
                return NPSpace([p.twin(False) for p in sp.parts], sp.weights)
            return sp.twin(False)
        if name == 'weighting':
            return self.weighting_rec(sp)
        if name == 'is_weighted':
            if isp:
                return any(not (to_rat(w) - 1).is_zero() for w in sp.weights)
            return isinstance(sp.weight, NA) or not (
                to_rat(sp.weight) - 1).is_zero()
        if name == 'exponent':
            return Rat.const(2)
        if name == 'lincomb':
            return Builtin('space.lincomb', lambda a, x1, b=None, x2=None,
                           out=None: self.lincomb(I, sp, a, x1, b, x2, out))
        if name in ('multiply', 'divide'):
            op = ast.Mult if name == 'multiply' else ast.Div

            def md(x1, x2, out=None):
                res = self.ew(I, op, x1, x2)
                if out is None:
                    return self.wrap_like(sp, res)
                self.write(I, out, res)
                return out
            return Builtin('space.' + name, md)
        if name == 'inner':
            return Builtin('space.inner', lambda a, b: inner(a, b))
        if name == 'norm':
            return Builtin('space.norm', lambda a: PA.root(
                PA.real_part(inner(a, a)), 2, self.signs))
        if name == 'dist':
            return Builtin('space.dist', lambda a, b: self.elem_attr(
                I, self.wrap_like(sp, self.ew(I, ast.Sub, a, b)),
                'norm').fn())
        if isp:
            if name == 'spaces':
                return tuple(sp.parts)
            if name == 'is_power_space':
                return all(p == sp.parts[0] for p in sp.parts)
            if name == 'size':
                # ProductSpace.size: product of the shape, which includes
                # the shape of the parts for power spaces only
                n = 1
                for k in self.space_attr(I, sp, 'shape'):
                    n *= k
                return n if sp.parts else 0
            if name == 'shape':
                if sp.parts and all(p == sp.parts[0] for p in sp.parts):
                    sub = self.space_attr(I, sp.parts[0], 'shape')
                    return (len(sp.parts),) + tuple(sub)
                return (len(sp.parts),)
            if name == 'dtype':
                dts = [self.space_attr(I, q, 'dtype') for q in sp.parts]
                if not dts:
                    return None
                if all(d == dts[0] for d in dts):
                    return dts[0]
                raise PyRaise('AttributeError')
            return NotImplemented
        if name == 'shape':
            return sp.shape
        if name == 'ndim':
            return len(sp.shape)
        if name == 'size':
            n = 1
            for s in sp.shape:
                n *= s
            return n
        if name == 'dtype':
            return sp.dt
        if name == 'real_dtype':
            return DT('float64')
        if name == 'complex_dtype':
            return DT('complex128')
        if name == 'astype':
            def astype(dt):
                k = as_dt(dt).d.kind
                if k == sp.dt.d.kind and as_dt(dt) != sp.dt:
                    # another precision of the same kind
                    return NSpace(sp.shape, dt, sp.weight, sp.exponent,
                                  sp.name, sp.cell_volume, sp.cell_sides)
                if k == 'f':
                    return sp.twin(True)
                if k == 'c':
                    return sp.twin(False)
                raise Undecided('astype(%r)' % (dt,))
            return Builtin('astype', astype)
        if name == 'element_type':
            from .symex import ClassV
            return ClassV(I.model.get('NumpyTensor'))
        if name == 'impl':
            return 'numpy'
        if name == 'default_order':
            return 'C'
        if name == 'cell_volume' and sp.cell_volume is not None:
            return sp.cell_volume
        if name == 'cell_sides' and sp.cell_sides is not None:
            return NA(objarr(list(sp.cell_sides)), 'float64')
        if name in ('cell_volume', 'partition', 'grid', 'cell_sides'):
            raise PyRaise('AttributeError')
        return NotImplemented

    def elem_attr(self, I, x, name):
        sp = x.space
        isp = isinstance(x, NPElem)
        if name == 'space':
            return sp
        if name == 'copy':
            return Builtin('copy', lambda: self.copy(x))
        if name in _ELEM_DUNDERS:
            # the arithmetic dunders of LinearSpaceElement as bound methods
            # (their agreement with the operators is C01-R3)
            kind, op = _ELEM_DUNDERS[name]

            def dunder(other):
                if not (is_scalar(other) or isinstance(other, (NElem,
                                                               NPElem))):
                    return NotImplemented
                if isinstance(other, (NElem, NPElem)) and not (
                        other.space == sp):
                    return NotImplemented
                if kind == 'r':
                    return I.binop(op, other, x)
                if kind == 'i':
                    self.write(I, x, self.ew(I, op, x, other))
                    return x
                return I.binop(op, x, other)
            return Builtin(name, dunder)
        if name == 'assign':
            return Builtin('assign', lambda o: self.write(I, x, o))
        if name == 'set_zero':
            return Builtin('set_zero', lambda: self.write(
                I, x, self.const_elem(sp, 0)))
        if name == 'lincomb':
            return Builtin('lincomb', lambda a, x1, b=None, x2=None:
                           self.lincomb(I, sp, a, x1, b, x2, x))
        if name == 'inner':
            return Builtin('inner', lambda o: inner(x, self.element(
                I, sp, o)))
        if name == 'norm':
            return Builtin('norm', lambda: PA.root(PA.real_part(
                inner(x, x)), 2, self.signs))
        if name == 'dist':
            return Builtin('dist', lambda o: self.space_attr(
                I, sp, 'dist').fn(x, o))
        if name in ('multiply', 'divide'):
            return Builtin(name, lambda o, out=None: self.space_attr(
                I, sp, name).fn(x, o, out))
        if name in ('conj', 'conjugate'):
            def conj(out=None):
                res = self.map(x, PA.conj)
                if out is None:
                    return res
                self.write(I, out, res)
                return out
            return Builtin('conj', conj)
        if name == 'real':
            if sp.is_real:
                return x
            r = self.map(x, PA.real_part, real=True)
            if isinstance(r, NElem):
                r.view_of = (x, 'real')
            return r
        if name == 'imag':
            if sp.is_real:
                return self.const_elem(sp, 0)
            r = self.map(x, PA.imag_part, real=True)
            if isinstance(r, NElem):
                r.view_of = (x, 'imag')
            return r
        if name == 'dtype':
            return sp.parts[0].dt if isp else sp.dt
        if name == 'T':
            ci = I.model.get('InnerProductOperator')
            return I.instantiate(ci, [x], {})
        if name == 'ufuncs':
            return UfuncsV(x)
        if isp:
            if name == 'parts':
                return tuple(x.parts)
            if name in ('size', 'shape'):
                return self.space_attr(I, sp, name)
            return NotImplemented
        if name == 'data':
            return x.data
        if name == 'asarray':
            def asarray(out=None):
                if out is None:
                    return x.data
                self.store(I, out, Ellipsis, x.data)
                return out
            return Builtin('asarray', asarray)
        if name in ('shape', 'size', 'ndim'):
            return self.space_attr(I, sp, name)
        if name == '__array__':
            return Builtin('__array__', lambda dt=None: x.data)
        return NotImplemented

    # ---- x.ufuncs.<name>: the element API of the ufuncs as primitives (the
    # dispatch machinery itself is property C17) ---------------------------
    def ufunc_attr(self, I, x, name):
        H = self
        if name in ('less_equal', 'less', 'greater_equal', 'greater',
                    'equal', 'not_equal') and isinstance(x, NElem):
            cop = {'less_equal': ast.LtE, 'less': ast.Lt,
                   'greater_equal': ast.GtE, 'greater': ast.Gt,
                   'equal': ast.Eq, 'not_equal': ast.NotEq}[name]()

            def cmp_(other, out=None):
                if out is not None:
                    raise Undecided('comparison ufunc with out')
                o = other.data if isinstance(other, NElem) else other
                r = I.cmp1(cop, x.data, o, None)
                return BoolElem(x.space, r)
            return Builtin('ufuncs.' + name, cmp_)
        if name in ('sum', 'prod', 'max', 'min'):
            def red(**k):
                if k.get('axis') is not None or k.get('out') is not None:
                    raise Undecided('ufuncs.%s with axis / out' % name)
                vals = flat(x)
                acc = vals[0]
                for v in vals[1:]:
                    if name == 'sum':
                        acc = acc + v
                    elif name == 'prod':
                        acc = acc * v
                    else:
                        acc = H.maxmin(I, name, acc, v)
                return PA.ired(acc)
            return Builtin('ufuncs.' + name, red)
        if name in ('power', 'multiply', 'add', 'subtract', 'divide',
                    'true_divide', 'maximum', 'minimum'):
            def bin_(other, out=None):
                def f2(a, b):
                    a, b = to_rat(a), to_rat(b)
                    if name == 'power':
                        if not b.is_const():
                            raise Undecided('symbolic exponent')
                        return PA.pow_q(a, b.constant(), H.signs)
                    if name in ('maximum', 'minimum'):
                        return H.maxmin(I, name[:3], a, b)
                    return {'multiply': a * b, 'add': a + b,
                            'subtract': a - b}.get(name, None) \
                        if name in ('multiply', 'add', 'subtract') \
                        else a / b
                res = H.zipmap(x, other, f2)
                if out is None:
                    return res
                H.write(I, out, res)
                return out
            return Builtin('ufuncs.' + name, bin_)
        f1 = H.atom1(name)

        def un(out=None):
            res = H.map(x, f1)
            if out is None:
                return res
            H.write(I, out, res)
            return out
        return Builtin('ufuncs.' + name, un)

    def zipmap(self, x, other, f):
        if isinstance(x, NPElem):
            os_ = other.parts if isinstance(other, NPElem) else \
                [other] * len(x.parts)
            return NPElem(x.space, [self.zipmap(p, q, f)
                                    for p, q in zip(x.parts, os_)])
        oa = other.data if isinstance(other, NElem) else other
        oa = _np.broadcast_to(na_of(oa).a, x.data.a.shape)
        a = _np.empty(x.data.a.shape, dtype=object)
        for idx in _np.ndindex(*a.shape):
            a[idx] = PA.ired(f(x.data.a[idx], oa[idx]))
        return NElem(x.space, NA(a, x.space.dt))

    def copy(self, x):
        if isinstance(x, NPElem):
            return NPElem(x.space, [self.copy(p) for p in x.parts])
        return NElem(x.space, NA(x.data.a.copy(), x.data.dt))

    def map(self, x, f, real=False):
        if isinstance(x, NPElem):
            parts = [self.map(p, f, real) for p in x.parts]
            sp = NPSpace([p.space for p in parts], x.space.weights)
            return NPElem(sp, parts)
        a = _np.empty(x.data.a.shape, dtype=object)
        for idx in _np.ndindex(*a.shape):
            a[idx] = f(PA.ired(to_rat(x.data.a[idx])))
        sp = x.space.twin(True) if real else x.space
        return NElem(sp, NA(a, sp.dt))

    # ---- element attribute stores: x.real = v, x.imag = v ---------------------------
    def setattr_elem(self, I, x, name, v):
        if name not in ('real', 'imag'):
            raise Undecided('attribute store %s on an element' % name)
        if isinstance(x, NPElem):
            vs_ = v.parts if isinstance(v, NPElem) else [v] * len(x.parts)
            for p, q in zip(x.parts, vs_):
                self.setattr_elem(I, p, name, q)
            return
        if x.space.is_real:
            if name == 'imag':
                raise PyRaise('ValueError')
            self.write(I, x, v)
            return
        src = v.data if isinstance(v, NElem) else v
        src = _np.broadcast_to(na_of(src).a, x.data.a.shape)
        for idx in _np.ndindex(*x.data.a.shape):
            old = PA.ired(to_rat(x.data.a[idx]))
            new = PA.ired(to_rat(src[idx]))
            if 'I' in new.vars():
                raise PyRaise('TypeError')     # complex into a real part
            if name == 'real':
                x.data.a[idx] = PA.ired(new + IU * PA.imag_part(old))
            else:
                x.data.a[idx] = PA.ired(PA.real_part(old) + IU * new)

    # ---- operators ---------------------------------------------------------------------
    def on_binop(self, interp, op, l, r):
        I = interp
        res = OpHooks.on_binop(self, interp, op, l, r)
        if res is not NotImplemented:
            return res
        le, re_ = isinstance(l, (NElem, NPElem)), isinstance(r, (NElem,
                                                                  NPElem))
        if le or re_:
            sp = l.space if le else r.space
            if le and re_ and not (l.space == r.space):
                raise PyRaise('LinearSpaceTypeError')
            return self.wrap_like(sp, self.ew(I, op, l, r))
        if is_scalar(l) and is_scalar(r) and op in (ast.Mult, ast.Add,
                                                    ast.Sub, ast.Div):
            a, b = to_rat(l), to_rat(r)
            if 'I' in a.vars() or 'I' in b.vars():
                if op is ast.Div:
                    # 1 / (a + I b) = conj / |.|^2
                    d = PA.ired(b * PA.conj(b))
                    return PA.ired(a * PA.conj(b)) / d
                f = {ast.Mult: lambda: a * b, ast.Add: lambda: a + b,
                     ast.Sub: lambda: a - b}[op]
                return PA.ired(f())
        return NAHooks.on_binop(self, interp, op, l, r)

    def on_subscript(self, interp, obj, idx):
        if isinstance(idx, BoolElem):
            idx = idx.data
        if isinstance(obj, NPElem):
            if isinstance(idx, tuple) and idx and all(
                    isinstance(i, int) for i in idx):
                sub = self.on_subscript(interp, obj, idx[0])
                if len(idx) == 1:
                    return sub
                return self.on_subscript(interp, sub, idx[1:] if len(idx) > 2
                                         else idx[1])
            if isinstance(idx, int):
                try:
                    return obj.parts[idx]
                except IndexError:
                    raise PyRaise('IndexError')
            if isinstance(idx, slice):
                # ProductSpaceElement.__getitem__: element of the sliced
                # space sharing the parts
                return NPElem(NPSpace(obj.space.parts[idx],
                                      obj.space.weights[idx]),
                              obj.parts[idx])
            if isinstance(idx, (NElem, NPElem, NA)) or \
                    type(idx).__name__ == 'BoolElem' or idx is None or \
                    isinstance(idx, (str, float)):
                # ProductSpaceElement.__getitem__ accepts integers,
                # slices, lists and tuples only
                raise PyRaise('TypeError')
            raise Undecided('product element index %r' % (idx,))
        if isinstance(obj, (NPSpace, NPElem)) and isinstance(idx, tuple) \
                and idx and all(isinstance(i, int) for i in idx):
            # drilling down: self[i, j] = self[i][j]
            sub = self.on_subscript(interp, obj, idx[0])
            if len(idx) == 1:
                return sub
            return self.on_subscript(interp, sub, idx[1:] if len(idx) > 2
                                     else idx[1])
        if isinstance(obj, NPSpace) and isinstance(idx, int):
            try:
                return obj.parts[idx]
            except IndexError:
                raise PyRaise('IndexError')
        if isinstance(obj, NPSpace) and isinstance(idx, slice):
            return NPSpace(obj.parts[idx], obj.weights[idx])
        if isinstance(obj, NElem):
            r = NAHooks.on_subscript(self, interp, obj.data, idx)
            return r
        return NAHooks.on_subscript(self, interp, obj, idx)

    def np_func(self, I, name):
        H = self
        if name in ('conj', 'conjugate'):
            base = NAHooks.np_func(self, I, name)

            def conj(v, **k):
                if isinstance(v, (NElem, NPElem)):
                    return H.map(v, PA.conj)
                if is_scalar(v):
                    return PA.conj(to_rat(v))
                return base(v, **k)
            return conj
        if name == 'isscalar':
            return lambda v: is_scalar(v)
        f = NAHooks.np_func(self, I, name)
        if f is None or not callable(f) or isinstance(f, Opaque):
            return f

        def g(*a, **k):
            un = lambda x: x.data if isinstance(x, NElem) else x
            res = f(*[un(x) for x in a], **{kk: un(v) for kk, v in
                                           k.items()})
            if name in _EW_UFUNCS and k.get('out') is None and isinstance(
                    res, NA) and res.dt.d.kind in 'fc':
                # Tensor.__array_ufunc__: an elementwise ufunc applied to
                # an element gives an element (C17 decides that protocol)
                for x in a:
                    if isinstance(x, NElem) and x.space.shape == res.a.shape:
                        sp = x.space.twin(res.dt.d.kind == 'f')
                        return NElem(sp, NA(red_arr(res.a), sp.dt))
            return res
        return g

    def atom1(self, name):
        if name in ('conj', 'conjugate'):
            return lambda x: PA.conj(to_rat(x))
        if name == 'real':
            return lambda x: PA.real_part(to_rat(x))
        if name == 'imag':
            return lambda x: PA.imag_part(to_rat(x))
        if name in ('abs', 'absolute'):
            return lambda x: PA.abs_nf(to_rat(x), self.signs)
        if name == 'sqrt':
            return lambda x: PA.root(to_rat(x), 2, self.signs)
        if name in ('isfinite', 'isnan', 'isinf'):
            # entries and parameters of the model are finite numbers
            return lambda x: name == 'isfinite'
        return NAHooks.atom1(self, name)

    def on_call(self, interp, f, args, kwargs, node):
        r = OpHooks.on_call(self, interp, f, args, kwargs, node)
        if r is not NotImplemented:
            return r
        if isinstance(f, ModuleV) and f.name.endswith('isspmatrix'):
            return False
        if isinstance(f, Func) and f.name == 'tensor_space':
            shape = args[0] if args else kwargs.get('shape')
            if isinstance(shape, int):
                shape = (shape,)
            dt = kwargs.get('dtype', args[1] if len(args) > 1 else None)
            w = kwargs.get('weighting')
            if isinstance(w, Rec):
                w = w.attrs.get('const', w.attrs.get('array'))
            return NSpace(tuple(_c(x) for x in shape),
                          'float64' if dt is None else dt, w)
        if isinstance(f, ClassV) and f.ci.name == 'ProductSpace':
            sp = list(args)
            if len(sp) == 2 and isinstance(sp[1], int):
                sp = [sp[0]] * sp[1]
            if kwargs.get('exponent') is not None:
                raise Undecided('ProductSpace with explicit exponent')
            if not all(isinstance(x, (NSpace, NPSpace)) for x in sp):
                raise PyRaise('TypeError')
            w = kwargs.get('weighting')
            if w is not None:
                if isinstance(w, Rec):
                    w = w.attrs.get('array', w.attrs.get('const'))
                if isinstance(w, NA):
                    w = list(w.a.ravel())
                elif is_scalar(w):
                    w = [w] * len(sp)
                else:
                    w = list(interp.seq(w))
                if len(w) != len(sp):
                    raise PyRaise('ValueError')
            return NPSpace(sp, w)
        if isinstance(f, ClassV) and f.ci.name in ('ComplexNumbers',
                                                   'RealNumbers') \
                and not args and not kwargs:
            return NField('C' if f.ci.name == 'ComplexNumbers' else 'R')
        if isinstance(f, ClassV) and f.ci.name == 'COOMatrix':
            data, (row, col), shape = args[0], args[1], args[2]
            from .symex import SArr

            def tolist(v, ints=False):
                if isinstance(v, NA):
                    v = list(v.a.ravel())
                elif isinstance(v, SArr):
                    v = list(v.items)
                else:
                    v = list(interp.seq(v))
                if ints:
                    v = [int(to_rat(x).constant()) if is_scalar(x) else x
                         for x in v]
                return v
            return Rec('COOMatrix', data=tolist(data),
                       row=tolist(row, True), col=tolist(col, True),
                       shape=tuple(shape))
        if isinstance(f, Func) and f.name in ('is_real_dtype',
                                              'is_real_floating_dtype'):
            return as_dt(args[0]).d.kind in 'biuf'
        if isinstance(f, Func) and f.name in ('is_complex_floating_dtype',):
            return as_dt(args[0]).d.kind == 'c'
        if isinstance(f, Func) and f.name in ('is_floating_dtype',
                                              'is_numeric_dtype'):
            return as_dt(args[0]).d.kind in 'fc'
        return NotImplemented

    def on_name(self, interp, name):
        if name == 'complex':
            return Builtin('complex', lambda v=0: PA.ired(to_rat(v)))
        if name == 'abs' and getattr(self, 'signs', None) is not None:
            def ab(v):
                if is_scalar(v) and not isinstance(v, Opaque):
                    return PA.abs_nf(PA.ired(to_rat(v)), self.signs)
                return interp.py_builtin('abs', [v], {}, None, None, None)
            return Builtin('abs', ab)
        if name == 'float':
            def fl(v=0):
                if isinstance(v, str) and v.strip().lstrip('+-').lower() in (
                        'inf', 'infinity', 'nan'):
                    t = v.strip().lower()
                    if 'nan' in t:
                        return Opaque('np.nan')
                    return Opaque('-np.inf' if t.startswith('-')
                                  else 'np.inf')
                if isinstance(v, Opaque):
                    return v            # nan / inf stay symbolic constants
                r = PA.ired(to_rat(v))
                if 'I' in r.vars():
                    raise PyRaise('TypeError')
                return r
            return Builtin('float', fl)
        return NotImplemented


class SMInterp(NAMixin, Interp):
    def _na_index(self, sl, scope, func):
        r = NAMixin._na_index(self, sl, scope, func)
        return r.data if isinstance(r, BoolElem) else r

    def ev(self, n, scope, func):
        if isinstance(n, ast.Constant) and isinstance(n.value, complex):
            from fractions import Fraction as Fr
            return Rat.const(Fr(repr(n.value.real))) + IU * Rat.const(
                Fr(repr(n.value.imag)))
        return super(SMInterp, self).ev(n, scope, func)

    def call_inst(self, inst, args, kwargs):
        if args and isinstance(args[0], NA) and self.model.is_subclass(
                inst.ci, 'Operator'):
            # Operator.__call__: an input that is not in the domain is
            # converted with domain.element
            dom = self.getattr_value(inst, 'domain')
            if isinstance(dom, (NSpace, NPSpace)):
                args = [self.hooks.element(self, dom, args[0])] + \
                    list(args[1:])
        r = Interp.call_inst(self, inst, args, kwargs)
        if isinstance(r, (NA, list, tuple)) and 'out' not in kwargs and \
                len(args) == 1 and self.model.is_subclass(inst.ci,
                                                          'Operator'):
            # Operator.__call__ turns a raw out-of-place result into an
            # element of the range (that protocol is property C03)
            rng = self.getattr_value(inst, 'range')
            if isinstance(rng, (NSpace, NPSpace)):
                return self.hooks.element(self, rng, r)
        return r

    def new_element(self, space):
        if isinstance(space, (NSpace, NPSpace)):
            return garbage_elem(space, 'uninit')
        return Interp.new_element(self, space)

    def assign_into(self, out, r):
        if isinstance(out, (NElem, NPElem)):
            self.hooks.write(self, out, r)
            return
        return Interp.assign_into(self, out, r)

    def contains(self, cont, item, node):
        if isinstance(cont, (NSpace, NPSpace)):
            return isinstance(item, (NElem, NPElem)) and item.space == cont
        if isinstance(cont, NField):
            if not is_scalar(item):
                return False
            if cont.kind == 'R':
                return 'I' not in PA.ired(to_rat(item)).vars()
            return True
        return Interp.contains(self, cont, item, node)

    def assign(self, t, v, scope, func):
        if isinstance(t, ast.Attribute):
            obj = self.ev(t.value, scope, func)
            if isinstance(obj, (NElem, NPElem)):
                self.hooks.setattr_elem(self, obj, t.attr, v)
                return
        if isinstance(t, ast.Subscript):
            obj = self.ev(t.value, scope, func)
            if isinstance(obj, NElem):
                idx = self._na_index(t.slice, scope, func)
                self.hooks.store(self, obj.data, idx,
                                 v.data if isinstance(v, NElem) else v)
                self.hooks.sync_view(obj)
                return
            if isinstance(obj, NPElem):
                idx = self.ev(t.slice, scope, func)
                if isinstance(idx, int):
                    self.hooks.write(self, obj.parts[idx], v)
                    return
                if isinstance(idx, slice) and idx == slice(None):
                    self.hooks.write(self, obj, v)
                    return
        return super(SMInterp, self).assign(t, v, scope, func)

    def augassign(self, s, scope, func):
        if isinstance(s.target, ast.Subscript):
            base = self.ev(s.target.value, scope, func)
            if isinstance(base, NElem):
                # x[idx] op= v  ==  x[idx] = x[idx] op v  (covers masks and
                # fancy indices, which give copies)
                idx = self._na_index(s.target.slice, scope, func)
                idx = idx.data if isinstance(idx, NElem) else idx
                cur = self.hooks.on_subscript(self, base, idx)
                v = self.ev(s.value, scope, func)
                v = v.data if isinstance(v, NElem) else v
                res = self.hooks.binop_na(self, type(s.op), cur, v) \
                    if isinstance(cur, NA) or isinstance(v, NA) \
                    else self.binop(type(s.op), cur, v)
                self.hooks.store(self, base.data, idx, res)
                self.hooks.sync_view(base)
                return
        cur = self.ev(s.target, scope, func) if not isinstance(
            s.target, ast.Name) else scope.get(s.target.id, self)
        if isinstance(cur, (NElem, NPElem)):
            v = self.ev(s.value, scope, func)
            res = self.hooks.ew(self, type(s.op), cur, v)
            self.hooks.write(self, cur, res)
            return
        return super(SMInterp, self).augassign(s, scope, func)

    def equal(self, l, r, node):
        if isinstance(l, Inst) != isinstance(r, Inst):
            # an operator / object compared with a number or None
            return False
        if is_scalar(l) and is_scalar(r):
            a, b = PA.ired(to_rat(l)), PA.ired(to_rat(r))
            if 'I' in a.vars() or 'I' in b.vars():
                d = PA.ired(a - b)
                if d.is_zero():
                    return True
                if d.is_const() or set(d.vars()) <= {'I'}:
                    return False
        return super(SMInterp, self).equal(l, r, node)

    def py_builtin(self, name, args, kwargs, node, scope, func):
        if name == 'len' and args and isinstance(args[0], (NSpace, NPSpace,
                                                           NPElem)):
            return len(args[0])
        if name == 'sum' and len(args) == 1:
            vals = list(self.seq(args[0]))
            if vals and all(isinstance(v, (NElem, NPElem)) for v in vals):
                # 0 + v0 + v1 + ...: the start value is absorbed
                t = vals[0]
                for v in vals[1:]:
                    t = self.binop(ast.Add, t, v)
                return t
        return super(SMInterp, self).py_builtin(name, args, kwargs, node,
                                                scope, func)
