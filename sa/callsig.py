"""E11 -- intra-repository call/constructor signature conformance: for calls
whose callee resolves to exactly one repository function or class, keyword
names and positional arity must be accepted by the resolved signature."""
from __future__ import annotations

import ast


def init_of(model, ci):
    for c in model.mro(ci):
        if '__init__' in c.methods:
            return c.methods['__init__']
        if '__new__' in c.methods and c.name != 'Operator':
            return None
    return None


def check_calls(model, node, local_classes=True):
    """Yield (call, problem) for every non-conforming call inside node."""
    for n in ast.walk(node):
        if not (isinstance(n, ast.Call) and isinstance(n.func, ast.Name)):
            continue
        name = n.func.id
        fn = None
        drop_self = False
        if name in model.classes:
            ci = model.classes[name]
            if any(b not in model.classes and b != 'object'
                   for b in ci.bases):
                continue
            fn = init_of(model, ci)
            drop_self = True
        elif name in model.func_by_name and len(
                model.func_by_name[name]) == 1:
            fn = model.func_by_name[name][0][1]
        if fn is None:
            continue
        if any(isinstance(a, ast.Starred) for a in n.args) or any(
                k.arg is None for k in n.keywords):
            continue
        a = fn.args
        pos = [x.arg for x in a.posonlyargs + a.args]
        if drop_self:
            pos = pos[1:]
        kwonly = [x.arg for x in a.kwonlyargs]
        if a.vararg is None and len(n.args) > len(pos):
            yield n, 'too many positional arguments for %s%s' % (
                name, tuple(pos))
        if a.kwarg is None:
            for k in n.keywords:
                if k.arg not in pos and k.arg not in kwonly:
                    yield n, ('keyword `%s` is not accepted by %s%s'
                              % (k.arg, name, tuple(pos)))
