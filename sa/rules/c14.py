"""C14 -- partitions tile their domain.  See DESIGN.md section C14."""
from __future__ import annotations

import ast
import itertools
from fractions import Fraction as Fr

from ..core import Report, Undecided, AnalysisError
from ..srcmodel import Model
from ..forks import explore, Fork
from ..ratfun import Rat
from ..symex import (Interp, Hooks, Inst, Func, Bound, Builtin, Opaque, Rec,
                     SArr, ClassV, NPV, PyRaise, is_scalar, to_rat, _Scope)

PART = 'odl/discr/partition.py'
GRID = 'odl/discr/grid.py'
NORM = 'odl/util/normalize.py'


class PHooks(Hooks):
    """Semantics of the small NumPy / helper layer used by the partition
    code; constructor calls of the geometric classes build records."""

    def __init__(self):
        self.linspace = []
        self.isclose = []
        self.rounded = []
        self.search = None      # callable(bvec, val) -> int

    def on_name(self, interp, name):
        if name == 'safe_int_conv':
            return Builtin('safe_int_conv', lambda v: v)
        return NotImplemented

    def on_call(self, interp, f, args, kwargs, node):
        if isinstance(f, ClassV):
            n = f.ci.name
            if n == 'IntervalProd':
                lo, hi = args[0], args[1]
                return Rec('IntervalProd', min_pt=lo, max_pt=hi,
                           ndim=len(lo) if isinstance(lo, (list, SArr))
                           else 1)
            if n == 'RectGrid':
                return Rec('RectGrid', coord_vectors=list(args),
                           ndim=len(args))
            if n == 'RectPartition':
                return Rec('RectPartition', set=args[0], grid=args[1])
        if isinstance(f, Func):
            if f.name == 'normalized_scalar_param_list':
                param, length = args[0], args[1]
                if isinstance(param, (list, tuple)):
                    if len(param) != length:
                        raise PyRaise('ValueError')
                    return list(param)
                return [param] * length
            if f.name == 'normalized_nodes_on_bdry':
                v, length = args
                if isinstance(v, bool):
                    return [(v, v)] * length
                return [tuple(x) if isinstance(x, (tuple, list)) else (x, x)
                        for x in (v if length > 1 or not all(
                            isinstance(d, bool) for d in v) else [v])]
            if f.name == 'normalized_index_expression' and not getattr(
                    self, 'interpret_index_normaliser', False):
                idx, shape = args[0], args[1]
                its = kwargs.get('int_to_slice', False)
                if not isinstance(idx, (tuple, list)):
                    idx = [idx]
                out = []
                for i, n in zip(idx, shape):
                    if isinstance(i, int) and not isinstance(i, bool):
                        if i < 0:
                            i += n
                        out.append(slice(i, i + 1) if its else i)
                    else:
                        out.append(i)
                return tuple(out)
        return NotImplemented

    def on_getattr(self, interp, obj, name):
        if obj is NPV:
            if name == 'linspace':
                def ls(a, b, n, **k):
                    self.linspace.append((a, b, n))
                    return Rec('linspace', lo=a, hi=b, num=n)
                return Builtin('np.linspace', ls)
            if name == 'isclose':
                def ic(a, b, *r, **k):
                    self.isclose.append((a, b))
                    return True
                return Builtin('np.isclose', ic)
            if name in ('isinf',):
                return Builtin('np.isinf', lambda v: Opaque('np.isinf'))
            if name == 'shape':
                def shp(v):
                    if isinstance(v, (tuple, list)):
                        return (len(v),)
                    return ()
                return Builtin('np.shape', shp)
            if name == 'searchsorted':
                def ss(b, v, **k):
                    if self.search is None:
                        raise Undecided('searchsorted without an ordering '
                                        'case')
                    return self.search(b, v, k)
                return Builtin('np.searchsorted', ss)
            if name in ('float64',):
                return Opaque('np.float64')
        return NotImplemented

    def on_decide(self, interp, cond, node):
        if cond.key.startswith('opaque:np.any') or \
                cond.key.startswith('opaque:np.isinf'):
            return False
        if cond.key.startswith('eq0:') and cond.rat is not None:
            # distinct symbols are different numbers
            return False
        if cond.key.startswith(('Gt:', 'GtE:', 'Lt:', 'LtE:')) and \
                cond.rat is not None:
            # |n_calc - n_round| > tol  with round = identity: difference 0
            return False
        return NotImplemented


def check(ctx):
    rep = Report(
        'C14', ctx, 'other',
        'R1: the cell-boundary vector of RectPartition.__init__ and '
        'cell_sizes_vecs / boundary_cell_fractions are evaluated on '
        'symbolic coordinate vectors of every length 2..N: bdry[0] = min, '
        'bdry[-1] = max, inner boundaries are midpoints, csize[k] = '
        'bdry[k+1] - bdry[k], fractions = cell size / stride.  R2: every '
        'arm of uniform_grid_fromintv, uniform_partition, '
        'uniform_partition_fromgrid and nonuniform_partition satisfies the '
        'single relation max - min = (n - (bl+br)/2)*dx and the half-stride'
        ' placement (rational identities).  R3b: RectPartition.__getitem__ '
        'selects exactly the boundaries of the chosen cells for every '
        'slice/int/list index of small partitions.  R4: '
        'RectPartition.index is evaluated over the finite set of orderings '
        'of the query value relative to the boundaries.  R5: the '
        'normalisers return one kind of value on every path.  R7: '
        'IntervalProd.insert / RectGrid.insert keep every axis of every '
        'argument in order at the requested position for blocks of any '
        'dimension and up to three arguments; RectPartition.insert uses the '
        'same position and order for its set and its grid.',
        ['CPython ast', 'NumPy basic slicing; np.searchsorted(b, v) (default'
         ' side) = first i with b[i] >= v; np.linspace(a, b, n) has stride '
         '(b - a)/(n - 1)'],
        ['isclose-based boundary-node detection', 'NumPy index-expression '
         'semantics beyond the enumerated kinds', 'floating-point ties'])
    model = Model(ctx)
    _geometry(rep, model)
    _uniformity(rep, model)
    _ownership(rep, model)
    _completion(rep, model)
    _selection(rep, model)
    _location(rep, model)
    _normalisers(rep, model)
    _insert_rules(rep, model)
    return rep


def _item(v, i):
    if isinstance(v, SArr):
        return v.items[i]
    if isinstance(v, (list, tuple)):
        return v[i]
    try:
        return v.a[i]
    except Exception:
        return None


def _run(model, fn, rel, args, kwargs=None, hooks=None, selfv=None,
         ci=None):
    hooks = hooks or PHooks()
    res = []

    def once(assume):
        I = Interp(model, assume, hooks)
        f = Func(fn, I.env_of(rel), ci)
        return I.call_func(f, list(args), dict(kwargs or {}), selfv)
    leaves = explore(once, limit=50)
    return leaves, hooks


# --------------------------------------------------------------------------
def _partition_inst(model, n, with_bdry=True):
    """A RectPartition instance over one axis with symbolic coordinates."""
    ci = model.get('RectPartition')
    inst = Inst(ci)
    c = SArr([Rat.var('c%d' % i) for i in range(n)])
    lo, hi = Rat.var('lo'), Rat.var('hi')
    grid = Rec('RectGrid', coord_vectors=[c], ndim=1,
               min_pt=SArr([c.items[0]]), max_pt=SArr([c.items[-1]]))
    st = Rec('IntervalProd', min_pt=SArr([lo]), max_pt=SArr([hi]), ndim=1)
    inst.attrs['_RectPartition__set'] = st
    inst.attrs['_RectPartition__grid'] = grid
    return inst, c, lo, hi


class GHooks(PHooks):
    def on_getattr(self, interp, obj, name):
        if isinstance(obj, Inst) and obj.ci.name == 'RectPartition':
            if name == 'min':
                return Builtin('min', lambda: obj.attrs[
                    '_RectPartition__set'].attrs['min_pt'])
            if name == 'max':
                return Builtin('max', lambda: obj.attrs[
                    '_RectPartition__set'].attrs['max_pt'])
            if name == 'ndim':
                return 1
            if name == 'shape':
                return (len(obj.attrs['_RectPartition__grid'].attrs[
                    'coord_vectors'][0]),)
        return PHooks.on_getattr(self, interp, obj, name)


def _geometry(rep, model):
    ci = model.get('RectPartition')
    init = ci.methods['__init__']
    # slice of __init__ computing the boundary vectors: the `for` loop that
    # appends to the list stored into the cell-boundary attribute
    target = None
    for s in init.body:
        if isinstance(s, ast.Assign) and isinstance(s.targets[0],
                                                    ast.Attribute) and \
                'boundary' in s.targets[0].attr:
            target = s
    if target is None:
        raise AnalysisError('anchor vanished: boundary vector assignment in '
                            'RectPartition.__init__')
    names = {n.id for n in ast.walk(target.value) if isinstance(n, ast.Name)}
    block = [s for s in init.body
             if (isinstance(s, ast.Assign) and any(
                 isinstance(t, ast.Name) and t.id in names
                 for t in s.targets))
             or (isinstance(s, ast.For) and any(
                 isinstance(n, ast.Name) and n.id in names
                 for n in ast.walk(s)))]
    block.append(target)
    nmax = 9 if model.ctx.tier == 'quick' else 14
    for n in range(2, nmax + 1):
        tag = 'RectPartition.__init__:boundaries[n=%d]' % n
        try:
            I = Interp(model, {}, GHooks())
            inst, c, lo, hi = _partition_inst(model, n)
            scope = _Scope(I.env_of(PART))
            scope.vars['self'] = inst
            f = Func(init, I.env_of(PART), ci)
            I.exec_block(block, scope, f)
            b = inst.attrs['_RectPartition__cell_boundary_vecs'][0]
            want = [lo] + [(c.items[i] + c.items[i + 1]) / 2
                           for i in range(n - 1)] + [hi]
            got = list(b.items)
            if len(got) != n + 1 or any(
                    g is None or to_rat(g) != w for g, w in zip(got, want)):
                rep.violation(
                    'R1', 'RectPartition.__init__',
                    'n=%d: cell boundaries are %s, expected [min, '
                    'midpoints..., max] = %s' % (n, got, want), PART,
                    init.lineno)
            else:
                rep.holds('R1', tag, 'bdry[0]=min, midpoints, bdry[-1]=max')
            # cell sizes
            inst.attrs['_RectPartition__cell_boundary_vecs'] = (b,)
            cs_fn = ci.methods['cell_sizes_vecs']
            cs = I.call_func(Func(cs_fn, I.env_of(PART), ci), [], {}, inst)
            got = [to_rat(x) for x in cs[0].items]
            want_cs = [want[k + 1] - want[k] for k in range(n)]
            if got != want_cs:
                rep.violation(
                    'R1', 'RectPartition.cell_sizes_vecs',
                    'n=%d: cell sizes %s differ from the differences of '
                    'consecutive cell boundaries %s' % (n, got, want_cs),
                    PART, cs_fn.lineno)
            else:
                rep.holds('R1', 'RectPartition.cell_sizes_vecs[n=%d]' % n,
                          'csize[k] = bdry[k+1] - bdry[k]; sum = extent')
            # boundary fractions: cell size / stride
            bf_fn = ci.methods['boundary_cell_fractions']
            bf = I.call_func(Func(bf_fn, I.env_of(PART), ci), [], {}, inst)
            lf, rf = bf[0]
            stride_l = c.items[1] - c.items[0]
            stride_r = c.items[-1] - c.items[-2]
            # for uniform grids the first cell has size lf * stride
            ok = (to_rat(lf) * stride_l == (c.items[0] + c.items[1]) / 2
                  - lo) and (to_rat(rf) * stride_r == hi - (
                      c.items[-1] + c.items[-2]) / 2)
            if not ok:
                rep.violation(
                    'R1', 'RectPartition.boundary_cell_fractions',
                    'n=%d: fractions (%r, %r) times the stride are not the '
                    'sizes of the boundary cells' % (n, lf, rf), PART,
                    bf_fn.lineno)
            else:
                rep.holds('R1', 'RectPartition.boundary_cell_fractions[n=%d]'
                          % n, 'fraction * stride = boundary cell size')
        except Undecided as e:
            rep.undecided('R1', tag, str(e), PART, init.lineno)
        except PyRaise as e:
            rep.violation('R1', 'RectPartition.__init__', 'n=%d: raises %s'
                          % (n, e.name), PART, init.lineno)


# --------------------------------------------------------------------------
def _completion(rep, model):
    ctx = model.ctx
    xmin, xmax, n, dx = (Rat.var('xmin'), Rat.var('xmax'), Rat.var('n'),
                         Rat.var('dx'))
    # uniform_grid_fromintv --------------------------------------------------
    fn = ctx.func(GRID, 'uniform_grid_fromintv')
    for bl, br in itertools.product((True, False), repeat=2):
        tag = 'uniform_grid_fromintv[bdry=(%s,%s)]' % (bl, br)
        try:
            iv = Rec('IntervalProd', min_pt=[xmin], max_pt=[xmax], ndim=1)
            leaves, h = _run(model, fn, GRID, [iv, [n]],
                             {'nodes_on_bdry': [(bl, br)]})
            for a, r in leaves:
                if len(h.linspace) < 1:
                    raise Undecided('no linspace call')
                gmin, gmax, num = h.linspace[-1]
                gmin, gmax = to_rat(gmin), to_rat(gmax)
                if not (is_scalar(num) and to_rat(num) == n):
                    rep.violation('R2', 'uniform_grid_fromintv', '%s: grid '
                                  'has %r points, expected n' % (tag, num),
                                  GRID, fn.lineno)
                    continue
                stride = (gmax - gmin) / (n - 1)
                lo = gmin if bl else gmin - stride / 2
                hi = gmax if br else gmax + stride / 2
                if lo == xmin and hi == xmax:
                    rep.holds('R2', tag, 'cells of the grid tile [xmin, '
                              'xmax] exactly')
                else:
                    rep.violation(
                        'R2', 'uniform_grid_fromintv',
                        '%s: with gmin=%r, gmax=%r the partition would '
                        'start at %r and end at %r instead of xmin, xmax'
                        % (tag, gmin, gmax, lo, hi), GRID, fn.lineno)
        except Undecided as e:
            rep.undecided('R2', tag, str(e), GRID, fn.lineno)
        except PyRaise as e:
            rep.violation('R2', 'uniform_grid_fromintv', '%s: raises %s'
                          % (tag, e.name), GRID, fn.lineno)
    # uniform_partition -----------------------------------------------------
    fn = ctx.func(PART, 'uniform_partition')

    class UH(PHooks):
        def on_call(self, interp, f, args, kwargs, node):
            if isinstance(f, Func) and f.name == 'uniform_partition_fromintv':
                self.final = (args[0], args[1], args[2] if len(args) > 2
                              else kwargs.get('nodes_on_bdry'))
                return Rec('RectPartition')
            return PHooks.on_call(self, interp, f, args, kwargs, node)

    for bl, br in itertools.product((True, False), repeat=2):
        for missing in ('min_pt', 'max_pt', 'shape', 'cell_sides', None):
            tag = 'uniform_partition[missing=%s,bdry=(%s,%s)]' % (
                missing, bl, br)
            kw = {'min_pt': xmin, 'max_pt': xmax, 'shape': n,
                  'cell_sides': dx, 'nodes_on_bdry': [(bl, br)]}
            if missing:
                kw[missing] = None
            try:
                h = UH()
                leaves, h = _run(model, fn, PART, [], kw, hooks=h)
                k = (int(bl) + int(br))
                for a, r in leaves:
                    iv, shape, nob = h.final
                    lo, hi = to_rat(iv.attrs['min_pt'][0]), to_rat(
                        iv.attrs['max_pt'][0])
                    nn = shape[0]
                    if missing == 'shape':
                        # n_calc is what was rounded
                        nn = to_rat(nn)
                    else:
                        nn = to_rat(nn)
                    ok = None
                    if missing in ('min_pt', 'max_pt'):
                        ok = (hi - lo) == (nn - Rat.const(Fr(k, 2))) * dx
                    elif missing == 'shape':
                        ok = (hi - lo) == (nn - Rat.const(Fr(k, 2))) * dx
                    elif missing == 'cell_sides':
                        ok = lo == xmin and hi == xmax and nn == n
                    else:
                        # consistency test: the value compared with xmax
                        if not h.isclose:
                            ok = False
                        else:
                            a_, b_ = h.isclose[-1]
                            calc = to_rat(b_) if to_rat(a_) == xmax \
                                else to_rat(a_)
                            ok = calc == xmin + (n - Rat.const(Fr(k, 2))) \
                                * dx
                    if nob != [(bl, br)] and nob != ((bl, br),):
                        ok = False
                    if ok:
                        rep.holds('R2', tag, 'max - min = (n - %d/2)*dx' % k)
                    else:
                        rep.violation(
                            'R2', 'uniform_partition',
                            '%s: completed parameters min=%r max=%r n=%r do '
                            'not satisfy max - min = (n - (bl+br)/2)*dx'
                            % (tag, lo, hi, nn), PART, fn.lineno)
            except Undecided as e:
                rep.undecided('R2', tag, str(e), PART, fn.lineno)
            except PyRaise as e:
                rep.violation('R2', 'uniform_partition', '%s: raises %s'
                              % (tag, e.name), PART, fn.lineno)
    # uniform_partition_fromgrid / nonuniform_partition: half-stride rule ----
    c = [Rat.var('c%d' % i) for i in range(4)]
    fn = ctx.func(PART, 'uniform_partition_fromgrid')
    tag = 'uniform_partition_fromgrid[defaults]'
    try:
        grid = Rec('RectGrid', coord_vectors=[SArr(c)], ndim=1)
        leaves, h = _run(model, fn, PART, [grid])
        for a, r in leaves:
            iv = r.attrs['set']
            lo, hi = to_rat(iv.attrs['min_pt'].items[0]), to_rat(
                iv.attrs['max_pt'].items[0])
            if lo == c[0] - (c[1] - c[0]) / 2 and \
                    hi == c[3] + (c[3] - c[2]) / 2:
                rep.holds('R2', tag, 'half a stride beyond the outer nodes')
            else:
                rep.violation('R2', 'uniform_partition_fromgrid',
                              'default limits %r, %r are not half a stride '
                              'beyond the outer nodes' % (lo, hi), PART,
                              fn.lineno)
    except Undecided as e:
        rep.undecided('R2', tag, str(e), PART, fn.lineno)
    except PyRaise as e:
        rep.violation('R2', 'uniform_partition_fromgrid', 'raises %s'
                      % e.name, PART, fn.lineno)
    # explicit / default limits per axis of a 2-d grid, in every form the
    # function documents: None, array-like, dict with a non-negative or a
    # negative axis key
    fn = ctx.func(PART, 'uniform_partition_fromgrid')
    c2 = [[Rat.var('c%d' % i) for i in range(3)],
          [Rat.var('e%d' % i) for i in range(4)]]

    def forms(tag):
        a, b = Rat.var(tag + '0'), Rat.var(tag + '1')
        return [('None', None, (None, None)),
                ('array', SArr([a, b]), (a, b)),
                ('{0: v}', {0: a}, (a, None)),
                ('{1: v}', {1: b}, (None, b)),
                ('{-1: v}', {-1: b}, (None, b)),
                ('{-2: v}', {-2: a}, (a, None)),
                ('{0: v, -1: v}', {0: a, -1: b}, (a, b)),
                ('{-2: v, 1: v}', {-2: a, 1: b}, (a, b))]
    n2 = 0
    for (tl, lo_arg, lo_want), (th, hi_arg, hi_want) in itertools.product(
            forms('lo'), forms('hi')):
        n2 += 1
        tag = 'uniform_partition_fromgrid[min_pt=%s, max_pt=%s]' % (tl, th)
        try:
            grid = Rec('RectGrid', coord_vectors=[SArr(list(c2[0])),
                                                  SArr(list(c2[1]))], ndim=2)
            leaves, h = _run(model, fn, PART, [grid], {
                'min_pt': dict(lo_arg) if isinstance(lo_arg, dict)
                else lo_arg,
                'max_pt': dict(hi_arg) if isinstance(hi_arg, dict)
                else hi_arg})
            bad = None
            for a_, r in leaves:
                iv = r.attrs['set']
                for ax in (0, 1):
                    cv = c2[ax]
                    wl = lo_want[ax] if lo_want[ax] is not None else \
                        cv[0] - (cv[1] - cv[0]) / 2
                    wh = hi_want[ax] if hi_want[ax] is not None else \
                        cv[-1] + (cv[-1] - cv[-2]) / 2
                    gl = _item(iv.attrs['min_pt'], ax)
                    gh = _item(iv.attrs['max_pt'], ax)
                    if gl is None or not (to_rat(gl) - wl).is_zero():
                        bad = 'axis %d: lower limit %r, expected %r' % (
                            ax, gl, wl)
                    elif gh is None or not (to_rat(gh) - wh).is_zero():
                        bad = 'axis %d: upper limit %r, expected %r' % (
                            ax, gh, wh)
            if bad:
                rep.violation('R2', tag, bad, PART, fn.lineno)
            else:
                rep.holds('R2', tag, 'given limits kept, missing ones half '
                          'a stride beyond the outer nodes')
        except Undecided as e:
            rep.undecided('R2', tag, str(e), PART, fn.lineno)
        except PyRaise as e:
            rep.violation('R2', tag, 'raises %s' % e.name, PART, fn.lineno)
    rep.floor('R2', 'fromgrid limit forms', n2, 60)
    # uniform_partition_fromintv: the grid is requested for the interval, the
    # shape and the per-side flags that were given - also on axes with a
    # single cell, where one-sided requests are satisfiable
    fnp = ctx.func(PART, 'uniform_partition_fromintv')
    if fnp is None:
        raise AnalysisError('anchor vanished: uniform_partition_fromintv')

    class FH(PHooks):
        def on_call(self, interp, f, args, kwargs, node):
            if isinstance(f, Func) and f.name == 'uniform_grid_fromintv':
                self.grid_call = (args[0], args[1], args[2] if len(args) > 2
                                  else kwargs.get('nodes_on_bdry', False))
                return Rec('RectGrid', tag='grid')
            if isinstance(f, ClassV) and f.ci.name == 'RectPartition':
                self.part_call = tuple(args)
                return Rec('RectPartition')
            return PHooks.on_call(self, interp, f, args, kwargs, node)

    def norm_flags(v, nd):
        v = v.items if isinstance(v, SArr) else v
        if isinstance(v, bool):
            return [(v, v)] * nd
        out = []
        for e in v:
            e = e.items if isinstance(e, SArr) else e
            out.append((e, e) if isinstance(e, bool) else tuple(
                bool(z) for z in e))
        return out
    nfi = 0
    for shape, flags in (((1,), [(True, False)]), ((1,), [(False, True)]),
                         ((1,), [(False, False)]), ((1,), True),
                         ((3, 1), [True, (False, True)]),
                         ((1, 4), [(True, False), False]),
                         ((3, 3), [True, (False, True)])):
        tag = 'uniform_partition_fromintv[shape=%r,nodes_on_bdry=%r]' % (
            shape, flags)
        nfi += 1
        try:
            nd = len(shape)
            iv = Rec('IntervalProd', min_pt=[Rat.var('a%d' % i)
                                             for i in range(nd)],
                     max_pt=[Rat.var('b%d' % i) for i in range(nd)], ndim=nd)
            h = FH()
            leaves, h = _run(model, fnp, PART, [iv, tuple(shape)],
                             {'nodes_on_bdry': flags}, hooks=h)
            probs = []
            if getattr(h, 'grid_call', None) is None:
                raise Undecided('no call of uniform_grid_fromintv')
            giv, gshape, gflags = h.grid_call
            if giv is not iv:
                probs.append('the grid is requested for another interval')
            gs = gshape.items if isinstance(gshape, SArr) else gshape
            if [int(to_rat(z).constant()) for z in gs] != list(shape):
                probs.append('the grid is requested with shape %r' % (gs,))
            if norm_flags(gflags, nd) != norm_flags(flags, nd):
                probs.append('the grid is requested with nodes_on_bdry=%r'
                             % (norm_flags(gflags, nd),))
            pc = getattr(h, 'part_call', None)
            if pc is None or pc[0] is not iv or not (
                    isinstance(pc[1], Rec) and pc[1].attrs.get('tag')
                    == 'grid'):
                probs.append('the partition is not RectPartition(intv_prod, '
                             'grid)')
            if probs:
                rep.violation('R2', 'uniform_partition_fromintv', '%s: %s'
                              % (tag, '; '.join(probs)), PART, fnp.lineno)
            else:
                rep.holds('R2', tag, 'grid for the given interval, shape '
                          'and per-side flags')
        except Undecided as e:
            rep.undecided('R2', tag, str(e), PART, fnp.lineno)
        except PyRaise as e:
            rep.violation('R2', 'uniform_partition_fromintv', '%s: raises %s'
                          % (tag, e.name), PART, fnp.lineno)
    rep.floor('R2', 'uniform_partition_fromintv configurations', nfi, 7)
    fn = ctx.func(PART, 'nonuniform_partition')
    # one axis, and products of axes of different lengths - a single node
    # gets the degenerate cell [x, x] wherever it stands among the axes
    nnu = 0
    for lens in ((4,), (4, 1), (1, 4), (2, 1, 3)):
        vecs = [[Rat.var('%s%d' % ('cde'[ax], i)) for i in range(n_)]
                for ax, n_ in enumerate(lens)]
        for bl, br in itertools.product((True, False), repeat=2):
            tag = 'nonuniform_partition[%s nodes,bdry=(%s,%s)]' % (
                'x'.join(map(str, lens)), bl, br)
            nnu += 1
            try:
                leaves, h = _run(model, fn, PART, [SArr(v) for v in vecs],
                                 {'nodes_on_bdry': [(bl, br)] * len(lens)
                                  if len(lens) > 1 else [(bl, br)]})
                for a, r in leaves:
                    iv = r.attrs['set']
                    bad = None
                    for ax, v in enumerate(vecs):
                        lo = to_rat(_item(iv.attrs['min_pt'], ax))
                        hi = to_rat(_item(iv.attrs['max_pt'], ax))
                        if len(v) == 1:
                            wl = wh = v[0]
                        else:
                            wl = v[0] if bl else v[0] - (v[1] - v[0]) / 2
                            wh = v[-1] if br else v[-1] + (
                                v[-1] - v[-2]) / 2
                        if not (lo == wl and hi == wh) and bad is None:
                            bad = 'axis %d: limits %r, %r, expected %r, %r' \
                                % (ax, lo, hi, wl, wh)
                    if bad is None:
                        rep.holds('R2', tag, 'limits at the node / half a '
                                  'stride beyond, [x, x] for a single node')
                    else:
                        rep.violation('R2', 'nonuniform_partition',
                                      '%s: %s' % (tag, bad), PART,
                                      fn.lineno)
            except Undecided as e:
                rep.undecided('R2', tag, str(e), PART, fn.lineno)
            except PyRaise as e:
                rep.violation('R2', 'nonuniform_partition', '%s: raises %s'
                              % (tag, e.name), PART, fn.lineno)
    rep.floor('R2', 'nonuniform_partition configurations', nnu, 16)


def _uniformity(rep, model):
    """R1u: the uniformity flag of a grid is a property of the increments
    of a coordinate vector: the tolerance test behind it compares quantities
    that do not change when the vector is translated (a test relative to the
    magnitude of the coordinates declares a non-uniform grid far from the
    origin uniform).  The statements of `RectGrid.__init__` that compute the
    flag are interpreted on the vector `T + c_k` with a symbolic shift T; the
    operands handed to `np.allclose` / `np.isclose` must be free of T."""
    import numpy as _np
    from ..namodel import NA, NAHooks, NAInterp, objarr
    ci = model.get('RectGrid')
    if ci is None:
        raise AnalysisError('anchor vanished: RectGrid')
    init = ci.methods['__init__']
    target = None
    for st in ast.walk(init):
        if isinstance(st, ast.Assign) and any(
                isinstance(t, ast.Attribute) and 'is_uniform' in t.attr
                for t in st.targets):
            target = st
    if target is None:
        raise AnalysisError('anchor vanished: uniformity flag in '
                            'RectGrid.__init__')
    names = {n.id for n in ast.walk(target.value) if isinstance(n, ast.Name)}
    block = [s_ for s_ in init.body if isinstance(s_, ast.Assign) and any(
        isinstance(t, ast.Name) and t.id in names for t in s_.targets)]
    block.append(target)
    seen = []

    class UH(NAHooks):
        def np_func(self, I, name):
            if name in ('allclose', 'isclose'):
                def close(a, b, *r, **k):
                    seen.append((a, b))
                    return True
                return close
            if name == 'linspace':
                def linspace(a, b, num=50, **k):
                    n_ = int(to_rat(num).constant())
                    a, b = to_rat(a), to_rat(b)
                    return NA(objarr([a + (b - a) * Rat.const(Fr(j, max(
                        n_ - 1, 1))) for j in range(n_)]), 'float64')
                return linspace
            return NAHooks.np_func(self, I, name)

        def on_getattr(self, interp, obj, name):
            if isinstance(obj, Inst) and name == 'coord_vectors':
                return obj.attrs['cv']
            return NAHooks.on_getattr(self, interp, obj, name)
    cons = 'RectGrid.__init__:is_uniform_byaxis'
    try:
        I = NAInterp(model, {}, UH())
        inst = Inst(ci)
        T = Rat.var('T')
        inst.attrs['cv'] = (NA(objarr([T + Rat.var('c%d' % k)
                                       for k in range(4)]), 'float64'),)
        scope = _Scope(I.env_of(GRID))
        scope.vars['self'] = inst
        I.exec_block(block, scope, Func(init, I.env_of(GRID), ci))
        if not seen:
            raise Undecided('no tolerance test reached')
        probs = []
        for a, b in seen:
            for nm, v in (('first', a), ('second (reference)', b)):
                vals = v.a.ravel() if isinstance(v, NA) else [v]
                if any('T' in [x for x in to_rat(z).vars()
                               if isinstance(x, str)] for z in vals):
                    probs.append('the %s operand of the tolerance test '
                                 'depends on where the vector lies (%s ...)'
                                 % (nm, str(to_rat(vals[0]))[:60]))
        if probs:
            rep.violation('R1u', cons, '; '.join(sorted(set(probs))), GRID,
                          target.lineno)
        else:
            rep.holds('R1u', cons, 'the tolerance test compares increments '
                      '(translation invariant)')
    except Undecided as e:
        rep.undecided('R1u', cons, str(e), GRID, target.lineno)
    except PyRaise as e:
        rep.violation('R1u', cons, 'raises %s' % e.name, GRID, target.lineno)


def _ownership(rep, model):
    """R1o: an interval product owns its limits: constructed from float64
    arrays it stores copies (a partition computes its cell boundaries once;
    limits that still are the caller's arrays move the set under the grid
    when the caller updates them in place)."""
    import numpy as _np
    from ..namodel import NA, NAHooks, NAInterp, objarr
    DOM = 'odl/set/domain.py'
    ci = model.get('IntervalProd')
    if ci is None:
        raise AnalysisError('anchor vanished: IntervalProd')
    init = ci.methods['__init__']
    cons = 'IntervalProd.__init__[float64 arrays]'

    class OH(NAHooks):
        def on_decide(self, interp, cond, node):
            if 'isnan(' in cond.key or 'isinf(' in cond.key:
                return False                     # finite limits
            k = cond.key.split(':')[0]
            if cond.rat is not None and k == 'eq0':
                return False                     # a_k < b_k strictly
            if cond.rat is not None and k in ('Lt', 'LtE', 'Gt', 'GtE'):
                # min_pt <= max_pt entrywise: a0 < b0, a1 < b1
                r = cond.rat
                vs_ = sorted(v for v in r.vars() if isinstance(v, str))
                if len(vs_) == 2 and vs_[0][0] == 'a' and vs_[1][0] == 'b':
                    sg = -1 if (r - (Rat.var(vs_[0]) - Rat.var(
                        vs_[1]))).is_zero() else 1
                    return {'Lt': sg < 0, 'LtE': sg <= 0, 'Gt': sg > 0,
                            'GtE': sg >= 0}[k]
            return NotImplemented
    class OI(NAInterp):
        def decide(self, key, node=None):
            if 'isnan(' in key or 'isinf(' in key:
                return False                     # finite limits
            return NAInterp.decide(self, key, node)
    try:
        I = OI(model, {}, OH())
        lo = NA(objarr([Rat.var('a0'), Rat.var('a1')]), 'float64')
        hi = NA(objarr([Rat.var('b0'), Rat.var('b1')]), 'float64')
        inst = Inst(ci)
        I.call_func(Func(init, I.env_of(DOM), ci), [lo, hi], {}, inst)
        probs = []
        for nm, arg in (('min_pt', lo), ('max_pt', hi)):
            st = inst.attrs.get('_IntervalProd__' + nm)
            if not isinstance(st, NA):
                raise Undecided('stored %s is %r' % (nm, st))
            if st.a is arg.a or _np.shares_memory(st.a, arg.a):
                probs.append('%s is the caller\'s array (no copy): an '
                             'in-place update of it moves the set' % nm)
        if probs:
            rep.violation('R1o', cons, '; '.join(probs), DOM, init.lineno)
        else:
            rep.holds('R1o', cons, 'limits stored as copies')
    except (Undecided, Fork) as e:
        rep.undecided('R1o', cons, str(e), DOM, init.lineno)
    except PyRaise as e:
        rep.violation('R1o', cons, 'raises %s' % e.name, DOM, init.lineno)


# --------------------------------------------------------------------------
def _selection(rep, model):
    ci = model.get('RectPartition')
    fn = ci.methods['__getitem__']
    nmax = 5 if model.ctx.tier == 'quick' else 7
    count = 0
    evaluated = [0]
    bad = None
    for n in range(1, nmax + 1):
        b = [Rat.var('b%d' % i) for i in range(n + 1)]
        cases = []
        for i in range(-n, n):
            cases.append(i)
        for i in range(0, n + 1):
            for j in range(i + 1, n + 1):
                for st in (None, 1, 2, 3):
                    cases.append(slice(i, j, st))
        cases.append(slice(None))
        cases.append(slice(None, None, 2))
        # negative bounds, alone and mixed with non-negative ones
        for i in list(range(0, n)) + [None] + list(range(-n, 0)):
            for j in list(range(-n, 0)) + [None]:
                if i is None and j is None:
                    continue
                for st in (None, 2):
                    cases.append(slice(i, j, st))
        for i in range(-n, 0):
            for j in range(1, n + 1):
                cases.append(slice(i, j))
        for i in range(n):
            for j in range(i, n):
                cases.append([i, j] if i != j else [i])
        for idx in cases:
            count += 1

            class SH(GHooks):
                # the index normaliser is interpreted, not summarised
                interpret_index_normaliser = True

                def on_getattr(self, interp, obj, name):
                    if isinstance(obj, Rec) and obj.kind == 'RectGrid' and \
                            name == '__getitem__':
                        return Builtin('grid.getitem', lambda i: ('grid',
                                                                  i))
                    return GHooks.on_getattr(self, interp, obj, name)
            try:
                I = Interp(model, {}, SH())
                inst, c, lo, hi = _partition_inst(model, max(n, 2))
                inst.attrs['_RectPartition__cell_boundary_vecs'] = (
                    SArr(b),)
                grid = inst.attrs['_RectPartition__grid']
                grid.attrs['coord_vectors'] = [SArr([Rat.var('c%d' % i)
                                                     for i in range(n)])]
                # grid[indices] (its own rule set): any index accepted
                grid.attrs['__getitem__'] = lambda i: Rec('RectGrid',
                                                          index=i)
                res = I.call_func(Func(fn, I.env_of(PART), ci), [idx], {},
                                  inst)
            except Undecided as e:
                rep.undecided('R3b', 'RectPartition.__getitem__[n=%d,%r]'
                              % (n, idx), str(e), PART, fn.lineno)
                continue
            except PyRaise as e:
                # rejecting an index is right for empty selections only
                full = list(range(n))
                try:
                    nonempty = bool(full[idx]) if isinstance(idx, slice) \
                        else True
                    if isinstance(idx, int):
                        full[idx]
                    elif isinstance(idx, list):
                        [full[i] for i in idx]
                except IndexError:
                    nonempty = False
                if nonempty:
                    bad = (n, idx, 'raises %s' % e.name, None, None, None)
                    break
                continue
            if res is None:
                continue
            sel = list(range(n))
            if isinstance(idx, int):
                sel = [sel[idx]]
            elif isinstance(idx, slice):
                sel = sel[slice(idx.start, idx.stop, None)]
            else:
                sel = [sel[i] for i in idx]
            if not sel:
                continue
            iv = res.attrs['set']
            lo_, hi_ = iv.attrs['min_pt'][0], iv.attrs['max_pt'][0]
            if isinstance(idx, list):
                wl, wh = b[sel[0]], b[sel[-1] + 1]
            else:
                wl, wh = b[sel[0]], b[sel[-1] + 1]
            evaluated[0] += 1
            if not (to_rat(lo_) == wl and to_rat(hi_) == wh):
                bad = (n, idx, lo_, hi_, wl, wh)
                break
        if bad:
            break
    if bad and bad[3] is None:
        rep.violation(
            'R3b', 'RectPartition.__getitem__',
            'partition with %d cells indexed with %r: %s although the '
            'selection is not empty' % (bad[0], bad[1], bad[2]), PART,
            fn.lineno)
    elif bad:
        n, idx, lo_, hi_, wl, wh = bad
        rep.violation(
            'R3b', 'RectPartition.__getitem__',
            'partition with %d cells indexed with %r: new limits (%r, %r), '
            'the selected cells span (%r, %r)' % (n, idx, lo_, hi_, wl, wh),
            PART, fn.lineno)
    else:
        rep.holds('R3b', 'RectPartition.__getitem__',
                  'limits equal the outer boundaries of the selected cells '
                  'for %d index expressions' % evaluated[0])
    rep.count('index_expressions', evaluated[0])
    if not bad:
        rep.floor('R3b', 'index expressions evaluated', evaluated[0], 100)


# --------------------------------------------------------------------------
def _location(rep, model):
    ci = model.get('RectPartition')
    fn = ci.methods['index']
    n = 4
    b = [Rat.var('b%d' % i) for i in range(n + 1)]
    v = Rat.var('v')
    cases = [('on edge %d' % k, b[k], k) for k in range(n + 1)] + \
            [('inside cell %d' % k, v, k) for k in range(n)]
    for floating in (False, True):
        for name, val, k in cases:
            tag = 'RectPartition.index[%s,floating=%s]' % (name, floating)

            class LH(GHooks):
                def on_getattr(self, interp, obj, name_):
                    if isinstance(obj, Rec) and obj.kind == 'IntervalProd' \
                            and name_ == 'element':
                        return Builtin('element', lambda x: x)
                    return GHooks.on_getattr(self, interp, obj, name_)

            h = LH()

            def search(bv, vv, kw, name=name, k=k):
                side = kw.get('side', 'left')
                if name.startswith('on edge'):
                    return k if side == 'left' else k + 1
                return k + 1
            h.search = search
            try:
                I = Interp(model, {}, h)
                inst, c, lo, hi = _partition_inst(model, n)
                inst.attrs['_RectPartition__cell_boundary_vecs'] = (
                    SArr(b),)
                r = I.call_func(Func(fn, I.env_of(PART), ci), [val],
                                {'floating': floating}, inst)
            except Undecided as e:
                rep.undecided('R4', tag, str(e), PART, fn.lineno)
                continue
            except PyRaise as e:
                rep.violation('R4', 'RectPartition.index', '%s: raises %s'
                              % (tag, e.name), PART, fn.lineno)
                continue
            if name.startswith('on edge'):
                want = Rat.const(k) if floating else Rat.const(
                    min(k, n - 1))
            else:
                want = Rat.const(k) if not floating else \
                    Rat.const(k) + (v - b[k]) / (b[k + 1] - b[k])
            if not (is_scalar(r) and to_rat(r) == want):
                rep.violation(
                    'R4', 'RectPartition.index',
                    '%s: returns %r, the cell containing the point is %r'
                    % (tag, r, want), PART, fn.lineno)
            else:
                rep.holds('R4', tag, 'index %r' % (want,))


# --------------------------------------------------------------------------
def _normalisers(rep, model):
    fn = model.ctx.func(NORM, 'normalized_nodes_on_bdry')
    cons = 'normalized_nodes_on_bdry'
    inputs = []
    for length in (1, 2, 3):
        for v in (True, False):
            inputs.append((v, length, [(v, v)] * length))
        for combo in itertools.product(
                [True, False, (True, False), (False, True)], repeat=length):
            want = [c if isinstance(c, tuple) else (c, c) for c in combo]
            inputs.append((list(combo), length, want))
    # the documented 1-D shorthand: a bare 2-tuple for a single axis
    for t in ((True, False), (False, True), (True, True)):
        inputs.append((t, 1, [t]))
    n_ok = 0
    for v, length, want in inputs:
        tag = '%s(%r, %d)' % (cons, v, length)
        try:
            I = Interp(model, {}, _NormHooks())
            r = I.call_func(Func(fn, I.env_of(NORM), None), [v, length], {})
        except Undecided as e:
            rep.undecided('R5', tag, str(e), NORM, fn.lineno)
            continue
        except PyRaise as e:
            rep.violation('R5', cons, '%s raises %s' % (tag, e.name), NORM,
                          fn.lineno)
            continue
        got = [tuple(x) if isinstance(x, (tuple, list)) else x for x in r]
        if got != want:
            rep.violation(
                'R5', cons,
                '%s returns %r; every caller unpacks a list of `length` '
                '(left, right) pairs, i.e. %r' % (tag, got, want), NORM,
                fn.lineno)
        else:
            n_ok += 1
            rep.holds('R5', tag, 'list of %d (left, right) pairs' % length)


class _NormHooks(PHooks):
    def on_call(self, interp, f, args, kwargs, node):
        return NotImplemented


# --------------------------------------------------------------------------
# R7: insert / append keep every axis of every argument, in order, at the
# requested position -- for blocks of any dimension and any number of
# arguments, identically for the set and the grid of a partition
def _insert_rules(rep, model):
    import itertools as _it
    import numpy as _np
    from ..namodel import NA, NAHooks, NAInterp, objarr
    from ..symex import ClassV

    DOM = 'odl/set/domain.py'
    GRD = 'odl/discr/grid.py'

    class IH(NAHooks):
        def on_name(self, interp, name):
            if name == 'safe_int_conv':
                return Builtin('safe_int_conv', lambda v: v)
            return NotImplemented

        def on_call(self, interp, f, args, kwargs, node):
            if isinstance(f, ClassV) and f.ci.name == 'IntervalProd':
                return mk_intv(list(na_of_(args[0])), list(na_of_(args[1])))
            if isinstance(f, ClassV) and f.ci.name == 'RectGrid':
                return mk_grid(list(args))
            return NotImplemented

    def na_of_(v):
        from ..namodel import na_of
        return [x for x in na_of(v).a.ravel()]

    def mk_intv(mins, maxs):
        o = Inst(model.get('IntervalProd'))
        o.attrs['_IntervalProd__min_pt'] = NA(objarr(list(mins)), 'float64')
        o.attrs['_IntervalProd__max_pt'] = NA(objarr(list(maxs)), 'float64')
        return o

    def mk_grid(vecs):
        o = Inst(model.get('RectGrid'))
        o.attrs['_RectGrid__coord_vectors'] = tuple(vecs)
        o.attrs['_RectGrid__ndim'] = len(vecs)
        return o

    def labels(tag, n):
        return ['%s%d' % (tag, i) for i in range(n)]

    blocks = [(1,), (2,), (1, 1), (2, 1), (1, 2), (2, 2, 1), (1, 2, 1)]
    n = 0
    for cls, rel in (('IntervalProd', DOM), ('RectGrid', GRD)):
        ci = model.get(cls)
        if ci is None or 'insert' not in ci.methods:
            raise AnalysisError('anchor vanished: %s.insert' % cls)
        bad = []
        for dims in blocks:
            for index in (0, 1, 2, -1, -2):
                n += 1
                I = NAInterp(model, {}, IH())
                sl = labels('s', 2)
                bl = [labels('b%d_' % k, d) for k, d in enumerate(dims)]
                if cls == 'IntervalProd':
                    mk = lambda ls: mk_intv(
                        [Rat.var(l + 'min') for l in ls],
                        [Rat.var(l + 'max') for l in ls])
                else:
                    mk = lambda ls: mk_grid([Rec('vec', label=l) for l in ls])
                selfo = mk(sl)
                args = [mk(b) for b in bl]
                idx = index if index >= 0 else index + 2
                want = sl[:idx] + [l for b in bl for l in b] + sl[idx:]
                try:
                    res = I.call(I.getattr_value(selfo, 'insert'),
                                 [index] + args, {})
                    if cls == 'IntervalProd':
                        got = [str(v)[:-3] for v in
                               res.attrs['_IntervalProd__min_pt'].a]
                        gmax = [str(v)[:-3] for v in
                                res.attrs['_IntervalProd__max_pt'].a]
                        if gmax != got:
                            got = ['min/max differ']
                    else:
                        got = [v.attrs['label'] for v in
                               res.attrs['_RectGrid__coord_vectors']]
                except PyRaise as e:
                    got = ['raises ' + e.name]
                if got != want:
                    bad.append('insert(%d, blocks of ndim %s): axes %s, '
                               'expected %s' % (index, dims, got, want))
        cons = '%s.insert' % cls
        if bad:
            rep.violation('R7', cons, '%d configurations fail; first: %s'
                          % (len(bad), bad[0]), rel,
                          ci.methods['insert'].lineno)
        else:
            rep.holds('R7', cons, 'all block dimension / position '
                      'configurations')
    rep.floor('R7', 'insert configurations', n, 70)
    # RectPartition.insert forwards the same index to grid and set
    ci = model.get('RectPartition')
    seen = []

    class PH(NAHooks):
        def on_call(self, interp, f, args, kwargs, node):
            if isinstance(f, ClassV) and f.ci.name == 'RectPartition':
                return Rec('RectPartition', set=args[0], grid=args[1])
            return NotImplemented

        def on_getattr(self, interp, obj, name):
            if isinstance(obj, Rec) and name in obj.attrs:
                return obj.attrs[name]
            return NotImplemented
    try:
        I = NAInterp(model, {}, PH())

        def side(tag):
            return Rec(tag, insert=Builtin('insert', lambda i, *a: (
                seen.append((tag, i, a)) or Rec('new' + tag))))
        p = Inst(ci)
        p.attrs['_RectPartition__set'] = side('set')
        p.attrs['_RectPartition__grid'] = side('grid')
        parts = []
        for k in range(2):
            q = Inst(ci)
            q.attrs['_RectPartition__set'] = Rec('pset%d' % k)
            q.attrs['_RectPartition__grid'] = Rec('pgrid%d' % k)
            parts.append(q)
        res = I.call(I.getattr_value(p, 'insert'), [1] + parts, {})
        probs = []
        d = {t: (i, a) for t, i, a in seen}
        if set(d) != {'set', 'grid'}:
            probs.append('inserts into %s' % sorted(d))
        else:
            if d['set'][0] != 1 or d['grid'][0] != 1:
                probs.append('different positions for set and grid')
            if [a.kind for a in d['set'][1]] != ['pset0', 'pset1'] or \
                    [a.kind for a in d['grid'][1]] != ['pgrid0', 'pgrid1']:
                probs.append('arguments not forwarded in order')
            if not (isinstance(res, Rec) and res.attrs['set'].kind ==
                    'newset' and res.attrs['grid'].kind == 'newgrid'):
                probs.append('result not built from the new set and grid')
        if probs:
            rep.violation('R7', 'RectPartition.insert', '; '.join(probs),
                          'odl/discr/partition.py',
                          ci.methods['insert'].lineno)
        else:
            rep.holds('R7', 'RectPartition.insert', 'same position and '
                      'order for set and grid')
    except Undecided as e:
        rep.undecided('R7', 'RectPartition.insert', str(e),
                      'odl/discr/partition.py')
