"""C10, evaluated tier: the proximal operators of the C07 tier (at their
designated points) and every operator instance of the C05 / C06 tiers whose
domain equals its range are called with ``out`` aliased to the input on model
spaces; the aliased call must leave in x exactly the entries the out-of-place
call returns."""
from __future__ import annotations

import ast

from ..core import Undecided, AnalysisError
from ..forks import Fork
from ..ratfun import Rat, satom
from ..symex import PyRaise, Inst, to_rat
from ..namodel import NA
from ..spacemodel import NotAnElement
from ..spacemodel import (SMInterp, NSpace, NPSpace, NField, NElem, NPElem,
                          sym_elem, flat)
from .. import posalg as PA
from .c05b import witness, _where

WIT = [witness(65), witness(66)]


def _instances(model):
    from . import c05b, c06b, c07b
    S = c05b.spaces()
    for name, b in c05b.builders(model).items():
        yield 'linear', name, c05b.H5, SMInterp, (lambda I, b=b: b(I, S)), \
            None
    for name, b in c06b.builders(model).items():
        yield 'nonlinear', name, c06b.H9, SMInterp, b, None
    class H10(c07b.H7):
        """The C07 hooks; a maximum / minimum whose order the designated
        point does not decide stays an uninterpreted atom: both calls that
        C10 compares run the same code, so the atom is the same on both
        sides (the order matters for optimality, not for aliasing)."""

        def maxmin(self, I, name, x, y):
            try:
                return c07b.H7.maxmin(self, I, name, x, y)
            except Undecided:
                x, y = to_rat(x), to_rat(y)
                return Rat.var(satom('max' if name.startswith('max')
                                     else 'min',
                                     tuple(sorted((x, y), key=repr))))
    for name, (b, entries, kind) in c07b.builders(model).items():
        yield 'proximal', name, H10, c07b.I7, b, entries


def _poisoned(r):
    def walk(x):
        for v in x.vars():
            if isinstance(v, str) and v.startswith(('uninit', 'garbage')):
                return True
            if isinstance(v, tuple):
                for z in v[1:]:
                    if hasattr(z, 'vars') and walk(z):
                        return True
        return False
    return walk(r)


def evaluate(model, Hcls, Icls, build, entries):
    H = Hcls()
    I = Icls(model, {}, H)
    A = build(I)
    if entries is not None:
        # a functional of the C07 tier: its proximal at the designated point
        from .c07b import S
        dom = I.getattr_value(A, 'domain')
        sigarg = S('sig')
        attrs = getattr(A, 'attrs', {})
        if attrs.get('sigma_elem') is not None:
            # the factory's branch for one step per point
            from .c07b import mk_point
            sigarg = mk_point(dom, list(attrs['sigma_elem']))
        elif attrs.get('sigmas') is not None:
            sigarg = list(attrs['sigmas'])
        elif attrs.get('sigma_num') is not None:
            sigarg = attrs['sigma_num']
        A = I.call(I.getattr_value(A, 'proximal'), [sigarg], {})
    dom = I.getattr_value(A, 'domain')
    ran = I.getattr_value(A, 'range')
    if isinstance(dom, NField) or not (dom == ran):
        return None

    def pt():
        if entries is None:
            return sym_elem(dom, 'x')
        it = iter(entries)

        def mk(space):
            import numpy as _np
            if isinstance(space, NPSpace):
                return NPElem(space, [mk(p) for p in space.parts])
            a = _np.empty(space.shape, dtype=object)
            for idx in _np.ndindex(*space.shape):
                a[idx] = next(it)
            return NElem(space, NA(a, space.dt))
        return mk(dom)

    def ent(v):
        if isinstance(v, NA):
            v = H.element(I, dom, v)
        return flat(v)
    want = ent(I.call(A, [pt()], {}))
    # the solvers apply one operator instance in place in every iteration:
    # a first aliased call at another point (the entries in reverse order)
    # must not leave anything behind that the next one picks up
    try:
        if entries is None:
            z = sym_elem(dom, 'z')
        else:
            keep, entries = entries, list(reversed(list(entries)))
            try:
                z = pt()
            finally:
                entries = keep
        I.call(A, [z], {'out': z})
    except (Undecided, Fork, PyRaise, NotAnElement):
        pass
    x = pt()
    r = I.call(A, [x], {'out': x})
    probs = []
    if r is not None and r is not x:
        probs.append('the aliased call returns another object')
    got = ent(x)
    if len(got) != len(want):
        probs.append('%d entries instead of %d' % (len(got), len(want)))
    else:
        for k, (a, b) in enumerate(zip(got, want)):
            if _poisoned(a) or _poisoned(b):
                probs.append('entry %d %s depends on uninitialised memory: '
                             '%r' % (k, 'after op(x, out=x)' if _poisoned(a)
                                     else 'of op(x)', a if _poisoned(a)
                                     else b))
                break
            if not PA.same(a, b, WIT):
                t = lambda v: (lambda s: s if len(s) < 140 else s[:140] +
                               ' ...')(repr(v))
                probs.append('entry %d after op(x, out=x) is %s, op(x) '
                             'returns %s' % (k, t(a), t(b)))
                break
    return probs, len(want)


SCOPE_FILES = ('odl/operator/default_ops.py', 'odl/operator/pspace_ops.py',
               'odl/operator/operator.py',
               'odl/solvers/nonsmooth/proximal_operators.py',
               'odl/solvers/functional/default_functionals.py',
               'odl/solvers/functional/functional.py')


def expected_safe(I, op):
    """Is `op(x, out=x)` promised to work?  Decided from the structure of
    the operator expression (the temporaries the expression classes keep,
    C10 anchors):  a composition and the right scalar / vector multiples
    evaluate the inner operator into a temporary, so they are alias-safe
    whatever their parts are; a sum writes its left summand to a temporary
    and calls the right one with the caller's `out`, a left scalar / vector
    multiple calls its operand with the caller's `out` - these are as safe
    as that operand.  Leaves: the classes of the files in scope (proximals,
    default and product-space operators); discretisation operators (finite
    differences, sampling, matrix operators), which no solver applies with
    `out` aliased to the input, are not."""
    if not isinstance(op, Inst):
        return False
    cn = op.ci.name
    if cn in ('OperatorComp', 'OperatorRightScalarMult',
              'OperatorRightVectorMult'):
        return True
    if cn == 'OperatorSum':
        return expected_safe(I, I.getattr_value(op, 'right'))
    if cn in ('OperatorLeftScalarMult', 'OperatorLeftVectorMult'):
        return expected_safe(I, I.getattr_value(op, 'operator'))
    if cn == 'ProductSpaceOperator':
        # a general block operator reads x[j] after writing out[i]: only the
        # diagonal layout (what the solvers build through combine_proximals
        # / DiagonalOperator) can be applied in place
        try:
            ops = I.getattr_value(op, 'ops')
            rows = list(I.seq(I.getattr_value(ops, 'row')))
            cols = list(I.seq(I.getattr_value(ops, 'col')))
        except (Undecided, Fork, PyRaise, AttributeError, TypeError):
            return False
        return all(to_rat(r) == to_rat(c) for r, c in zip(rows, cols))
    return op.ci.rel in SCOPE_FILES


def run(rep, model, rule='R3', kinds=None, floor=80):
    n = 0
    for kind, name, Hcls, Icls, b, entries in _instances(model):
        if kinds is not None and kind not in kinds:
            continue
        rel, line = _where(model, name.replace('expr:', ''))
        cons = '%s:%s' % (kind, name)
        if kind != 'proximal':
            # scope of the property, from the structure of the expression
            try:
                Hs = Hcls()
                Is = Icls(model, {}, Hs)
                if not expected_safe(Is, b(Is)):
                    continue
            except (Undecided, Fork, PyRaise, NotAnElement):
                continue
        try:
            from ..core import with_budget
            r = with_budget(lambda: evaluate(model, Hcls, Icls, b, entries))
        except (Undecided, Fork) as e:
            rep.undecided(rule, cons, str(e), rel)
            continue
        except NotAnElement as e:
            rep.violation(rule, cons, 'a call yields no element: %s' % e, rel)
            continue
        except PyRaise as e:
            rep.violation(rule, cons, 'raises %s at `%s`' % (
                e.name, ast.unparse(e.node)[:70] if e.node is not None
                else '?'), rel, getattr(e.node, 'lineno', None))
            continue
        if r is None:
            continue
        n += 1
        probs, m = r
        if probs:
            rep.violation(rule, cons, '; '.join(probs), rel, line)
        else:
            rep.holds(rule, cons, 'op(x, out=x) leaves the %d entries of '
                      'op(x) in x' % m)
    rep.floor(rule, 'aliased evaluations', n, floor)
