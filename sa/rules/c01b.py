"""C01, memory-layout tier: ``_lincomb_impl`` evaluated on arrays with real
NumPy layouts (C / F contiguous, strided views) and symbolic entries, in every
size / BLAS regime and identity-aliasing pattern.  BLAS axpy / scal / copy are
modelled by their definitions acting *in place on the array objects they are
handed* -- so a routine that is handed a ravelled copy of a non-contiguous
output leaves the output untouched, exactly as the real one does."""
from __future__ import annotations

import ast
import itertools

import numpy as _np

from ..core import Undecided, AnalysisError
from ..ratfun import Rat
from ..symex import (Interp, Inst, Func, Builtin, Opaque, Rec, ModuleV,
                     PyRaise, is_scalar, to_rat)
from ..namodel import NA, NAHooks, NAInterp, DT, na_of, as_dt, objarr

NPY = 'odl/space/npy_tensors.py'


class Elem(object):
    isinstance_names = ('NumpyTensor', 'Tensor', 'LinearSpaceElement')

    def __init__(self, data):
        self.data = data


def layout_array(name, layout, dt='float64'):
    """2x3 array of symbols in the given memory layout."""
    shape = (2, 3)
    if layout == 'C':
        a = _np.empty(shape, dtype=object, order='C')
    elif layout == 'F':
        a = _np.empty(shape, dtype=object, order='F')
    elif layout == 'strided':
        base = _np.empty((2, 6), dtype=object)
        base.fill(Rat.var('pad_' + name))
        a = base[:, ::2]
    elif layout == 'transposed':
        a = _np.empty((3, 2), dtype=object).T      # F-contiguous view
    else:
        raise AssertionError(layout)
    for idx in _np.ndindex(*shape):
        a[idx] = Rat.var(name + ''.join(str(i) for i in idx))
    return NA(a, dt)


class LH(NAHooks):
    def __init__(self, regime):
        self.regime = regime
        self.blas_calls = []

    def on_name(self, interp, name):
        # size regimes are selected by moving the thresholds, the arrays
        # stay small
        if name == 'THRESHOLD_SMALL':
            return 10 ** 9 if self.regime == 'small' else 0
        if name == 'THRESHOLD_MEDIUM':
            return 10 ** 9 if self.regime in ('small', 'medium') else 0
        if name == 'native':
            return Builtin('native', lambda v: v)
        if name == '_BLAS_DTYPES':
            return tuple(DT(n) for n in ('float32', 'float64', 'complex64',
                                         'complex128'))
        if name == 'scipy':
            return ModuleV('scipy')
        return NotImplemented

    def np_func(self, I, name):
        if name == 'iinfo':
            return lambda *a: Rec('iinfo', max=2 ** 31 - 1)
        return NAHooks.np_func(self, I, name)

    def on_getattr(self, interp, obj, name):
        if isinstance(obj, Elem):
            d = obj.data
            if name == 'data':
                return d
            if name == 'size':
                return d.a.size
            if name == 'dtype':
                return d.dt
            if name == 'shape':
                return d.a.shape
            raise PyRaise('AttributeError')
        if isinstance(obj, Rec) and name in obj.attrs:
            return obj.attrs[name]
        if isinstance(obj, ModuleV) and obj.name.startswith('scipy'):
            return ModuleV(obj.name + '.' + name)
        return NAHooks.on_getattr(self, interp, obj, name)

    def on_call(self, interp, f, args, kwargs, node):
        I = interp
        if isinstance(f, ModuleV) and f.name.endswith('get_blas_funcs'):
            names = args[0]
            arrays = kwargs.get('arrays', ())
            dts = {a.dt for a in arrays if isinstance(a, NA)}
            if len(dts) > 1:
                raise Undecided('BLAS functions for mixed dtypes')
            return [self.blas(I, n) for n in names]
        return NotImplemented

    def contains(self, *a):
        return NotImplemented

    def blas(self, I, name):
        H = self

        def check(*arrs):
            for a in arrs:
                if not isinstance(a, NA) or a.a.ndim != 1:
                    raise PyRaise('ValueError')

        def axpy(x, y, n=None, a=1):
            check(x, y)
            H.blas_calls.append('axpy')
            n = x.a.size if n is None else n
            for k in range(n):
                y.a[k] = I.binop(ast.Add, y.a[k], I.binop(ast.Mult, a,
                                                          x.a[k]))
            return y

        def scal(a, x, n=None):
            check(x)
            H.blas_calls.append('scal')
            n = x.a.size if n is None else n
            for k in range(n):
                x.a[k] = I.binop(ast.Mult, a, x.a[k])
            return x

        def copy(x, y, n=None):
            check(x, y)
            H.blas_calls.append('copy')
            n = x.a.size if n is None else n
            for k in range(n):
                y.a[k] = x.a[k]
            return y
        return Builtin('blas.' + name, {'axpy': axpy, 'scal': scal,
                                        'copy': copy}[name])

    def on_decide(self, interp, cond, node):
        # symbolic scalars are generic: non-zero, not one, a + b != 0
        if cond.rat is not None and cond.key.startswith('eq0:'):
            return False
        return NotImplemented


class LI(NAInterp):
    def contains(self, cont, item, node):
        if isinstance(cont, tuple) and isinstance(item, DT):
            return any(item == c for c in cont)
        return NAInterp.contains(self, cont, item, node)


SCALARS = [(0, 0), (0, 1), (1, 0), (1, 1), (0, 'b'), ('a', 0), (1, 'b'),
           ('a', 1), ('a', 'b'), ('a', '-a'), (1, -1)]
ALIAS = ['distinct', 'out is x1', 'out is x2', 'x1 is x2',
         'out is x1 is x2']
LAYOUTS = [('C', 'C', 'C'), ('F', 'F', 'F'), ('C', 'C', 'strided'),
           ('strided', 'C', 'C'), ('C', 'strided', 'C'), ('C', 'C', 'F'),
           ('F', 'C', 'C'), ('transposed', 'transposed', 'transposed'),
           ('strided', 'strided', 'strided')]


def sval(s):
    if s == '-a':
        return -Rat.var('a')
    return Rat.var(s) if isinstance(s, str) else s


GUARD_DTYPES = ('float16', 'float32', 'float64', 'longdouble', 'complex64',
                'complex128', 'clongdouble', 'int32', 'int64', 'uint8',
                'bool')
BLAS_OK = ('float32', 'float64', 'complex64', 'complex128')


class HugeNA(NA):
    """An array whose reported size exceeds the int32 range."""


def guard_rules(rep, model):
    """R1c: `_blas_is_applicable` interpreted on arrays with real NumPy
    dtypes (incl. half / extended precision), layouts and a size beyond
    int32: True only where the typed BLAS kernels can act in place."""
    fn = model.ctx.func(NPY, '_blas_is_applicable')
    if fn is None:
        raise AnalysisError('anchor vanished: _blas_is_applicable')
    cons = '_blas_is_applicable[numpy dtypes]'

    class GH(LH):
        def on_name(self, interp, name):
            if name == '_BLAS_DTYPES':
                return NotImplemented      # the module's own tuple
            return LH.on_name(self, interp, name)

        def on_getattr(self, interp, obj, name):
            if isinstance(obj, HugeNA) and name == 'size':
                return 2 ** 31 + 5
            return LH.on_getattr(self, interp, obj, name)

    def arr(dt, lay, huge=False):
        shape = (2, 3)
        if lay == 'C':
            a = _np.empty(shape, dtype=object, order='C')
        elif lay == 'F':
            a = _np.empty(shape, dtype=object, order='F')
        elif lay == 'CF':
            a = _np.empty((6,), dtype=object)
        else:
            a = _np.empty((2, 6), dtype=object)[:, ::2]
        a[...] = Rat.const(1)
        return (HugeNA if huge else NA)(a, dt)
    H = GH('large')
    I = LI(model, {}, H)
    env = I.env_of(NPY)
    # the module-level dtype whitelist, evaluated from its own definition
    tree = model.ctx.tree(NPY)
    for st in tree.body:
        if isinstance(st, ast.Assign) and any(
                isinstance(t, ast.Name) and t.id == '_BLAS_DTYPES'
                for t in st.targets):
            from ..symex import _Scope
            env['_BLAS_DTYPES'] = I.ev(st.value, _Scope(env), None)
    n = 0
    bad = []
    try:
        for d1 in GUARD_DTYPES:
            for d2 in GUARD_DTYPES:
                for l1, l2 in (('C', 'C'), ('F', 'F'), ('C', 'F'),
                               ('CF', 'CF'), ('C', 'strided'),
                               ('strided', 'strided'), ('CF', 'C')):
                    for huge in (False, True):
                        if huge and (d1 != d2 or l1 != l2):
                            continue
                        n += 1
                        a, b = arr(d1, l1, huge), arr(d2, l2)
                        got = I.truth_value(I.call_func(
                            Func(fn, env, None), [a, b], {}), None)
                        uniform = (all(x.a.flags.c_contiguous
                                       for x in (a, b)) or
                                   all(x.a.flags.f_contiguous
                                       for x in (a, b)))
                        want = (d1 == d2 and d1 in BLAS_OK and uniform
                                and not huge)
                        if got and not want:
                            bad.append((d1, l1, d2, l2, 'huge' if huge
                                        else 'small'))
    except Undecided as e:
        rep.undecided('R1c', cons, str(e), NPY, fn.lineno)
        return
    if bad:
        rep.violation('R1c', cons, 'returns True for %d of %d array pairs, '
                      'first (dtype, layout, dtype, layout, size) = %r: the '
                      'BLAS arm hands ravelled views to the typed s/d/c/z '
                      'kernels, which needs equal single or double '
                      'precision float / complex dtypes, uniform contiguity '
                      'and int32 sizes -- otherwise scipy converts copies '
                      'and the output is never written'
                      % (len(bad), n, bad[0]), NPY, fn.lineno)
    else:
        rep.holds('R1c', cons, 'True only for equal s/d/c/z dtypes, '
                  'uniformly contiguous, int32-sized (%d array pairs over '
                  '%d NumPy dtypes)' % (n, len(GUARD_DTYPES)))
    rep.floor('R1c', 'guard evaluations', n, 500)


def pointwise_rules(rep, model):
    """R4L: NumpyTensorSpace._multiply / _divide evaluated on arrays with
    real layouts, every aliasing pattern, the output holding arbitrary
    symbols."""
    n = 0
    DISCR = 'odl/discr/discr_space.py'
    for (meth, op), owner in itertools.product(
            (('_multiply', ast.Mult), ('_divide', ast.Div)),
            ('NumpyTensorSpace', 'DiscretizedSpace')):
        fn = model.ctx.method(NPY, 'NumpyTensorSpace', meth)
        if fn is None:
            raise AnalysisError('anchor vanished: NumpyTensorSpace.' + meth)
        wfn = None
        if owner == 'DiscretizedSpace':
            # the discretized space's own method, its `tspace` being the
            # tensor space whose method is the one evaluated above
            wfn = model.ctx.method(DISCR, 'DiscretizedSpace', meth)
            if wfn is None:
                raise AnalysisError('anchor vanished: DiscretizedSpace.'
                                    + meth)
        WHERE = (DISCR, wfn.lineno) if wfn is not None else (NPY, fn.lineno)
        for lay in LAYOUTS:
            for alias in ALIAS:
                l1, l2, lo = lay
                if alias in ('out is x1', 'out is x1 is x2') and l1 != lo:
                    continue
                if alias in ('out is x2', 'out is x1 is x2') and l2 != lo:
                    continue
                if alias in ('x1 is x2', 'out is x1 is x2') and l1 != l2:
                    continue
                n += 1
                cons = '%s.%s[%s,layouts x1/x2/out=%s]' % (
                    owner, meth, alias, '/'.join(lay))
                H = LH('small')
                I = LI(model, {}, H)
                x1 = Elem(layout_array('x', l1))
                x2 = x1 if alias in ('x1 is x2', 'out is x1 is x2') else \
                    Elem(layout_array('y', l2))
                if alias in ('out is x1', 'out is x1 is x2'):
                    out = x1
                elif alias == 'out is x2':
                    out = x2
                else:
                    out = Elem(layout_array('o', lo))
                old1, old2 = x1.data.a.copy(), x2.data.a.copy()
                try:
                    if wfn is None:
                        I.call_func(Func(fn, I.env_of(NPY), None),
                                    [None, x1, x2, out], {})
                    else:
                        def raw(name):
                            f = model.ctx.method(NPY, 'NumpyTensorSpace',
                                                 name)
                            return Builtin(name, lambda a, b, o: I.call_func(
                                Func(f, I.env_of(NPY), None),
                                [None, a, b, o], {}))
                        ts = Rec('tspace', _multiply=raw('_multiply'),
                                 _divide=raw('_divide'), impl='numpy')
                        me = Rec('discr', tspace=ts, impl='numpy')
                        wrap = {}

                        def dw(el):
                            if id(el) not in wrap:
                                wrap[id(el)] = Rec('delem', tensor=el)
                            return wrap[id(el)]
                        I.call_func(Func(wfn, I.env_of(DISCR), None),
                                    [me, dw(x1), dw(x2), dw(out)], {})
                except PyRaise as e:
                    rep.violation('R4L', cons, 'raises %s' % e.name, WHERE[0],
                                  WHERE[1])
                    continue
                except Undecided as e:
                    rep.undecided('R4L', cons, str(e), *WHERE)
                    continue
                msg = None
                for idx in _np.ndindex(2, 3):
                    a, b = to_rat(old1[idx]), to_rat(old2[idx])
                    w = a * b if op is ast.Mult else a / b
                    g = out.data.a[idx]
                    if g is None or not (to_rat(g) - w).is_zero():
                        msg = 'out%r = %r, expected %r' % (idx, g, w)
                        break
                for nm, el, old in (('x1', x1, old1), ('x2', x2, old2)):
                    if el is out or msg:
                        continue
                    for idx in _np.ndindex(2, 3):
                        if not (to_rat(el.data.a[idx]) - to_rat(
                                old[idx])).is_zero():
                            msg = 'operand %s is modified' % nm
                if msg:
                    rep.violation('R4L', cons, msg, *WHERE)
                else:
                    rep.holds('R4L', cons, 'entrywise result, operands '
                              'untouched, nothing of the old output')
    rep.floor('R4L', 'pointwise evaluations', n, 80)


def pspace_scalar_rules(rep, model):
    """R4p: `ProductSpace._lincomb` hands the scalars to the `_lincomb` of
    every component as it received them (complex scalars on spaces over C,
    Python integers on integer spaces): opaque scalar tokens must arrive
    unconverted, with the parts of x, y and out in their roles."""
    from ..symex import Interp, Hooks
    PSF = 'odl/space/pspace.py'
    ci = model.get('ProductSpace')
    if ci is None or '_lincomb' not in ci.methods:
        raise AnalysisError('anchor vanished: ProductSpace._lincomb')
    fn = ci.methods['_lincomb']

    class PH(Hooks):
        def __init__(self):
            self.calls = []
            self.conv = []

        def on_getattr(self, interp, obj, name):
            if isinstance(obj, Rec) and name in obj.attrs:
                return obj.attrs[name]
            if isinstance(obj, Inst) and obj.ci.name == 'ProductSpace' and \
                    name == 'spaces':
                return spaces
            return NotImplemented

        def on_name(self, interp, name):
            if name in ('float', 'complex', 'int', 'abs'):
                def conv(v=0, *a):
                    if isinstance(v, Rec) and v.kind == 'scalar':
                        self.conv.append('%s(%s)' % (name, v.attrs['name']))
                        return Rec('scalar', name='%s(%s)' % (
                            name, v.attrs['name']))
                    raise Undecided('%s(%r)' % (name, v))
                return Builtin(name, conv)
            return NotImplemented
    cons = 'ProductSpace._lincomb'
    try:
        H = PH()
        I = Interp(model, {}, H)
        spaces = []
        for k in range(2):
            spaces.append(Rec('part', _lincomb=Builtin(
                '_lincomb', lambda *a, k=k: H.calls.append((k,) + a))))
        spaces = tuple(spaces)
        a, b = Rec('scalar', name='a'), Rec('scalar', name='b')

        def elem(nm):
            return Rec('element', name=nm, parts=tuple(
                Rec('part_elem', name='%s%d' % (nm, k)) for k in range(2)))
        x, y, out = elem('x'), elem('y'), elem('out')
        I.call_func(Func(fn, I.env_of(PSF), ci), [Inst(ci), a, x, b, y, out],
                    {})
        probs = []
        if H.conv:
            probs.append('the scalars are converted: %s' % ', '.join(H.conv))
        if len(H.calls) != 2:
            probs.append('%d component calls for 2 parts' % len(H.calls))
        for k, ga, gx, gb, gy, go in H.calls:
            if ga is not a or gb is not b:
                probs.append('component %d receives the scalars %r, %r'
                             % (k, getattr(ga, 'attrs', ga),
                                getattr(gb, 'attrs', gb)))
            if gx is not x.attrs['parts'][k] or gy is not y.attrs['parts'][
                    k] or go is not out.attrs['parts'][k]:
                probs.append('component %d receives parts in other roles'
                             % k)
        if probs:
            rep.violation('R4p', cons, '; '.join(probs[:3]), PSF, fn.lineno)
        else:
            rep.holds('R4p', cons, 'scalars and parts reach every component '
                      'unconverted')
    except Undecided as e:
        rep.undecided('R4p', cons, str(e), PSF, fn.lineno)
    except PyRaise as e:
        rep.violation('R4p', cons, 'raises %s' % e.name, PSF, fn.lineno)


def size_rules(rep, model):
    """R6s: the entry count `TensorSpace.size` that `_lincomb_impl` hands to
    BLAS as the vector length equals the product of `TensorSpace.shape`, for
    plain data types and for data types with a shape (whose extra axes are
    part of the shape); `ndim` is the length of the shape.  The real
    `__init__` and properties are interpreted."""
    from ..symex import Interp
    from ..namodel import NAHooks, NAMixin, DT as _DT
    BT = 'odl/space/base_tensors.py'
    ci = model.get('TensorSpace')
    if ci is None or 'size' not in ci.methods or 'shape' not in ci.methods:
        raise AnalysisError('anchor vanished: TensorSpace.size / shape')
    fn = ci.methods['size']

    class NI(NAMixin, Interp):
        pass
    n = 0
    for shape, dt in (((3,), 'float64'), ((3, 2), 'complex128'),
                      ((3, 2), ('float64', (2,))),
                      ((5,), ('complex128', (2, 3))),
                      ((4, 1, 2), ('float32', (3,))), ((), 'float64'),
                      ((0, 3), 'float64')):
        n += 1
        cons = 'TensorSpace.size[shape=%r, dtype=%r]' % (shape, dt)
        try:
            I = NI(model, {}, NAHooks())
            sp = I.instantiate(ci, [shape, _DT(dt) if isinstance(dt, str)
                                    else _DT((dt[0], dt[1]))], {})
            shp = tuple(int(to_rat(v).constant())
                        for v in I.getattr_value(sp, 'shape'))
            size = to_rat(I.getattr_value(sp, 'size'))
            ndim = to_rat(I.getattr_value(sp, 'ndim'))
            want_shape = (tuple(dt[1]) if not isinstance(dt, str) else ()) \
                + tuple(shape)
            want = 0 if want_shape == () else 1
            for k in want_shape:
                want *= k
            probs = []
            if shp != want_shape:
                probs.append('shape is %r, expected %r' % (shp, want_shape))
            if not (size - want).is_zero():
                probs.append('size is %r, the shape %r has %d entries'
                             % (size, shp, want))
            if not (ndim - len(want_shape)).is_zero():
                probs.append('ndim is %r for the shape %r' % (ndim, shp))
            if probs:
                rep.violation('R6s', cons, '; '.join(probs), BT, fn.lineno)
            else:
                rep.holds('R6s', cons, 'size %d = product of the shape %r'
                          % (want, shp))
        except Undecided as e:
            rep.undecided('R6s', cons, str(e), BT, fn.lineno)
        except PyRaise as e:
            rep.violation('R6s', cons, 'raises %s' % e.name, BT, fn.lineno)
    rep.floor('R6s', 'size evaluations', n, 7)


def scalar_type_rules(rep, model):
    """R4t: `LinearSpace.lincomb` hands Python integer scalars to the
    back-end `_lincomb` as integers (integer tensor spaces live over the
    real field: a conversion to a field element makes them floats, and the
    in-place integer kernels then raise or compute in float64)."""
    from ..symex import Interp, Hooks, Bound
    SPF = 'odl/set/space.py'
    ci = model.get('LinearSpace')
    rn = model.get('RealNumbers')
    if ci is None or 'lincomb' not in ci.methods or rn is None:
        raise AnalysisError('anchor vanished: LinearSpace.lincomb')
    fn = ci.methods['lincomb']

    class SH(Hooks):
        def __init__(self):
            self.calls = []

        def on_getattr(self, interp, obj, name):
            if isinstance(obj, Inst) and obj.ci.name == 'LinearSpace':
                if name == '_lincomb':
                    return Builtin('_lincomb', lambda *a: self.calls.append(
                        a))
                if name == 'field':
                    return field
            return NotImplemented

    class SI(Interp):
        def contains(self, cont, item, node):
            if isinstance(cont, Inst) and cont.ci.name == 'LinearSpace':
                return isinstance(item, Rec) and item.kind == 'element'
            if isinstance(cont, Inst):
                dc, m = self.model.lookup(cont.ci, '__contains__')
                if isinstance(m, ast.FunctionDef):
                    return self.truth_value(self.call_func(Func(
                        m, self.env_of(dc.rel), dc), [cont, item], {}), node)
            return Interp.contains(self, cont, item, node)
    n = 0
    for tag, args in (('lincomb(2, x, 3, y, out)', (2, 'x', 3, 'y', 'o')),
                      ('lincomb(2, x, out=out)', (2, 'x', None, None, 'o')),
                      ('lincomb(-1, x, 0, y, out)', (-1, 'x', 0, 'y', 'o'))):
        n += 1
        cons = 'LinearSpace.lincomb[%s, integer scalars]' % tag
        try:
            H = SH()
            I = SI(model, {}, H)
            field = Inst(rn)
            sp = Inst(ci)
            el = {k: Rec('element', name=k) for k in 'xyo'}
            a, x1, b, x2, out = [el.get(v, v) if isinstance(v, str) else v
                                 for v in args]
            I.call_func(Func(fn, I.env_of(SPF), ci), [sp, a, x1, b, x2, out],
                        {})
            if len(H.calls) != 1:
                raise Undecided('%d back-end calls' % len(H.calls))
            ga, gx1, gb, gx2, gout = H.calls[0]
            probs = []
            for nm, g, w in (('a', ga, a), ('b', gb, 0 if b is None else b)):
                if not (isinstance(g, int) and not isinstance(g, bool)
                        and g == w):
                    probs.append('the integer scalar %s = %r reaches '
                                 '_lincomb as %r (%s)' % (
                                     nm, w, g, type(g).__name__))
            if gx1 is not x1 or gout is not out or (
                    b is not None and gx2 is not x2):
                probs.append('operands in other roles')
            if probs:
                rep.violation('R4t', cons, '; '.join(probs), SPF, fn.lineno)
            else:
                rep.holds('R4t', cons, 'scalars and operands reach the '
                          'back-end unconverted')
        except Undecided as e:
            rep.undecided('R4t', cons, str(e), SPF, fn.lineno)
        except PyRaise as e:
            rep.violation('R4t', cons, 'raises %s' % e.name, SPF, fn.lineno)
    rep.floor('R4t', 'scalar type evaluations', n, 3)


def copy_rules(rep, model):
    """R5L: `NumpyTensor.copy` on data of every memory layout, through the
    real `NumpyTensorSpace.element`: the copy holds the entries and shares
    no memory with the original."""
    ci = model.get('NumpyTensor')
    csp = model.get('NumpyTensorSpace')
    if ci is None or 'copy' not in ci.methods or csp is None:
        raise AnalysisError('anchor vanished: NumpyTensor.copy')
    fn = ci.methods['copy']

    class CH(LH):
        def on_getattr(self, interp, obj, name):
            if isinstance(obj, Inst) and obj.ci.name == 'NumpyTensorSpace' \
                    and name == 'element_type':
                return Builtin('element_type', lambda sp, arr: Rec(
                    'made-element', space=sp, data=arr))
            if isinstance(obj, Rec) and name in obj.attrs:
                return obj.attrs[name]
            return LH.on_getattr(self, interp, obj, name)

    class CI(LI):
        def contains(self, cont, item, node):
            if isinstance(cont, Inst) and cont.ci.name == 'NumpyTensorSpace':
                return isinstance(item, Inst) and item.attrs.get(
                    '_LinearSpaceElement__space') is cont
            return LI.contains(self, cont, item, node)
    n = 0
    for lay in ('C', 'F', 'strided', 'transposed'):
        n += 1
        cons = 'NumpyTensor.copy[data layout %s]' % lay
        try:
            I = CI(model, {}, CH('small'))
            sp = Inst(csp)
            sp.attrs['_TensorSpace__shape'] = (2, 3)
            sp.attrs['_TensorSpace__dtype'] = DT('float64')
            x = Inst(ci)
            data = layout_array('x', lay)
            x.attrs['_LinearSpaceElement__space'] = sp
            x.attrs['_NumpyTensor__data'] = data
            r = I.call_func(Func(fn, I.env_of(NPY), ci), [x], {})
            if not (isinstance(r, Rec) and r.kind == 'made-element' and
                    isinstance(r.attrs['data'], NA)):
                raise Undecided('result %r' % (r,))
            got = r.attrs['data']
            probs = []
            if r.attrs['space'] is not sp:
                probs.append('element of another space')
            if got.a.shape != data.a.shape or any(
                    not (to_rat(a) - to_rat(b)).is_zero()
                    for a, b in zip(got.a.ravel(), data.a.ravel())):
                probs.append('entries differ')
            if _np.shares_memory(got.a, data.a):
                probs.append('the copy shares memory with the original: '
                             'writing into one changes the other')
            if probs:
                rep.violation('R5L', cons, '; '.join(probs), NPY, fn.lineno)
            else:
                rep.holds('R5L', cons, 'equal entries in memory of its own')
        except Undecided as e:
            rep.undecided('R5L', cons, str(e), NPY, fn.lineno)
        except PyRaise as e:
            rep.violation('R5L', cons, 'raises %s' % e.name, NPY, fn.lineno)
    # the same for the elements of discretized spaces: the element wraps a
    # tensor, its space wraps the tensor space; copy() goes through the real
    # DiscretizedSpace.element / NumpyTensorSpace.element
    DISCR = 'odl/discr/discr_space.py'
    dci = model.get('DiscretizedSpaceElement')
    dsp_ci = model.get('DiscretizedSpace')
    if dci is None or dsp_ci is None or 'copy' not in dci.methods:
        raise AnalysisError('anchor vanished: DiscretizedSpaceElement.copy')
    dfn = dci.methods['copy']

    class DH(CH):
        def on_getattr(self, interp, obj, name):
            if isinstance(obj, Inst) and obj.ci.name == 'NumpyTensorSpace' \
                    and name == 'element_type':
                def mk(sp_, arr):
                    el = Inst(ci)
                    el.attrs['_LinearSpaceElement__space'] = sp_
                    el.attrs['_NumpyTensor__data'] = arr
                    return el
                return Builtin('element_type', mk)
            if isinstance(obj, Inst) and obj.ci.name == 'DiscretizedSpace' \
                    and name == 'element_type':
                return Builtin('element_type', lambda sp, t: Rec(
                    'made-delement', space=sp, tensor=t))
            if isinstance(obj, Inst) and obj.ci.name == \
                    'DiscretizedSpaceElement':
                t = obj.attrs['_DiscretizedSpaceElement__tensor']
                if name == 'tensor':
                    return t
                if name == 'data':
                    return t.attrs['_NumpyTensor__data']
            return CH.on_getattr(self, interp, obj, name)

    class DI_(CI):
        def contains(self, cont, item, node):
            if isinstance(cont, Inst) and cont.ci.name == 'DiscretizedSpace':
                return isinstance(item, Inst) and item.attrs.get(
                    '_LinearSpaceElement__space') is cont
            return CI.contains(self, cont, item, node)
    for lay in ('C', 'F', 'strided', 'transposed'):
        n += 1
        cons = 'DiscretizedSpaceElement.copy[data layout %s]' % lay
        try:
            I = DI_(model, {}, DH('small'))
            sp = Inst(csp)
            sp.attrs['_TensorSpace__shape'] = (2, 3)
            sp.attrs['_TensorSpace__dtype'] = DT('float64')
            t = Inst(ci)
            data = layout_array('x', lay)
            t.attrs['_LinearSpaceElement__space'] = sp
            t.attrs['_NumpyTensor__data'] = data
            dsp = Inst(dsp_ci)
            dsp.attrs['_DiscretizedSpace__tspace'] = sp
            dsp.attrs['tspace'] = sp
            dsp.attrs['default_order'] = 'C'
            x = Inst(dci)
            x.attrs['_LinearSpaceElement__space'] = dsp
            x.attrs['_DiscretizedSpaceElement__tensor'] = t
            r = I.call_func(Func(dfn, I.env_of(DISCR), dci), [x], {})
            if not (isinstance(r, Rec) and r.kind == 'made-delement'):
                raise Undecided('result %r' % (r,))
            rt = r.attrs['tensor']
            got = rt.attrs['data'] if isinstance(rt, Rec) else \
                rt.attrs.get('_NumpyTensor__data')
            if not isinstance(got, NA):
                raise Undecided('copied tensor %r' % (rt,))
            probs = []
            if got.a.shape != data.a.shape or any(
                    not (to_rat(a) - to_rat(b)).is_zero()
                    for a, b in zip(got.a.ravel(), data.a.ravel())):
                probs.append('entries differ')
            if _np.shares_memory(got.a, data.a):
                probs.append('the copy shares memory with the original: '
                             'writing into one changes the other')
            if probs:
                rep.violation('R5L', cons, '; '.join(probs), DISCR,
                              dfn.lineno)
            else:
                rep.holds('R5L', cons, 'equal entries in memory of its own')
        except Undecided as e:
            rep.undecided('R5L', cons, str(e), DISCR, dfn.lineno)
        except PyRaise as e:
            rep.violation('R5L', cons, 'raises %s' % e.name, DISCR,
                          dfn.lineno)
    rep.floor('R5L', 'copy evaluations', n, 8)


def layout_rules(rep, model, thorough):
    fn = model.ctx.func(NPY, '_lincomb_impl')
    if fn is None:
        raise AnalysisError('anchor vanished: _lincomb_impl')
    n = 0
    nblas = 0
    for regime in ('small', 'medium', 'large'):
        for lay in LAYOUTS:
            for alias in ALIAS:
                # identical objects have one layout
                l1, l2, lo = lay
                if alias in ('out is x1', 'out is x1 is x2') and l1 != lo:
                    continue
                if alias in ('out is x2', 'out is x1 is x2') and l2 != lo:
                    continue
                if alias in ('x1 is x2', 'out is x1 is x2') and l1 != l2:
                    continue
                bad = []
                for sa, sb in SCALARS:
                    n += 1
                    msg, used = one(model, fn, regime, lay, alias, sa, sb)
                    nblas += 1 if used else 0
                    if msg:
                        bad.append('a=%s, b=%s: %s' % (sa, sb, msg))
                cons = '_lincomb_impl[%s,%s,layouts x1/x2/out=%s]' % (
                    regime, alias, '/'.join(lay))
                if bad:
                    rep.violation('R1L', cons, '%d of %d scalar classes '
                                  'fail; first: %s' % (len(bad),
                                                       len(SCALARS), bad[0]),
                                  NPY, fn.lineno)
                else:
                    rep.holds('R1L', cons, '%d scalar classes'
                              % len(SCALARS))
    rep.floor('R1L', 'layout evaluations', n, 800)
    rep.floor('R1L', 'evaluations through the BLAS routines', nblas, 100)


def one(model, fn, regime, lay, alias, sa, sb):
    H = LH(regime)
    I = LI(model, {}, H)
    l1, l2, lo = lay
    x1 = Elem(layout_array('x', l1))
    x2 = x1 if alias in ('x1 is x2', 'out is x1 is x2') else Elem(
        layout_array('y', l2))
    if alias in ('out is x1', 'out is x1 is x2'):
        out = x1
    elif alias == 'out is x2':
        out = x2
    else:
        out = Elem(layout_array('o', lo))
    a, b = sval(sa), sval(sb)
    old1 = x1.data.a.copy()
    old2 = x2.data.a.copy()
    want = {}
    for idx in _np.ndindex(2, 3):
        want[idx] = to_rat(a) * to_rat(old1[idx]) + to_rat(b) * to_rat(
            old2[idx])
    env = I.env_of(NPY)
    # the size regime is selected by moving the thresholds (the arrays stay
    # small): module constants are overridden in the interpreter's copy
    env['THRESHOLD_SMALL'] = 10 ** 9 if regime == 'small' else 0
    env['THRESHOLD_MEDIUM'] = 10 ** 9 if regime in ('small', 'medium') else 0
    env.pop('_BLAS_DTYPES', None)
    try:
        I.call_func(Func(fn, env, None), [a, x1, b, x2, out], {})
    except PyRaise as e:
        return 'raises %s' % e.name, False
    except Undecided as e:
        return 'undecided: %s' % e, False
    for idx, w in want.items():
        g = out.data.a[idx]
        if g is None or not (to_rat(g) - w).is_zero():
            return 'out%r = %r, expected %r' % (idx, g, w), bool(
                H.blas_calls)
    for nm, el, old in (('x1', x1, old1), ('x2', x2, old2)):
        if el is out:
            continue
        for idx in _np.ndindex(2, 3):
            if not (to_rat(el.data.a[idx]) - to_rat(old[idx])).is_zero():
                return 'operand %s is modified' % nm, bool(H.blas_calls)
    return None, bool(H.blas_calls)
