"""C09 -- functional values, gradients and Lipschitz bounds agree.
See DESIGN.md section C09 (partial)."""
from __future__ import annotations

import ast
import itertools
from fractions import Fraction as Fr

from ..core import Report, Undecided, AnalysisError
from ..srcmodel import Model
from ..ratfun import Rat, SAtom
from ..symex import PyRaise, Opaque, is_scalar, to_rat
from ._funcs import instances, evaluate, equal, FUNF, DEFF


def _loc(model, name):
    cls = name.split('[')[0].split(':')[0]
    ci = model.classes.get(cls)
    if ci is None:
        return FUNF, None
    return ci.rel, ci.node.lineno


def check(ctx):
    rep = Report(
        'C09', ctx, 'other',
        'Derived functionals and the quadratic built-ins are evaluated by '
        'the symbolic interpreter on the weighted 1-d quadratic model (leaf '
        'functional F(t) = (a/2)t^2 + bt + c, inner product w*x*y).  R1/R2: '
        'the gradient operator returned by .gradient, applied to t, must '
        'equal d/dt of the class denotation (its own _call) divided by the '
        'weight -- the Riesz representative -- identically in all '
        'parameters.  R3: the declared grad_lipschitz must dominate the '
        'Lipschitz constant of that gradient; an under-estimate is refuted '
        'by an explicit rational witness.  R5: NumericalGradient divides '
        'its difference quotients by the space weighting.  R6 (evaluated '
        'tier): concrete functional classes (norms, Kullback-Leibler '
        'family, quadratic forms, group norms, separable sums, field '
        'functionals) and derived functionals built with the dunders on '
        'non-quadratic leaves are instantiated on model spaces with '
        'symbolic entries and constant / per-entry / per-component weights; '
        'gradient(x)[j] == (d f(x)/d x_j)/w_j and derivative(x)(d) == sum_j '
        'd f/d x_j d_j are decided as identities, the partials being '
        'computed symbolically from the value f(x) at a generic point.',
        ['CPython ast', 'calculus of polynomials', 'operator/functional '
         'arithmetic means what the table says (C04)'],
        ['non-smooth points', 'numerical directional derivatives',
         'functionals that are not quadratic on the line (their gradients '
         'are only covered through the general d/dt rule)'])
    model = Model(ctx)
    n = nn = 0
    for name, (builder, aspects) in instances().items():
        rel, line = _loc(model, name)
        if 'g' in aspects:
            n += 1
            tag = '%s.gradient' % name
            try:
                for r in evaluate(model, builder, 'g'):
                    if equal(r['got'], r['want']):
                        rep.holds('R1', tag, 'grad = %r' % (r['want'],))
                    else:
                        rep.violation(
                            'R1', name.split('[')[0] + '.gradient',
                            '%s: value is %r; the gradient operator maps t '
                            'to %r, but d/dt of the value divided by the '
                            'weight is %r' % (tag, r['den'], r['got'],
                                              r['want']), rel, line)
            except Undecided as e:
                rep.undecided('R1', tag, str(e), rel, line)
            except PyRaise as e:
                rep.violation('R1', name.split('[')[0] + '.gradient',
                              '%s: raises %s' % (tag, e.name), rel, line)
        if 'l' in aspects:
            tag = '%s.grad_lipschitz' % name
            try:
                for r in evaluate(model, builder, 'l'):
                    _lipschitz(rep, name, tag, r, rel, line)
            except Undecided as e:
                rep.undecided('R3', tag, str(e), rel, line)
            except PyRaise as e:
                rep.violation('R3', name.split('[')[0] + ':grad_lipschitz',
                              '%s: raises %s' % (tag, e.name), rel, line)
            # R3n: a leaf that declares no bound (nan) makes the bound of
            # the derived functional unknown as well, whichever leaf it is
            for unk in (('f',), ('g',)):
                tagn = '%s.grad_lipschitz[%s unknown]' % (name, unk[0])
                try:
                    rs = evaluate(model, builder, 'l', unknown=unk)
                except Undecided as e:
                    rep.undecided('R3n', tagn, str(e), rel, line)
                    continue
                except PyRaise as e:
                    rep.violation('R3n', name.split('[')[0] +
                                  ':grad_lipschitz', '%s: raises %s'
                                  % (tagn, e.name), rel, line)
                    continue
                for r in rs:
                    got = r['got']
                    uses = _uses_leaf(r['den'], unk[0])
                    if not uses:
                        continue     # the functional does not involve it
                    nn += 1
                    if isinstance(got, Opaque) and got.desc == 'np.nan':
                        rep.holds('R3n', tagn, 'nan (no bound claimed)')
                    else:
                        rep.violation(
                            'R3n', name.split('[')[0] + ':grad_lipschitz',
                            '%s: the summand / operand %s declares no '
                            'Lipschitz bound (nan) but the derived '
                            'functional declares %r' % (tagn, unk[0], got),
                            rel, line)
    rep.floor('R1', 'gradient instances', n, 18)
    rep.floor('R3n', 'unknown-bound propagations', nn, 8)
    _numerical_gradient(ctx, rep)
    from . import c09b
    c09b.run(rep, model)
    return rep


def _uses_leaf(den, leaf):
    """Does the value of the derived functional depend on the leaf's
    curvature a_<leaf> (the quantity its Lipschitz bound is about)?"""
    from ..mdiff import _depends
    return _depends(to_rat(den), 'a_' + leaf)


def _atom_value(a, env):
    import math
    if isinstance(a, SAtom) and a[0] in ('abs', 'sqrt'):
        inner = a[1]
        e2 = dict(env)
        for v in inner.vars():
            if v not in e2:
                e2[v] = _atom_value(v, env) if not isinstance(v, str) \
                    else GRID.get(v, [Fr(1)])[0]
        val = inner.eval(e2)
        if a[0] == 'abs':
            return abs(val)
        n, d = val.numerator, val.denominator
        if val < 0:
            raise Undecided('sqrt of a negative value')
        rn, rd = math.isqrt(n), math.isqrt(d)
        if rn * rn == n and rd * rd == d:
            return Fr(rn, rd)
        raise Undecided('irrational witness')
    if isinstance(a, SAtom) and a[0] in ('max', 'min'):
        vals = []
        for r in a[1:]:
            e2 = dict(env)
            for v in r.vars():
                if v not in e2:
                    e2[v] = _atom_value(v, env) if not isinstance(v, str) \
                        else GRID.get(v, [Fr(1)])[0]
            vals.append(r.eval(e2))
        return max(vals) if a[0] == 'max' else min(vals)
    raise Undecided('atom %r' % (a,))


GRID = {'u': [Fr(0), Fr(1)], 'r': [Fr(0), Fr(1)],'s': [Fr(1, 2), Fr(2), Fr(-3)], 'q': [Fr(1, 2), Fr(2), Fr(-2)],
        'a_f': [Fr(1), Fr(3)], 'a_g': [Fr(1), Fr(2)], 'w': [Fr(1), Fr(2)],
        'm': [Fr(1), Fr(3)]}


def _lipschitz(rep, name, tag, r, rel, line):
    got, want = r['got'], r['want']
    cons = name.split('[')[0] + ':grad_lipschitz'
    if isinstance(got, Opaque) and got.desc == 'np.nan':
        rep.holds('R3', tag, 'nan (no bound claimed)')
        return
    if not is_scalar(got):
        rep.undecided('R3', tag, 'declared bound %r' % (got,), rel, line)
        return
    got = to_rat(got)
    # (a bound that is symbolically the signed constant is still too small
    # where that constant is negative: always go through the witness grid,
    # which contains parameters of both signs)
    # refute with a rational witness: declared < |true|
    vars_ = sorted({v for v in (got.vars() | want.vars())}, key=repr)
    plain = [v for v in vars_ if isinstance(v, str)]
    atoms = [v for v in vars_ if not isinstance(v, str)]
    choices = [GRID.get(v, [Fr(1), Fr(2)]) for v in plain]
    for vals in itertools.product(*choices):
        env = dict(zip(plain, vals))
        # norms/sqrt atoms: non-negative extras only make the bound larger;
        # evaluate them at 0 (the most favourable case for a violation is
        # checked separately: they can only help the declared bound)
        try:
            for a in atoms:
                env[a] = _atom_value(a, env)
        except (Undecided, ZeroDivisionError, KeyError):
            continue
        try:
            g = got.eval(env)
            t = abs(want.eval(env))
        except (ZeroDivisionError, KeyError):
            continue
        if g < t:
            rep.violation(
                'R3', cons,
                '%s: declared bound %r evaluates to %s at %s, but the '
                'gradient of the denotation has Lipschitz constant %r = %s '
                'there: the bound is too small' % (
                    tag, got, g, {k: str(v) for k, v in env.items()
                                  if isinstance(k, str)}, want, t), rel,
                line)
            return
    rep.holds('R3', tag, 'declared %r >= %r on the witness grid' % (got,
                                                                     want))


def _numerical_gradient(ctx, rep):
    """R5: a gradient assembled from difference quotients must be the Riesz
    representative in the weighted inner product: NumericalGradient is run
    on the weighted 1-d quadratic model, where central differences are exact
    for quadratics."""
    from ..forks import explore
    from ..srcmodel import Model
    from ..symex import Func
    from ..quadmodel import coef, vec, W, T
    from ._funcs import Ctx
    from ..opalg import apply
    rel = 'odl/solvers/functional/derivatives.py'
    model = Model(ctx)
    ci = model.get('NumericalGradient')
    fn = ci.methods['_call']
    cons = 'NumericalGradient._call'
    for method in ('central',):
        tag = '%s[%s]' % (cons, method)

        def once(assume):
            c = Ctx(model, assume)
            f = c.f()
            ng = c.inst('NumericalGradient', f, method=method,
                        step=Rat.var('h'))
            x = vec(T, c.X)
            got = coef(apply(c.I, ng, x))
            want = f.quad.grad(T)
            return got, want, f.quad.value(T)
        try:
            for a, (got, want, val) in explore(once, limit=20):
                if equal(got, want):
                    rep.holds('R5', tag, 'difference quotients divided by '
                              'the weight: %r' % (want,))
                else:
                    rep.violation(
                        'R5', cons,
                        '%s: for f(t) = %r on the line with inner product '
                        'w*x*y the numerical gradient is %r, the gradient '
                        '(Riesz representative) is %r: the difference '
                        'quotients are not divided by the space weighting'
                        % (tag, val, got, want), rel, fn.lineno)
        except Undecided as e:
            rep.undecided('R5', tag, str(e), rel, fn.lineno)
        except PyRaise as e:
            rep.violation('R5', cons, '%s: raises %s' % (tag, e.name), rel,
                          fn.lineno)
