"""C10 -- proximals and solver building blocks are safe when out is aliased
to the input.  See DESIGN.md section C10."""
from __future__ import annotations

import ast

from ..core import Report, Undecided, AnalysisError
from ..srcmodel import Model
from ..effects import Analyzer
from .c03 import call_kind, operator_classes

SCOPE_FILES = ['odl/solvers/nonsmooth/proximal_operators.py',
               'odl/solvers/functional/default_functionals.py',
               'odl/solvers/functional/functional.py',
               'odl/operator/operator.py',
               'odl/operator/default_ops.py',
               'odl/operator/pspace_ops.py']

# Operators whose domain differs from their range by construction, so that
# ``x is out`` cannot happen (Operator.__call__ checks ``out in range``):
NOT_ALIASABLE = {
    'ComplexEmbedding': 'real domain -> complex range (for a complex domain '
                        'the arm is a plain assign/lincomb)',
    'ComplexModulus.derivative.ComplexModulusDerivative':
        'complex domain -> real range',
    'ComplexModulus.derivative.ComplexModulusDerivative.adjoint.'
    'ComplexModulusDerivativeAdjoint': 'real domain -> complex range',
    'ComplexModulusSquared.derivative.ComplexModulusSquaredDerivative':
        'complex domain -> real range',
    'ComplexModulusSquared.derivative.ComplexModulusSquaredDerivative.'
    'adjoint.ComplexModulusSquaredDerivAdj': 'real domain -> complex range',
    'ComponentProjectionAdjoint': 'component space -> product space',
    'ComponentProjection': 'product space -> component space',
    'BroadcastOperator': 'space -> product space',
    'ReductionOperator': 'product space -> space',
    'RealPart': 'complex domain -> real range on the arm that converts',
    'ImagPart': 'complex domain -> real range on the arm that converts',
    'ComplexModulus': 'complex domain -> real range',
    'ComplexModulusSquared': 'complex domain -> real range',
}

# Reviewed single constructs: (class qualname, statement text prefix)
EXCEPTIONS = {
    ('proximal_huber.ProximalHuber', 'sign_x = x.ufuncs.sign()'):
        'entries under the complementary mask were not written yet; the '
        'entries already written (first mask) are never used from sign_x',
    ('proximal_huber.ProximalHuber',
     'out[mask] = x[mask] - self.sigma * sign_x[mask]'):
        'reads x only under the complementary mask, where out was not '
        'written',
    ('ProductSpaceOperator', '*'):
        'row/column zip over sparse blocks: for the diagonal case that '
        'solvers alias (DiagonalOperator) row i only reads x[i]; general '
        'block operators are not invoked with out=x by any shipped solver',
}

SOLVER_FILES = ['odl/solvers/nonsmooth/admm.py',
                'odl/solvers/nonsmooth/difference_convex.py',
                'odl/solvers/nonsmooth/forward_backward.py',
                'odl/solvers/nonsmooth/douglas_rachford.py',
                'odl/solvers/nonsmooth/primal_dual_hybrid_gradient.py',
                'odl/solvers/nonsmooth/proximal_gradient_solvers.py',
                'odl/solvers/nonsmooth/alternating_dual_updates.py']


def hazards(model, ci, fn):
    """Read-after-write hazards of ``fn`` under ``x is out``.  Returns
    (list of (event, clobbering event), number of paths)."""
    pos = [p.arg for p in fn.args.args]
    xn = pos[1]
    tracked = {xn: 'X', 'out': 'OUT'}
    forced = {'out is None': False, 'out is not None': True,
              '%s is None' % xn: False, '%s is not None' % xn: True}
    an = Analyzer(model, ci, fn, tracked, forced, alias_mode=True)
    paths = an.run()
    found = []
    seen = set()
    for p in paths:
        if p.raised:
            continue
        clob = None
        for e in p.events:
            if e.kind in ('W', 'PW', 'RMW') and clob is None:
                # the shared cell is overwritten (through either name)
                clob = e
                continue
            if clob is not None and e.kind == 'R' and e.via == xn and \
                    e.stmt_id != clob.stmt_id:
                # a component loop executes reads of iteration k+1 after
                # writes of iteration k, but on *different* components
                if e.loop and e.loop == clob.loop:
                    continue
                key = (e.line, e.text)
                if key not in seen:
                    seen.add(key)
                    found.append((e, clob))
        for ln, txt in p.alias_kernel:
            key = (ln, txt)
            if key not in seen:
                seen.add(key)

                class _K(object):
                    pass
                e, c = _K(), _K()
                e.line, e.text, e.via = ln, txt, xn
                c.line, c.text = ln, 'the same call (kernel output)'
                found.append((e, c))
        unk = p.unknown
        if unk:
            raise Undecided('buffer handed to an unknown callee: %s'
                            % unk[0][1])
    return found, len(paths)


def check(ctx):
    rep = Report(
        'C10', ctx, 'proof',
        'For every operator class in scope (all proximal closure classes, '
        'the operator-arithmetic expression classes and the default / '
        'product-space operators that solvers apply in place) the in-place '
        '_call is analysed with x and out bound to ONE cell (typestate '
        'clean -> clobbered at the first write): any later read of the '
        'input through x is a violation unless x was rebound to a copy '
        'taken while clean (R1).  The aliased call sites in the solver '
        'modules are enumerated and must resolve to such operators (R3).',
        ['CPython ast', 'effect table of the element/array API '
         '(sa/effects.py): element-wise calls read their operands before '
         'writing out within one call; lincomb is aliasing-safe (C01)'],
        ['numerical equality of aliased and non-aliased results beyond the '
         'read-after-write structure (needs C10-R2 value numbering)'])
    model = Model(ctx)
    ops = [(c, fn) for c, fn in operator_classes(model)
           if c.rel in SCOPE_FILES and call_kind(fn) != 'oop']
    rep.floor('R1', 'in-place capable _call definitions in scope',
              len(ops), 40)
    n_prox = 0
    for ci, fn in ops:
        q = ci.qual
        cons = q + '._call'
        if ci.rel == SCOPE_FILES[0]:
            n_prox += 1
        if q in NOT_ALIASABLE:
            rep.holds('R1', cons, 'x is out impossible: ' + NOT_ALIASABLE[q])
            continue
        try:
            found, npaths = hazards(model, ci, fn)
        except Undecided as e:
            rep.undecided('R1', cons, str(e), ci.rel, fn.lineno)
            continue
        rep.count('paths', npaths)
        real = []
        for e, clob in found:
            if (q, '*') in EXCEPTIONS:
                continue
            if any(k[0] == q and e.text.startswith(k[1])
                   for k in EXCEPTIONS):
                continue
            real.append((e, clob))
        if real:
            e, clob = real[0]
            rep.violation(
                'R1', cons,
                'with out aliased to the input, `%s` (line %d) overwrites '
                'the shared buffer and `%s` then reads the input again '
                'through `%s`; no copy taken before the write dominates '
                'this read' % (clob.text, clob.line, e.text, e.via),
                ci.rel, e.line)
        else:
            rep.holds('R1', cons, 'no read of the input after the first '
                      'write on %d paths' % npaths)
    rep.floor('R1', 'proximal operator classes', n_prox, 13)
    _positive_control(rep, model)
    _call_sites(ctx, rep)
    from . import c10b
    c10b.run(rep, model)
    return rep


def _positive_control(rep, model):
    src = '''
class _Ctl(object):
    def _call(self, x, out):
        x.ufuncs.absolute(out=out)
        out.lincomb(1, x, -1, out)
'''
    fn = ast.parse(src).body[0].body[0]

    class FakeCI(object):
        qual = name = '_Ctl'
        rel = '<control>'
        methods = {'_call': fn}

        def is_property(self, n):
            return False

    class FakeModel(object):
        func_by_name = {}

        def lookup(self, ci, attr):
            return None, None
    found, _ = hazards(FakeModel(), FakeCI(), fn)
    if len(found) != 1:
        raise AnalysisError('positive control of the hazard rule failed')
    rep.holds('R1', 'positive-control', 'synthetic read-after-write is '
              'flagged')


def _call_sites(ctx, rep):
    """R3: call sites whose input *is* the out object."""
    sites = []
    for rel in SOLVER_FILES:
        tree = ctx.tree(rel)
        for fn in ast.walk(tree):
            if not isinstance(fn, ast.FunctionDef):
                continue
            for c in ast.walk(fn):
                if not isinstance(c, ast.Call) or not c.args:
                    continue
                outs = [k.value for k in c.keywords if k.arg == 'out']
                if not outs or not isinstance(outs[0], ast.Name):
                    continue
                o = outs[0].id
                a = c.args[0]
                aliased = (isinstance(a, ast.Name) and a.id == o) or (
                    isinstance(a, ast.Call) and isinstance(
                        a.func, ast.Attribute) and a.func.attr == 'lincomb'
                    and isinstance(a.func.value, ast.Name)
                    and a.func.value.id == o)
                if aliased:
                    sites.append((rel, fn, c))
    rep.floor('R3', 'aliased call sites in the solver modules', len(sites),
              4)
    for rel, fn, c in sites:
        callee = c.func
        cons = '%s:%s' % (fn.name, ast.unparse(c)[:50])
        # the callee must be obtained from <functional>.proximal(...) or a
        # proximal factory, possibly through a local variable
        ok = _is_proximal_expr(fn, callee, 0)
        if ok:
            rep.holds('R3', cons, 'callee is a proximal operator (scope of '
                      'R1)')
        else:
            rep.undecided('R3', cons, 'cannot resolve the aliased callee '
                          '%s to a proximal operator' % ast.unparse(callee),
                          rel, c.lineno)


def _is_proximal_expr(fn, e, depth):
    if depth > 4:
        return False
    if isinstance(e, ast.Call):
        f = e.func
        if isinstance(f, ast.Attribute) and 'prox' in f.attr:
            return True
        if isinstance(f, ast.Name) and 'prox' in f.id:
            return True
        return _is_proximal_expr(fn, f, depth + 1)
    if isinstance(e, ast.Attribute) and 'prox' in e.attr:
        return True
    if isinstance(e, ast.Subscript):
        return _is_proximal_expr(fn, e.value, depth + 1)
    if isinstance(e, ast.Name):
        if 'prox' in e.id:
            return True
        for s in ast.walk(fn):
            if isinstance(s, ast.Assign) and any(
                    isinstance(t, ast.Name) and t.id == e.id
                    for t in s.targets):
                if _is_proximal_expr(fn, s.value, depth + 1):
                    return True
            if isinstance(s, ast.comprehension) and isinstance(
                    s.target, ast.Name) and s.target.id == e.id:
                if _is_proximal_expr(fn, s.iter, depth + 1):
                    return True
    if isinstance(e, (ast.ListComp, ast.List)):
        elts = [e.elt] if isinstance(e, ast.ListComp) else e.elts
        return all(_is_proximal_expr(fn, x, depth + 1) for x in elts)
    return False
