"""C06, evaluated tier: concrete nonlinear operator classes (and operator
arithmetic on top of them) are instantiated on small real model spaces with
symbolic entries and weights, evaluated at a symbolic generic point x, and

    A.derivative(x)(d)[i] == sum_j (d A(x)[i] / d x_j) d_j

is decided as an identity in all entries, weights and parameters; the partial
derivatives are computed symbolically from the value expression (mdiff).
Also: derivative(x) is linear, maps domain -> range."""
from __future__ import annotations

import ast

import numpy as _np

from ..core import Undecided, AnalysisError
from ..forks import Fork
from ..ratfun import Rat
from ..symex import (Inst, Func, Builtin, Rec, PyRaise, ModuleV, Opaque,
                     is_scalar, to_rat)
from ..namodel import NA, DT, objarr, na_of
from ..spacemodel import NotAnElement
from ..spacemodel import (SMHooks, SMInterp, NSpace, NPSpace, NField, NElem,
                          NPElem, sym_elem, inner, flat)
from .. import posalg as PA
from .. import mdiff
from .c05b import witness, _where
from .c09b import H9, _s

WIT = [witness(25), witness(26)]


def builders(model):
    def inst(I, cls, *a, **k):
        return I.instantiate(model.get(cls), list(a), k)

    def X(w='const', n=3):
        if w == 'const':
            wt = Rat.var('w')
        elif w is None:
            wt = None
        else:
            wt = NA(objarr([Rat.var('w%d' % i) for i in range(n)]),
                    'float64')
        return NSpace((n,), 'float64', wt)

    def PS(wt, cx=False):
        Xc = NSpace((2,), 'float64', Rat.var('w'))
        w = {None: None, 'array': [Rat.var('p0'), Rat.var('p1')]}[wt]
        return NPSpace([Xc, Xc], w)
    B = {}
    for w in (None, 'const', 'array'):
        t = {None: 'unweighted', 'const': 'weight w',
             'array': 'weights w0..w2'}[w]
        for p in (2, 3, -1):
            B['PowerOperator[p=%d,%s]' % (p, t)] = lambda I, w=w, p=p: inst(
                I, 'PowerOperator', X(w), p)
        B['NormOperator[%s]' % t] = lambda I, w=w: inst(
            I, 'NormOperator', X(w))
        B['DistOperator[%s]' % t] = lambda I, w=w: inst(
            I, 'DistOperator', sym_elem(X(w), 'v'))
        B['ConstantOperator[%s]' % t] = lambda I, w=w: inst(
            I, 'ConstantOperator', sym_elem(X(w), 'v'))
    B['PowerOperator[field,p=3]'] = lambda I: inst(
        I, 'PowerOperator', NField('R'), 3)
    for wt in (None, 'array'):
        t = 'pspace' if wt is None else 'weighted pspace'
        for p in (2, 1, 3):
            B['PointwiseNorm[p=%d,%s]' % (p, t)] = lambda I, wt=wt, p=p: inst(
                I, 'PointwiseNorm', PS(wt), p)
        B['PointwiseNorm[p=2,%s,weighting=q]' % t] = lambda I, wt=wt: inst(
            I, 'PointwiseNorm', PS(wt), 2, weighting=NA(objarr(
                [Rat.var('q0'), Rat.var('q1')]), 'float64'))
    # complex modulus: differentiable in the R^2 sense
    for w in ('const', 'array'):
        t = {'const': 'weight w', 'array': 'weights w0..w2'}[w]
        B['ComplexModulus[%s]' % t] = lambda I, w=w: inst(
            I, 'ComplexModulus', X(w).twin(False))
        B['ComplexModulusSquared[%s]' % t] = lambda I, w=w: inst(
            I, 'ComplexModulusSquared', X(w).twin(False))
    # arithmetic on nonlinear leaves: the derivative rules at concrete inner
    # points
    def pw(I, w='const', p=2):
        return inst(I, 'PowerOperator', X(w), p)

    def mul(I, w='const', name='m'):
        return inst(I, 'MultiplyOperator', sym_elem(X(w), name))
    for w in ('const', 'array'):
        t = {'const': 'weight w', 'array': 'weights w0..w2'}[w]
        B['expr:Power2 * vector[%s]' % t] = lambda I, w=w: I.binop(
            ast.Mult, pw(I, w), sym_elem(X(w), 'v'))
        B['expr:vector * Power2[%s]' % t] = lambda I, w=w: I.binop(
            ast.Mult, sym_elem(X(w), 'v'), pw(I, w))
        B['expr:Power2 * a[%s]' % t] = lambda I, w=w: I.binop(
            ast.Mult, pw(I, w), Rat.var('a'))
        B['expr:a * Power2[%s]' % t] = lambda I, w=w: I.binop(
            ast.Mult, Rat.var('a'), pw(I, w))
        B['expr:Power2 + Power3[%s]' % t] = lambda I, w=w: I.binop(
            ast.Add, pw(I, w), pw(I, w, 3))
        B['expr:Power3 o Power2[%s]' % t] = lambda I, w=w: I.binop(
            ast.Mult, pw(I, w, 3), pw(I, w))
        B['expr:Power2 o Multiply[%s]' % t] = lambda I, w=w: I.binop(
            ast.Mult, pw(I, w), mul(I, w))
        B['expr:Norm o Power2[%s]' % t] = lambda I, w=w: I.binop(
            ast.Mult, inst(I, 'NormOperator', X(w)), pw(I, w))
        B['OperatorPointwiseProduct[Power2, Power3][%s]' % t] = (
            lambda I, w=w: inst(I, 'OperatorPointwiseProduct', pw(I, w),
                                pw(I, w, 3)))
        B['expr:Power2 + vector[%s]' % t] = lambda I, w=w: I.binop(
            ast.Add, pw(I, w), sym_elem(X(w), 'v'))
        # mixed linear / nonlinear operands, in both orders
        B['expr:Multiply + Power2[%s]' % t] = lambda I, w=w: I.binop(
            ast.Add, mul(I, w), pw(I, w))
        B['expr:Power2 + Multiply[%s]' % t] = lambda I, w=w: I.binop(
            ast.Add, pw(I, w), mul(I, w))
        B['expr:Multiply - Power3[%s]' % t] = lambda I, w=w: I.binop(
            ast.Sub, mul(I, w), pw(I, w, 3))
        B['expr:Multiply o Power2[%s]' % t] = lambda I, w=w: I.binop(
            ast.Mult, mul(I, w), pw(I, w))
        B['expr:(Multiply + Power2) o Multiply[%s]' % t] = (
            lambda I, w=w: I.binop(ast.Mult, I.binop(
                ast.Add, mul(I, w), pw(I, w)), mul(I, w, 'n')))
        B['OperatorPointwiseProduct[Multiply, Power3][%s]' % t] = (
            lambda I, w=w: inst(I, 'OperatorPointwiseProduct', mul(I, w),
                                pw(I, w, 3)))
    # block operators with nonlinear blocks
    def two(I):
        return pw(I, 'const', 2), pw(I, 'const', 3)
    B['BroadcastOperator[Power2, Power3]'] = lambda I: inst(
        I, 'BroadcastOperator', *two(I))
    B['ReductionOperator[Power2, Power3]'] = lambda I: inst(
        I, 'ReductionOperator', *two(I))
    B['ReductionOperator[Power2 x 2]'] = lambda I: inst(
        I, 'ReductionOperator', pw(I), 2)
    B['BroadcastOperator[Power2 x 2]'] = lambda I: inst(
        I, 'BroadcastOperator', pw(I), 2)
    B['DiagonalOperator[Power2, Power3]'] = lambda I: inst(
        I, 'DiagonalOperator', *two(I))
    B['DiagonalOperator[Power2 x 2]'] = lambda I: inst(
        I, 'DiagonalOperator', pw(I), 2)
    B['ProductSpaceOperator[[P2, P3], [0, P2]]'] = lambda I: inst(
        I, 'ProductSpaceOperator', [[pw(I), pw(I, 'const', 3)],
                                    [0, pw(I)]])
    # affine shifts of operators whose out-of-place result is (a view of)
    # their input
    CX = lambda: NSpace((2,), 'complex128', Rat.var('w'))
    RX = lambda: NSpace((2,), 'float64', Rat.var('w'))
    B['expr:RealPart[R] + vector'] = lambda I: I.binop(
        ast.Add, inst(I, 'RealPart', X()), sym_elem(X(), 'v'))
    B['expr:RealPart[C] + vector'] = lambda I: I.binop(
        ast.Add, inst(I, 'RealPart', CX()), sym_elem(RX(), 'v'))
    B['expr:ImagPart[C] + vector'] = lambda I: I.binop(
        ast.Add, inst(I, 'ImagPart', CX()), sym_elem(RX(), 'v'))
    def flat_shift(I):
        op = inst(I, 'FlatteningOperator', NSpace((2, 3), 'float64',
                                                  Rat.var('w')))
        return I.binop(ast.Add, op, sym_elem(I.getattr_value(op, 'range'),
                                             'v'))
    B['expr:FlatteningOperator + vector'] = flat_shift
    B['expr:IdentityOperator + vector'] = lambda I: I.binop(
        ast.Add, inst(I, 'IdentityOperator', X()), sym_elem(X(), 'v'))
    # pointwise products whose left factor returns its argument itself out
    # of place
    B['OperatorPointwiseProduct[RealPart[R], Power2]'] = lambda I: inst(
        I, 'OperatorPointwiseProduct', inst(I, 'RealPart', X()), pw(I))
    B['OperatorPointwiseProduct[Power2, RealPart[R]]'] = lambda I: inst(
        I, 'OperatorPointwiseProduct', pw(I), inst(I, 'RealPart', X()))
    # compositions that were given a temporary for the inner result
    for t, mk in (('Power2', lambda I: pw(I)),
                  ('Norm', lambda I: inst(I, 'NormOperator', X()))):
        B['OperatorComp(%s, Multiply, tmp=)' % t] = lambda I, mk=mk: inst(
            I, 'OperatorComp', mk(I), inst(I, 'MultiplyOperator', sym_elem(
                X(), 'm')), tmp=sym_elem(X(), 't'))
    B['OperatorComp(ComplexModulusSquared, Multiply, tmp=)'] = (
        lambda I: inst(I, 'OperatorComp', inst(
            I, 'ComplexModulusSquared', NSpace((2,), 'complex128',
                                               Rat.var('w'))),
            inst(I, 'MultiplyOperator', sym_elem(NSpace(
                (2,), 'complex128', Rat.var('w')), 'm')),
            tmp=sym_elem(NSpace((2,), 'complex128', Rat.var('w')), 't')))
    # affine finite-difference operators (constant padding with a non-zero
    # constant) and arithmetic on them: alias-unsafe non-linear operators
    # whose domain equals their range
    from .c13b import D
    cpad = dict(pad_mode='constant', pad_const=Rat.var('pc'))
    for m in ('forward', 'backward', 'central'):
        B['PartialDerivative[%s,constant,pad_const=c]' % m] = (
            lambda I, m=m: inst(I, 'PartialDerivative', D(), 1, method=m,
                                **cpad))
        B['Gradient[%s,constant,pad_const=c]' % m] = (
            lambda I, m=m: inst(I, 'Gradient', D(), method=m, **cpad))
        B['Divergence[%s,constant,pad_const=c]' % m] = (
            lambda I, m=m: inst(I, 'Divergence', range=D(), method=m,
                                **cpad))
    B['Laplacian[constant,pad_const=c]'] = lambda I: inst(
        I, 'Laplacian', D(), **cpad)
    B['expr:PartialDerivative[constant,pad_const=c] * a'] = (
        lambda I: I.binop(ast.Mult, inst(I, 'PartialDerivative', D(), 0,
                                         **cpad), Rat.var('a')))
    B['expr:a * Laplacian[constant,pad_const=c]'] = (
        lambda I: I.binop(ast.Mult, Rat.var('a'), inst(
            I, 'Laplacian', D(), **cpad)))
    B['expr:Laplacian[constant,pad_const=c] * a + PartialDerivative'] = (
        lambda I: I.binop(ast.Add, I.binop(ast.Mult, inst(
            I, 'Laplacian', D(), **cpad), Rat.var('a')), inst(
                I, 'PartialDerivative', D(), 0)))
    B['expr:PartialDerivative[constant,pad_const=c] o (Laplacian * a)'] = (
        lambda I: I.binop(ast.Mult, inst(
            I, 'PartialDerivative', D(), 1, **cpad), I.binop(
                ast.Mult, inst(I, 'Laplacian', D(), **cpad), Rat.var('a'))))
    # functionals are operators into the field: their derivative(x)(d) is
    # decided on the instances of the C09 tier as well
    from . import c09b
    for name, b in c09b.builders(model).items():
        B['functional:' + name] = b
    return B


def evaluate(model, build):
    H = H9()
    H.signs.positive |= {'q0', 'q1'}
    I = SMInterp(model, {}, H)
    A = build(I)
    dom = I.getattr_value(A, 'domain')
    ran = I.getattr_value(A, 'range')
    res = {'dom': dom, 'ran': ran}

    def pt(space, name):
        if isinstance(space, NField):
            return Rat.var(name)
        return sym_elem(space, name)

    def ent(space, v):
        if isinstance(space, NField):
            return [PA.ired(to_rat(v))]
        if isinstance(v, NA):
            v = H.element(I, space, v)
        return flat(v)
    xs = ent(dom, pt(dom, 'x'))
    ys = ent(ran, I.call(A, [pt(dom, 'x')], {}))
    ds = ent(dom, pt(dom, 'd'))
    want = []
    for y in ys:
        tot = Rat.const(0)
        for xv, d in zip(xs, ds):
            # real and imaginary coordinate of the entry: x + I xi
            re_v = [v for v in PA.real_part(xv).vars()]
            im_v = [v for v in PA.imag_part(xv).vars()]
            if len(re_v) != 1 or len(im_v) > 1:
                raise AnalysisError('unexpected symbolic entry %r' % (xv,))
            tot = tot + mdiff.diff(y, re_v[0]) * PA.real_part(d)
            if im_v:
                tot = tot + mdiff.diff(y, im_v[0]) * PA.imag_part(d)
        want.append(PA.ired(tot))
    try:
        der = I.call(I.getattr_value(A, 'derivative'), [pt(dom, 'x')], {})
    except PyRaise as e:
        res['exc'] = e
        return res
    res['lin'] = I.getattr_value(der, 'is_linear')
    res['ddom'] = I.getattr_value(der, 'domain')
    res['dran'] = I.getattr_value(der, 'range')
    # a derivative stays the derivative at its point: the operator is
    # evaluated (both arms) and differentiated at another point before the
    # derivative obtained above is applied
    try:
        I.call(A, [pt(dom, 'z')], {})
        if not isinstance(ran, NField) and not isinstance(dom, NField):
            from ..spacemodel import garbage_elem
            I.call(A, [pt(dom, 'z')], {'out': garbage_elem(ran)})
        I.call(I.call(I.getattr_value(A, 'derivative'), [pt(dom, 'z')], {}),
               [pt(dom, 'e')], {})
    except PyRaise:
        pass
    try:
        got = ent(ran, I.call(der, [pt(dom, 'd')], {}))
    except PyRaise as e:
        res['exc'] = e
        return res
    bad = []
    if len(got) != len(want):
        bad.append('derivative(x)(d) has %d entries, A(x) has %d'
                   % (len(got), len(want)))
    for i, (g, w) in enumerate(zip(got, want)):
        if not PA.same(g, w, WIT):
            bad.append('derivative(x)(d)[%d] is %s, the differential of '
                       'A(x)[%d] = %s in direction d is %s'
                       % (i, _s(g), i, _s(ys[i]), _s(w)))
            break
    res['bad'] = bad
    res['ys'] = ys
    return res


def run(rep, model):
    n = 0
    for name, b in builders(model).items():
        n += 1
        rel, line = _where(model, name.replace('expr:', ''))
        try:
            from ..core import with_budget
            r = with_budget(lambda: evaluate(model, b))
        except (Undecided, Fork) as e:
            rep.undecided('R8', name, str(e), rel)
            continue
        except PyRaise as e:
            rep.violation('R8', name, 'raises %s at `%s`' % (
                e.name, ast.unparse(e.node)[:70] if e.node is not None
                else '?'), rel, getattr(e.node, 'lineno', None))
            continue
        except NotAnElement as e:
            rep.violation('R8', name, 'a call yields no element: %s' % e,
                          rel)
            continue
        probs = []
        if 'exc' in r:
            e = r['exc']
            probs.append('derivative raises %s at `%s`' % (
                e.name, ast.unparse(e.node)[:60] if e.node is not None
                else '?'))
        else:
            probs += r['bad']
            if r['lin'] is not True:
                probs.append('derivative(x) is not flagged linear')
            if not (r['ddom'] == r['dom']):
                probs.append('derivative(x).domain is %r, the domain is %r'
                             % (r['ddom'], r['dom']))
            if not (r['dran'] == r['ran']):
                probs.append('derivative(x).range is %r, the range is %r'
                             % (r['dran'], r['ran']))
        if probs:
            rep.violation('R8', name, '; '.join(probs), rel, line)
        else:
            rep.holds('R8', name, 'derivative(x)(d) is the differential of '
                      'the evaluated A(x) in direction d (%d entries)'
                      % len(r['ys']))
    rep.floor('R8', 'evaluated operator instances', n, 140)
