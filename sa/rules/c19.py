"""C19 -- acquisition geometries are rigid-motion consistent.
See DESIGN.md section C19."""
from __future__ import annotations

import ast
import itertools
from fractions import Fraction as Fr

from ..forks import Fork
from ..core import Report, Undecided, AnalysisError
from ..srcmodel import Model, bind_call, return_exprs
from ..forks import explore
from ..ratfun import Rat, Poly, SAtom, satom
from ..symex import (Interp, Hooks, Inst, Func, Bound, Builtin, Opaque, Rec,
                     SArr, ClassV, NPV, ModuleV, PyRaise, is_scalar, to_rat)
from ..npmodel import NumpyHooks, Mat, matmul, det, trig, sqrt_rat, to_items
from .. import symdiff

UTIL = 'odl/tomo/util/utility.py'
DET = 'odl/tomo/geometry/detector.py'
GEOM = 'odl/tomo/geometry/geometry.py'
PAR = 'odl/tomo/geometry/parallel.py'
CONE = 'odl/tomo/geometry/conebeam.py'


def trig_rules(r):
    """cos(x)**2 -> 1 - sin(x)**2 for every angle atom in r."""
    rules = {}
    for v in r.vars():
        if isinstance(v, SAtom) and v[0] == 'cos':
            s = satom('sin', v[1])
            rules[(v, 2)] = Poly.const(1) - Poly.var(s) ** 2
    return rules


def reduce_all(r, extra=None):
    rules = trig_rules(r)
    if extra:
        rules.update(extra)
    return r.reduce(rules)


def check_rotation(M, extra=None):
    """M^T M = I and det M = 1 modulo the relations; returns problem or
    None."""
    n = M.shape[0]
    MtM = matmul(M.T(), M)
    for i in range(n):
        for j in range(n):
            e = reduce_all(to_rat(MtM.rows[i][j]), extra)
            want = Rat.const(1 if i == j else 0)
            if e != want:
                return '(M^T M)[%d][%d] = %r, not %r' % (i, j, e, want)
    d = reduce_all(det(M), extra)
    if d != Rat.const(1):
        return 'det M = %r, not 1' % (d,)
    return None


class GH(NumpyHooks):
    def on_decide(self, interp, cond, node):
        # generic symbols: norms are non-zero, no degenerate configurations
        if cond.key.startswith('eq0:'):
            return False
        if cond.key.startswith(('Lt:', 'LtE:')):
            return False
        if cond.key.startswith(('Gt:', 'GtE:')):
            return True
        if cond.key.startswith('opaque:'):
            return False
        return NotImplemented


def check(ctx):
    rep = Report(
        'C19', ctx, 'other',
        'R1: the rotation matrices returned by euler_matrix (2-D, 3-D ZXZ), '
        'axis_rotation_matrix (Rodrigues) are obtained by symbolic '
        'interpretation and satisfy M^T M = I and det M = 1 as polynomial '
        'identities modulo cos^2 + sin^2 = 1 and |axis| = 1, i.e. for ALL '
        'angles and axes; CircularDetector is instantiated on a symbolic '
        'axis and radius: the arc passes through the origin at parameter 0, '
        'leaves it along radius * unit axis and keeps distance radius from '
        'a centre on the normal.  R2: surface_deriv is '
        'the symbolic derivative of surface, component by component, for '
        'the five detector classes, with the same linear post-processing.  '
        'R3: det_point_position = det_refpoint + R * surface (contraction '
        'over the last matrix axis) and det_to_src = src_position - '
        'det_point_position.  R4: geometry __getitem__ forwards every '
        'constructor parameter.  R5: the detector extents computed by the '
        'geometry factories are compared with the elementary-geometry '
        'oracle at exact rational witness points (refutation only).',
        ['CPython ast', 'cos^2 + sin^2 = 1; tan(arctan t) = t; '
         'sin(arctan t) = t / sqrt(1 + t^2)', 'np.einsum index-list '
         'semantics', 'elementary geometry of a point source and a cylinder '
         'of radius rho'],
        ['vectorised/broadcast evaluation entry by entry',
         'sampling densities (Nyquist counts)', 'helical detector height '
         '(Tam-Danielson window)', 'rotation_matrix_from_to beyond its use '
         'of axis_rotation_matrix'])
    model = Model(ctx)
    _rotations(rep, model)
    _surfaces(rep, model)
    _curved_detectors(rep, model)
    _detector_alignment(rep, model)
    _det_axes(rep, model)
    _surface_normal(rep, model)
    _from_to(rep, model)
    _alignment_test(rep, model)
    _composition(rep, model)
    _forwarding(rep, model)
    _coverage(rep, model)
    return rep


# --------------------------------------------------------------------------
def _call(model, rel, name, args, kwargs=None, hooks=None):
    fn = model.ctx.func(rel, name)

    def once(assume):
        I = Interp(model, assume, hooks or GH())
        return I.call_func(Func(fn, I.env_of(rel), None), list(args),
                           dict(kwargs or {}))
    leaves = explore(once, limit=30)
    return [r for a, r in leaves], fn


def _rotations(rep, model):
    phi, theta, psi = Rat.var('phi'), Rat.var('theta'), Rat.var('psi')
    cases = [('euler_matrix[2d]', 'euler_matrix', [phi], None, 2),
             ('euler_matrix[3d]', 'euler_matrix', [phi, theta, psi], None,
              3)]
    for tag, name, args, extra, n in cases:
        try:
            res, fn = _call(model, UTIL, name, args)
            for M in res:
                if not isinstance(M, Mat) or M.shape != (n, n):
                    rep.undecided('R1', tag, 'result %r' % (M,), UTIL,
                                  fn.lineno)
                    continue
                p = check_rotation(M)
                if p:
                    rep.violation('R1', name, '%s: not a rotation for all '
                                  'angles: %s' % (tag, p), UTIL, fn.lineno)
                else:
                    rep.holds('R1', tag, 'M^T M = I, det M = 1 identically')
        except Undecided as e:
            rep.undecided('R1', tag, str(e), UTIL,
                          model.ctx.func(UTIL, name).lineno)
        except PyRaise as e:
            rep.violation('R1', name, '%s: raises %s' % (tag, e.name), UTIL,
                          model.ctx.func(UTIL, name).lineno)
    # Rodrigues
    a = [Rat.var('a0'), Rat.var('a1'), Rat.var('a2')]
    unit = {('a2', 2): Poly.const(1) - Poly.var('a0') ** 2
            - Poly.var('a1') ** 2}
    tag = 'axis_rotation_matrix'
    try:
        res, fn = _call(model, UTIL, 'axis_rotation_matrix',
                        [SArr(a), Rat.var('ang')])
        for M in res:
            if not isinstance(M, Mat):
                rep.undecided('R1', tag, 'result %r' % (M,), UTIL, fn.lineno)
                continue
            p = check_rotation(M, unit)
            if p:
                rep.violation('R1', tag, 'not a rotation for all unit axes '
                              'and angles: %s' % p, UTIL, fn.lineno)
            else:
                rep.holds('R1', tag, 'M^T M = I, det M = 1 modulo |a| = 1')
            # the axis is fixed: M a = a
            Ma = matmul(M, SArr(a))
            bad = [i for i in range(3)
                   if reduce_all(to_rat(Ma.items[i]), unit) != a[i]]
            if bad:
                rep.violation('R1', tag, 'the rotation axis is not fixed by '
                              'the matrix (components %s)' % bad, UTIL,
                              fn.lineno)
            else:
                rep.holds('R1', tag + ':axis', 'M a = a')
    except Undecided as e:
        rep.undecided('R1', tag, str(e), UTIL,
                      model.ctx.func(UTIL, tag).lineno)
    except PyRaise as e:
        rep.violation('R1', tag, 'raises %s' % e.name, UTIL,
                      model.ctx.func(UTIL, tag).lineno)
    # (the CircularDetector frame is evaluated in _curved_detectors)


# --------------------------------------------------------------------------
def _component_exprs(fn, varname, pnames):
    """Collect ``var[..., k] = expr`` assignments and the post-processing
    steps applied to ``var`` in function ``fn``.  Returns (components dict,
    ops list)."""
    comps = {}
    ops = []
    for s in ast.walk(fn):
        if isinstance(s, ast.Assign) and isinstance(s.targets[0],
                                                    ast.Subscript) and \
                isinstance(s.targets[0].value, ast.Name) and \
                s.targets[0].value.id == varname:
            sl = s.targets[0].slice
            if isinstance(sl, ast.Tuple) and len(sl.elts) == 2 and \
                    isinstance(sl.elts[1], ast.Constant):
                comps[sl.elts[1].value] = s.value
    for s in fn.body:
        if isinstance(s, ast.AugAssign) and isinstance(s.target, ast.Name) \
                and s.target.id == varname:
            ops.append((type(s.op).__name__, ast.unparse(s.value)))
        if isinstance(s, ast.Assign) and isinstance(s.targets[0], ast.Name) \
                and s.targets[0].id == varname and isinstance(
                    s.value, ast.Call) and ast.unparse(s.value.func) == \
                'np.matmul':
            ops.append(('matmul', ast.unparse(s.value.args[1])))
    return comps, ops


def _eval_comp(node, pname, multi):
    """Component expression -> Rat over trig atoms of the parameters."""
    def ev(n):
        if isinstance(n, ast.Constant) and isinstance(n.value, (int, float)):
            return Rat.const(Fr(repr(n.value)))
        if isinstance(n, ast.UnaryOp) and isinstance(n.op, ast.USub):
            return -ev(n.operand)
        if isinstance(n, ast.BinOp):
            l, r = ev(n.left), ev(n.right)
            if isinstance(n.op, ast.Mult):
                return l * r
            if isinstance(n.op, ast.Add):
                return l + r
            if isinstance(n.op, ast.Sub):
                return l - r
            if isinstance(n.op, ast.Div):
                return l / r
        if isinstance(n, ast.Attribute) and ast.unparse(n) == 'self.radius':
            return Rat.var('radius')
        if isinstance(n, ast.Call) and ast.unparse(n.func) in ('np.cos',
                                                               'np.sin'):
            arg = n.args[0]
            nm = ast.unparse(arg)
            if multi:
                if not (isinstance(arg, ast.Subscript) and ast.unparse(
                        arg.value) == pname):
                    raise Undecided('argument %s' % nm)
                var = 'p%s' % ast.unparse(arg.slice)
            else:
                if nm != pname:
                    raise Undecided('argument %s' % nm)
                var = 'p0'
            return symdiff.A(ast.unparse(n.func)[3:], var)
        if isinstance(n, ast.Subscript) and ast.unparse(n.value) == pname \
                and multi:
            return Rat.var('p%s' % ast.unparse(n.slice))
        if isinstance(n, ast.Name) and n.id == pname and not multi:
            return Rat.var('p0')
        raise Undecided('component expression %s' % ast.unparse(n))
    return ev(node)


def _surfaces(rep, model):
    classes = [('CircularDetector', 1, 2), ('CylindricalDetector', 2, 3),
               ('SphericalDetector', 2, 3)]
    for cname, nparam, ncomp in classes:
        ci = model.get(cname)
        sf, df = ci.methods.get('surface'), ci.methods.get('surface_deriv')
        if sf is None or df is None:
            raise AnalysisError('anchor vanished: %s.surface(_deriv)'
                                % cname)
        pname = sf.args.args[1].arg
        multi = nparam > 1
        tag = '%s.surface_deriv' % cname
        try:
            comps, ops = _component_exprs(sf, 'surf', pname)
            if sorted(comps) != list(range(ncomp)):
                raise Undecided('surface components %s' % sorted(comps))
            surf = [_eval_comp(comps[k], pname, multi) for k in range(ncomp)]
            scale_ops = [o for o in ops if o[0] == 'Mult']
            for o in scale_ops:
                if o[1] != 'self.radius':
                    raise Undecided('scaling by %s' % o[1])
                surf = [c * Rat.var('radius') for c in surf]
            dnames = ['deriv'] if nparam == 1 else None
            if nparam == 2:
                # deriv = np.stack((A, B), axis=-2)
                st = [s for s in ast.walk(df) if isinstance(s, ast.Call)
                      and ast.unparse(s.func) == 'np.stack']
                if len(st) != 1:
                    raise Undecided('no np.stack in surface_deriv')
                dnames = [ast.unparse(e) for e in st[0].args[0].elts]
            probs = []
            for i, dn in enumerate(dnames):
                dcomps, dops = _component_exprs(df, dn, pname)
                if not dcomps:
                    # broadcast constant, e.g. deriv_h = broadcast_to((0,0,1))
                    bc = [s for s in df.body if isinstance(s, ast.Assign)
                          and isinstance(s.targets[0], ast.Name)
                          and s.targets[0].id == dn and isinstance(
                              s.value, ast.Call) and ast.unparse(
                                  s.value.func) == 'np.broadcast_to']
                    if len(bc) != 1:
                        raise Undecided('derivative array %s' % dn)
                    tup = bc[0].value.args[0]
                    dvals = [Rat.const(ast.literal_eval(e))
                             for e in tup.elts]
                else:
                    if sorted(dcomps) != list(range(ncomp)):
                        raise Undecided('derivative components %s of %s'
                                        % (sorted(dcomps), dn))
                    dvals = [_eval_comp(dcomps[k], pname, multi)
                             for k in range(ncomp)]
                    for o in dops:
                        if o[0] == 'Mult':
                            if o[1] != 'self.radius':
                                raise Undecided('scaling by %s' % o[1])
                            dvals = [c * Rat.var('radius') for c in dvals]
                for k in range(ncomp):
                    want = symdiff.diff(surf[k], 'p%d' % i)
                    if not symdiff.equal(dvals[k], want, 'p0') or \
                            not symdiff.equal(dvals[k], want, 'p1'):
                        probs.append(
                            'd surface[%d] / d param[%d] is %r, '
                            'surface_deriv has %r' % (
                                k, i, symdiff.normal(want, 'p%d' % i),
                                dvals[k]))
            # same rotation post-processing; translation only in surface
            rot_s = [o for o in ops if o[0] == 'matmul']
            dops_all = _component_exprs(df, 'deriv', pname)[1]
            rot_d = [o for o in dops_all if o[0] == 'matmul']
            if [o[1] for o in rot_s] != [o[1] for o in rot_d]:
                probs.append('surface is rotated by %s, its derivative by %s'
                             % ([o[1] for o in rot_s], [o[1] for o in rot_d]))
            if any(o[0] == 'Add' for o in dops_all):
                probs.append('a translation is added to the derivative')
            if probs:
                rep.violation('R2', tag, '; '.join(probs[:2]), DET,
                              df.lineno)
            else:
                rep.holds('R2', tag, 'derivative of surface, component by '
                          'component; same rotation, no translation')
        except Undecided as e:
            rep.undecided('R2', tag, str(e), DET, df.lineno)
    # flat detectors: surface = sum p_i * axis_i ; deriv = axes
    for cname, axattr in (('Flat1dDetector', 'self.axis'),
                          ('Flat2dDetector', 'self.axes')):
        ci = model.get(cname)
        sf, df = ci.methods['surface'], ci.methods['surface_deriv']
        tag = '%s.surface_deriv' % cname
        s_src = ast.unparse(sf)
        rets = [ast.unparse(r.value) for r in return_exprs(df)]
        ok_s = 'np.multiply.outer' in s_src and axattr.split('.')[1] in s_src
        ok_d = axattr in rets and all(axattr in r for r in rets)
        if ok_s and ok_d:
            rep.holds('R2', tag, 'surface is linear in the parameters with '
                      'coefficient %s, which is the derivative' % axattr)
        else:
            rep.violation('R2', tag, 'surface is not param (x) %s or the '
                          'derivative is not %s (returns %s)'
                          % (axattr, axattr, rets), DET, df.lineno)
    # surface_measure of the circular detector is the radius
    ci = model.get('CircularDetector')
    sm = ci.methods.get('surface_measure')
    if sm is not None:
        rets = [ast.unparse(r.value) for r in return_exprs(sm)]
        if all(r.startswith('self.radius') for r in rets) and rets:
            rep.holds('R2', 'CircularDetector.surface_measure', '|d surface'
                      '/d phi| = radius')
        else:
            rep.violation('R2', 'CircularDetector.surface_measure',
                          'returns %s, the arc-length element is the radius'
                          % rets, DET, sm.lineno)


# --------------------------------------------------------------------------
def _einsum(a, ax, b, bx, out):
    """np.einsum with index lists on Mat / SArr operands."""
    def get(x, idx):
        if isinstance(x, Mat):
            return to_rat(x.rows[idx[0]][idx[1]])
        if isinstance(x, SArr):
            return to_rat(x.items[idx[0]])
        raise Undecided('einsum operand %r' % (x,))

    def shape(x):
        return x.shape if isinstance(x, Mat) else (len(x.items),)
    dims = {}
    for x, xs in ((a, ax), (b, bx)):
        for d, i in zip(shape(x), xs):
            dims[i] = d
    summed = [i for i in dims if i not in out]

    def entry(assign):
        tot = Rat.const(0)
        for vals in itertools.product(*[range(dims[i]) for i in summed]):
            env = dict(assign)
            env.update(dict(zip(summed, vals)))
            tot = tot + get(a, [env[i] for i in ax]) * get(
                b, [env[i] for i in bx])
        return tot
    if len(out) == 1:
        return SArr([entry({out[0]: k}) for k in range(dims[out[0]])])
    if len(out) == 2:
        return Mat([[entry({out[0]: i, out[1]: j})
                     for j in range(dims[out[1]])]
                    for i in range(dims[out[0]])])
    raise Undecided('einsum output %r' % (out,))


def _composition(rep, model):
    n = 3
    Rm = Mat([[Rat.var('R%d%d' % (i, j)) for j in range(n)]
              for i in range(n)])
    surf = SArr([Rat.var('s%d' % i) for i in range(n)])
    ref = SArr([Rat.var('r%d' % i) for i in range(n)])
    src = SArr([Rat.var('q%d' % i) for i in range(n)])
    nrm = SArr([Rat.var('n%d' % i) for i in range(n)])

    class CH(GH):
        def on_getattr(self, interp, obj, name):
            if isinstance(obj, Inst):
                if name in ('motion_params', 'det_params'):
                    return Rec('params', ndim=1)
                if name == 'rotation_matrix':
                    return Builtin('rotation_matrix', lambda m: Rm)
                if name == 'detector':
                    return Rec('detector',
                               surface=Builtin('surface', lambda d: surf),
                               surface_normal=Builtin('normal',
                                                      lambda d: nrm))
                if name == 'det_refpoint':
                    return Builtin('det_refpoint', lambda m: ref)
                if name == 'src_position':
                    return Builtin('src_position', lambda m: src)
            if obj is NPV and name == 'einsum':
                return Builtin('np.einsum', _einsum)
            return GH.on_getattr(self, interp, obj, name)

    def run(cname, meth, args, kwargs=None):
        ci = model.get(cname)
        fn = ci.methods[meth]

        def once(assume):
            I = Interp(model, assume, CH())
            inst = Inst(ci)
            return I.call_func(Func(fn, I.env_of(ci.rel), ci), list(args),
                               dict(kwargs or {}), inst)
        return [r for a, r in explore(once, limit=20)], ci, fn

    want_pos = [to_rat(ref.items[i]) + sum(
        (to_rat(Rm.rows[i][j]) * to_rat(surf.items[j]) for j in range(n)),
        Rat.const(0)) for i in range(n)]
    tag = 'Geometry.det_point_position'
    try:
        res, ci, fn = run('Geometry', 'det_point_position',
                          [Rat.var('m'), Rat.var('d')])
        for r in res:
            got = [to_rat(x) for x in to_items(r)]
            if got != want_pos:
                rep.violation('R3', tag, 'returns %s, not det_refpoint + R * '
                              'surface = %s' % (got[0], want_pos[0]),
                              ci.rel, fn.lineno)
            else:
                rep.holds('R3', tag, 'det_refpoint(m) + R(m) surface(d)')
    except Undecided as e:
        rep.undecided('R3', tag, str(e), GEOM, None)
    except PyRaise as e:
        rep.violation('R3', tag, 'raises %s' % e.name, GEOM, None)
    tag = 'DivergentBeamGeometry.det_to_src'
    try:
        class DH(CH):
            def on_getattr(self, interp, obj, name):
                if isinstance(obj, Inst) and name == 'det_point_position':
                    return Builtin('dpp', lambda m, d: SArr(want_pos))
                return CH.on_getattr(self, interp, obj, name)
        ci = model.get('DivergentBeamGeometry')
        fn = ci.methods['det_to_src']

        def once(assume):
            I = Interp(model, assume, DH())
            return I.call_func(Func(fn, I.env_of(ci.rel), ci),
                               [Rat.var('m'), Rat.var('d')],
                               {'normalized': False}, Inst(ci))
        for a, r in explore(once, limit=20):
            got = [to_rat(x) for x in to_items(r)]
            want = [to_rat(src.items[i]) - want_pos[i] for i in range(n)]
            if got != want:
                rep.violation('R3', tag, 'is %s, not src_position - '
                              'det_point_position' % got[0], ci.rel,
                              fn.lineno)
            else:
                rep.holds('R3', tag, 'src_position - det_point_position')
    except Undecided as e:
        rep.undecided('R3', tag, str(e), GEOM, None)
    except PyRaise as e:
        rep.violation('R3', tag, 'raises %s' % e.name, GEOM, None)
    tag = 'ParallelBeamGeometry.det_to_src'
    try:
        res, ci, fn = run('ParallelBeamGeometry', 'det_to_src',
                          [Rat.var('m'), Rat.var('d')])
        want = [sum((to_rat(Rm.rows[i][j]) * to_rat(nrm.items[j])
                     for j in range(n)), Rat.const(0)) for i in range(n)]
        for r in res:
            got = [to_rat(x) for x in to_items(r)]
            if got != want:
                rep.violation('R3', tag, 'is %s, not R * surface_normal'
                              % got[0], ci.rel, fn.lineno)
            else:
                rep.holds('R3', tag, 'R(m) * surface_normal(d): independent '
                          'of the detector point for flat detectors')
    except Undecided as e:
        rep.undecided('R3', tag, str(e), PAR, None)
    except PyRaise as e:
        rep.violation('R3', tag, 'raises %s' % e.name, PAR, None)


# --------------------------------------------------------------------------
# evaluation-domain flag, not a geometric parameter (diagnostic only)
NOT_GEOMETRIC = {'check_bounds'}


def _forwarding(rep, model):
    n = 0
    for cname in ('Parallel2dGeometry', 'Parallel3dAxisGeometry',
                  'Parallel3dEulerGeometry', 'FanBeamGeometry',
                  'ConeBeamGeometry'):
        ci = model.classes.get(cname)
        if ci is None:
            raise AnalysisError('anchor vanished: class %s' % cname)
        gi = ci.methods.get('__getitem__')
        init = ci.methods['__init__']
        # parameters whose processing in the constructor is not idempotent:
        # something is added to / subtracted from them (a translation); a
        # normalisation, by contrast, can be repeated
        accumulated, inplace = _accumulations(init)
        if inplace:
            rep.violation(
                'R4m', '%s.__init__' % cname,
                '%s: the array is (an alias of) the caller\'s argument and '
                'of the argument recorded for slicing; updating it in place '
                'changes the caller\'s array, and a geometry built again '
                'from the recorded argument (g[i:j]) applies the update '
                'twice' % '; '.join(inplace), ci.rel, init.lineno)
        else:
            rep.holds('R4m', '%s.__init__' % cname, 'no in-place '
                      'accumulation into an argument array')
        if gi is None:
            continue
        n += 1
        params = [a.arg for a in init.args.args][3:]
        popped = set()
        for c in model.mro(ci):
            i2 = c.methods.get('__init__')
            if i2 is None:
                continue
            for k in ast.walk(i2):
                if isinstance(k, ast.Call) and ast.unparse(k.func) == \
                        'kwargs.pop' and k.args and isinstance(
                            k.args[0], ast.Constant):
                    popped.add(k.args[0].value)
        need = [p for p in params] + sorted(popped)
        recorded = {t.attr for c in model.mro(ci)
                    for i2 in [c.methods.get('__init__')] if i2 is not None
                    for st in ast.walk(i2) if isinstance(st, ast.Assign)
                    for t in st.targets if isinstance(t, ast.Attribute)
                    and isinstance(t.value, ast.Name) and t.value.id == 'self'
                    and t.attr.endswith('_arg')}
        rets = return_exprs(gi)
        cons = '%s.__getitem__' % cname
        if len(rets) != 1 or not isinstance(rets[0].value, ast.Call) or \
                ast.unparse(rets[0].value.func) != cname:
            rep.undecided('R4', cons, 'does not return %s(...)' % cname,
                          ci.rel, gi.lineno)
            continue
        call = rets[0].value
        given = {k.arg: ast.unparse(k.value) for k in call.keywords}
        for p, a in zip([a.arg for a in init.args.args][1:], call.args):
            given[p] = ast.unparse(a)
        probs = []
        for p in need:
            if p in NOT_GEOMETRIC:
                if p not in given:
                    rep.diagnostic('%s does not forward %s (evaluation-'
                                   'domain flag)' % (cons, p))
                continue
            v = given.get(p)
            ok = v in ('self.%s' % p, 'self._%s_arg' % p)
            if not ok:
                probs.append('%s=%s' % (p, v))
            elif v == 'self.%s' % p and ('_%s_arg' % p) in recorded and \
                    p in accumulated:
                # the constructor keeps the argument as given next to the
                # processed value (transformed, translated, normalised):
                # handing the processed value back processes it twice
                probs.append('%s=%s although the constructor records the '
                             'argument as given in self._%s_arg (the '
                             'processed value is processed again)'
                             % (p, v, p))
        if probs:
            rep.violation('R4', cons, 'the sliced geometry is built with %s:'
                          ' every constructor parameter except the sliced '
                          'partitions must be forwarded from the identically'
                          ' named attribute' % ', '.join(probs), ci.rel,
                          call.lineno)
        else:
            rep.holds('R4', cons, 'forwards %s' % need)
    rep.floor('R4', 'geometry classes with __getitem__', n, 4)


def _accumulations(init):
    """(names of parameters that receive `+=` / `-=` or `p = p + ...` in the
    constructor, descriptions of in-place accumulations into arrays that may
    alias a parameter).  Aliases: the parameter itself, `np.asarray(p)` /
    `np.array(p, copy=False)`, and the first vector handed back by
    `transform_system(p, ...)` ("this one goes straight in")."""
    params = {a.arg for a in init.args.args[1:]}
    alias = {p: p for p in params}          # name -> parameter it aliases
    containers = {}                         # list name -> parameter of item 0
    accumulated, inplace = set(), []

    def src(v):
        if isinstance(v, ast.Name):
            return alias.get(v.id)
        if isinstance(v, ast.Call):
            f = ast.unparse(v.func)
            if f in ('np.asarray', 'np.asanyarray') and v.args:
                return src(v.args[0])
            if f == 'np.array' and v.args and any(
                    k.arg == 'copy' and isinstance(k.value, ast.Constant)
                    and k.value.value is False for k in v.keywords):
                return src(v.args[0])
            if ast.unparse(v.func) == 'kwargs.pop' and v.args and \
                    isinstance(v.args[0], ast.Constant) and isinstance(
                        v.args[0].value, str):
                return v.args[0].value      # a keyword argument of the caller
            if isinstance(v.func, ast.Attribute) and v.func.attr == 'pop' \
                    and isinstance(v.func.value, ast.Name) and v.args and \
                    isinstance(v.args[0], ast.Constant) and \
                    v.args[0].value == 0:
                c = v.func.value.id
                r = containers.get(c)
                containers[c] = None        # later items are fresh
                return r
        return None
    for st in init.body:
        for node in ast.walk(st):
            strong = node is st         # nested (conditional): may-alias
            if isinstance(node, ast.Assign) and len(node.targets) == 1 and \
                    isinstance(node.targets[0], ast.Name):
                t, v = node.targets[0].id, node.value
                if isinstance(v, ast.Call) and ast.unparse(v.func) in (
                        'transform_system',) and v.args:
                    containers[t] = src(v.args[0])
                    continue
                if isinstance(v, ast.Call) and ast.unparse(v.func) == \
                        'list' and v.args and isinstance(
                            v.args[0], ast.Name) and \
                        v.args[0].id in containers:
                    containers[t] = containers[v.args[0].id]
                    continue
                if isinstance(v, ast.BinOp) and isinstance(
                        v.op, (ast.Add, ast.Sub)) and isinstance(
                            v.left, ast.Name) and alias.get(v.left.id):
                    accumulated.add(alias[v.left.id])
                    alias[t] = None
                    alias.pop(t, None)
                    # the sum is a new array, but the name still stands for
                    # the processed parameter
                    continue
                a = src(v)
                if a is not None:
                    alias[t] = a
                elif strong:
                    alias.pop(t, None)
            elif isinstance(node, ast.AugAssign) and isinstance(
                    node.target, ast.Name) and isinstance(
                        node.op, (ast.Add, ast.Sub)):
                a = alias.get(node.target.id)
                if a is not None:
                    accumulated.add(a)
                    inplace.append('`%s` (line %d)' % (ast.unparse(node),
                                                       node.lineno))
    return accumulated, inplace


# --------------------------------------------------------------------------
def _coverage(rep, model):
    """R5: detector extents of the factories at exact witness points."""
    witnesses = [
        # (rho, rs, rd, zmin, zmax): rs^2 - rho^2 a perfect square and
        # zmax / (rs - rho) with rational sqrt(1 + t^2)
        (Fr(3), Fr(5), Fr(7), Fr(-3, 2), Fr(3, 2)),
        (Fr(5), Fr(13), Fr(2), Fr(-6), Fr(6)),
        (Fr(8), Fr(17), Fr(17), Fr(-12), Fr(12)),
        # volumes that are not symmetric about the source plane
        (Fr(3), Fr(5), Fr(7), Fr(-3, 2), Fr(1, 2)),
        (Fr(3), Fr(5), Fr(7), Fr(-1, 2), Fr(3, 2)),
        (Fr(5), Fr(13), Fr(2), Fr(-6), Fr(2)),
    ]

    def space(rho, zmin, zmax, ndim, box=None):
        x0, x1, y0, y1 = box or (-rho, rho, -rho, rho)
        part = Rec('partition', cell_sides=SArr([Rat.const(1)] * ndim),
                   min_pt=SArr([Rat.const(x0), Rat.const(y0),
                                Rat.const(zmin)][:ndim]),
                   max_pt=SArr([Rat.const(x1), Rat.const(y1),
                                Rat.const(zmax)][:ndim]),
                   extent=SArr([Rat.const(x1 - x0), Rat.const(y1 - y0),
                                Rat.const(zmax - zmin)][:ndim]))
        dom = Rec('domain', corners=Builtin('corners', lambda: Opaque(
            'corners')), min_pt=part.attrs['min_pt'],
            max_pt=part.attrs['max_pt'])
        return Rec('space', domain=dom, partition=part, ndim=ndim,
                   cell_sides=part.attrs['cell_sides'],
                   shape=tuple([7] * ndim))

    class FH(GH):
        def __init__(self, rho):
            self.rho = rho
            self.det = None

        def on_getattr(self, interp, obj, name):
            if obj is NPV and name == 'max':
                def mx(v, **k):
                    if isinstance(v, Opaque):
                        return Rat.const(self.rho)
                    raise Undecided('np.max(%r)' % (v,))
                return Builtin('np.max', mx)
            return GH.on_getattr(self, interp, obj, name)

        def on_name(self, interp, name):
            if name in ('max', 'min'):
                # arctan is increasing: max(arctan a, arctan b) =
                # arctan(max(a, b)) for numbers a, b
                def mm(*vals):
                    if len(vals) == 1:
                        vals = list(interp.seq(vals[0]))
                    keyed = []
                    for v in vals:
                        r = to_rat(v)
                        if r.is_const():
                            keyed.append((r.constant(), r))
                            continue
                        vs_ = list(r.vars())
                        if len(vs_) == 1 and isinstance(vs_[0], tuple) and \
                                vs_[0][0] == 'arctan' and r == Rat.var(
                                    vs_[0]) and vs_[0][1].is_const():
                            keyed.append((vs_[0][1].constant(), r))
                            continue
                        if vs_ and all(isinstance(v, tuple) and v[0] in (
                                'sqrt', 'root') and v[1].is_const()
                                for v in vs_):
                            # radicals of constants: ordered numerically
                            from .. import posalg as _PA
                            keyed.append((_PA.num_eval(r, {}), r))
                            continue
                        raise Undecided('%s of %r' % (name, vals))
                    kinds = {r.is_const() for _, r in keyed}
                    if len(kinds) != 1 and any(
                            not r.is_const() and k <= 0 for k, r in keyed):
                        raise Undecided('%s of mixed values' % name)
                    pick = max if name == 'max' else min
                    return pick(keyed, key=lambda kr: kr[0])[1]
                return Builtin(name, mm)
            return NotImplemented

        def on_call(self, interp, f, args, kwargs, node):
            if isinstance(f, Func) and f.name == 'uniform_partition':
                if self.det is not None or not (
                        is_scalar(args[0]) and to_rat(args[0]).is_zero()):
                    self.det = (args[0], args[1])
                return Rec('partition')
            if isinstance(f, ClassV):
                # the geometry that is returned: keep its keyword arguments
                self.geom = (f.ci.name, list(args), dict(kwargs))
                return Rec(f.ci.name)
            return GH.on_call(self, interp, f, args, kwargs, node)

    last_hooks = []

    def run(rel, name, sp, args, rho):
        fn = model.ctx.func(rel, name)
        h = FH(rho)
        h.geom = None
        last_hooks[:] = [h]

        def once(assume):
            I = Interp(model, assume, h)
            I.call_func(Func(fn, I.env_of(rel), None), [sp] + list(args), {})
            return h.det
        leaves = explore(once, limit=20)
        return [r for a, r in leaves], fn

    def half(v, i=None):
        v = v if i is None else (v[i] if isinstance(v, (list, tuple))
                                 else to_items(v)[i])
        return to_rat(v)

    # boxes off the rotation axis whose farthest corner (a mixed one) has a
    # rational distance rho from the axis
    for box, rho in (((Fr(-3), Fr(-1), Fr(1), Fr(4)), Fr(5)),
                     ((Fr(1), Fr(12), Fr(-5), Fr(-2)), Fr(13)),
                     ((Fr(-8), Fr(2), Fr(-1), Fr(6)), Fr(10))):
        for ndim in (2, 3):
            tag = 'parallel_beam_geometry[%dd; box x in [%s, %s], y in ' \
                '[%s, %s]]' % ((ndim,) + box)
            try:
                res, fn = run(PAR, 'parallel_beam_geometry',
                              space(rho, Fr(-1), Fr(1), ndim, box), [], rho)
                for lo, hi in res:
                    hw = half(hi) if ndim == 2 else half(hi, 0)
                    lw = half(lo) if ndim == 2 else half(lo, 0)
                    from .. import posalg as _PA
                    if _PA.num_eval(hw, {}) >= float(rho) - 1e-12 and \
                            _PA.num_eval(lw, {}) <= -float(rho) + 1e-12:
                        rep.holds('R5', tag, 'detector covers the farthest '
                                  'corner (distance %s)' % rho)
                    else:
                        rep.violation(
                            'R5', 'parallel_beam_geometry:det_min_pt',
                            '%s: detector [%r, %r] does not reach the '
                            'farthest corner of the volume at distance %s '
                            'from the rotation axis' % (tag, lo, hi, rho),
                            PAR, fn.lineno)
            except Undecided as e:
                rep.undecided('R5', tag, str(e), PAR, None)
            except PyRaise as e:
                rep.violation('R5', 'parallel_beam_geometry', '%s: raises %s'
                              % (tag, e.name), PAR, None)

    for rho, rs, rd, zmin, zmax in witnesses:
        wit = 'rho=%s, r_s=%s, r_d=%s, z in [%s, %s]' % (rho, rs, rd, zmin,
                                                          zmax)
        # oracles
        import math
        root = Fr(math.isqrt(int(rs * rs - rho * rho)))
        assert root * root == rs * rs - rho * rho
        need_w = (rs + rd) * rho / root
        need_h = (rs + rd) * max(abs(zmin), abs(zmax)) / (rs - rho)
        # parallel beam
        for ndim in (2, 3):
            tag = 'parallel_beam_geometry[%dd; %s]' % (ndim, wit)
            try:
                res, fn = run(PAR, 'parallel_beam_geometry',
                              space(rho, zmin, zmax, ndim), [], rho)
                for lo, hi in res:
                    hw = half(hi) if ndim == 2 else half(hi, 0)
                    lw = half(lo) if ndim == 2 else half(lo, 0)
                    from .. import posalg as _PA
                    nv = lambda r: _PA.num_eval(r, {})
                    ok = nv(hw) >= float(rho) - 1e-12 and \
                        nv(lw) <= -float(rho) + 1e-12
                    if ndim == 3:
                        ok = ok and nv(half(lo, 1)) <= float(zmin) + 1e-12 \
                            and nv(half(hi, 1)) >= float(zmax) - 1e-12
                    if ok:
                        rep.holds('R5', tag, 'detector covers the cylinder '
                                  'of radius rho')
                    else:
                        rep.violation(
                            'R5', 'parallel_beam_geometry:det_min_pt',
                            '%s: detector [%r, %r] does not cover the '
                            'shadow of the volume' % (tag, lo, hi), PAR,
                            fn.lineno)
            except Undecided as e:
                rep.undecided('R5', tag, str(e), PAR, None)
            except PyRaise as e:
                rep.violation('R5', 'parallel_beam_geometry', '%s: raises %s'
                              % (tag, e.name), PAR, None)
        # cone / fan beam
        for ndim in (2, 3):
            tag = 'cone_beam_geometry[%dd; %s]' % (ndim, wit)
            try:
                res, fn = run(CONE, 'cone_beam_geometry',
                              space(rho, zmin, zmax, ndim),
                              [Rat.const(rs), Rat.const(rd)], rho)
                for lo, hi in res:
                    hw = half(hi) if ndim == 2 else half(hi, 0)
                    if not hw.is_const():
                        raise Undecided('width %r' % (hw,))
                    if hw.constant() < need_w:
                        rep.violation(
                            'R5', 'cone_beam_geometry:w',
                            '%s: detector half-width %s, but the ray '
                            'tangent to the cylinder of radius rho hits the '
                            'flat detector at (r_s + r_d) * rho / sqrt(r_s^2'
                            ' - rho^2) = %s: the volume is not covered'
                            % (tag, hw.constant(), need_w), CONE, fn.lineno)
                    else:
                        rep.holds('R5', tag + ':w', 'half-width %s >= %s'
                                  % (hw.constant(), need_w))
                    if ndim == 3:
                        hh = half(hi, 1)
                        if not hh.is_const():
                            raise Undecided('height %r' % (hh,))
                        if hh.constant() < need_h:
                            rep.violation(
                                'R5', 'cone_beam_geometry:h',
                                '%s: detector half-height %s, needed '
                                '(r_s + r_d) * max|z| / (r_s - rho) = %s '
                                '(flat detector: tangent, not sine, of the '
                                'half cone angle)'
                                % (tag, hh.constant(), need_h), CONE,
                                fn.lineno)
                        else:
                            rep.holds('R5', tag + ':h', 'half-height %s >= '
                                      '%s' % (hh.constant(), need_h))
            except Undecided as e:
                rep.undecided('R5', tag, str(e), CONE, None)
            except PyRaise as e:
                rep.violation('R5', 'cone_beam_geometry', '%s: raises %s'
                              % (tag, e.name), CONE, None)
        tag = 'helical_geometry[%s]' % wit
        try:
            res, fn = run(CONE, 'helical_geometry',
                          space(rho, zmin, zmax, 3),
                          [Rat.const(rs), Rat.const(rd), 1], rho)
            for lo, hi in res:
                hw = half(hi, 0)
                if not hw.is_const():
                    raise Undecided('width %r' % (hw,))
                if hw.constant() < need_w:
                    rep.violation(
                        'R5', 'helical_geometry:w',
                        '%s: detector half-width %s < %s = (r_s + r_d) * '
                        'rho / sqrt(r_s^2 - rho^2)' % (tag, hw.constant(),
                                                       need_w), CONE,
                        fn.lineno)
                else:
                    rep.holds('R5', tag + ':w', 'half-width %s >= %s'
                              % (hw.constant(), need_w))
            # R5z: the helix runs along the axial extent of the volume:
            # the source starts at the lower face and climbs the height in
            # `num_turns` turns (here 1)
            g = last_hooks[0].geom
            if g is None:
                raise Undecided('no geometry constructed')
            kw = g[2]
            off = to_rat(kw.get('offset_along_axis', 0))
            pitch = to_rat(kw.get('pitch', 0))
            zprobs = []
            if not (off - zmin).is_zero():
                zprobs.append('the source starts at z = %r, the volume at '
                              'z = %s' % (off, zmin))
            if not (off + pitch * 1 - zmax).is_zero():
                zprobs.append('after the last turn the source is at z = %r, '
                              'the volume ends at z = %s' % (off + pitch,
                                                             zmax))
            if zprobs:
                rep.violation('R5z', 'helical_geometry:offset_along_axis',
                              '%s: %s' % (tag, '; '.join(zprobs)), CONE,
                              fn.lineno)
            else:
                rep.holds('R5z', tag + ':z', 'source travels from z = %s to '
                          'z = %s' % (zmin, zmax))
        except Undecided as e:
            rep.undecided('R5', tag, str(e), CONE, None)
        except PyRaise as e:
            rep.violation('R5', 'helical_geometry', '%s: raises %s'
                          % (tag, e.name), CONE, None)


# --------------------------------------------------------------------------
# Curved detectors, evaluated: the arc passes through the origin at
# parameter 0, is tangent to the (unit) axis there, and every point has
# distance `radius` from the centre of curvature
def _curved_detectors(rep, model):
    import numpy as _np
    from ..namodel import NA, NAHooks, NAInterp, DT, na_of, objarr
    from .. import posalg as PA
    from ..symex import Inst as _Inst

    signs = PA.Signs({'r'})

    class DHk(NAHooks):
        def atom1(self, name):
            if name in ('cos', 'sin'):
                return lambda x: trig(name, to_rat(x))
            return NAHooks.atom1(self, name)

        def on_super(self, interp, selfv, cls, name, args, kwargs, target):
            if name == '__init__' and target is not None and \
                    target[0].name == 'Detector':
                selfv.attrs['_Detector__partition'] = args[0]
                selfv.attrs['_Detector__space_ndim'] = args[1]
                selfv.attrs['_Detector__check_bounds'] = False
                return None
            return NotImplemented

        def on_getattr(self, interp, obj, name):
            if isinstance(obj, Rec) and name in obj.attrs:
                return obj.attrs[name]
            if isinstance(obj, ModuleV) and obj.name == 'np.linalg' and \
                    name == 'norm':
                def norm(v, **k):
                    tot = Rat.const(0)
                    for z in na_of(v).a.ravel():
                        tot = tot + to_rat(z) * to_rat(z)
                    return PA.root(tot, 2, signs)
                return Builtin('np.linalg.norm', norm)
            return NAHooks.on_getattr(self, interp, obj, name)

        def on_decide(self, interp, cond, node):
            # the axis is not the zero vector, the radius is positive
            if cond.key.startswith('eq0:'):
                return False
            if cond.key.startswith(('Lt:', 'LtE:')):
                return False
            if cond.key.startswith(('Gt:', 'GtE:')):
                return True
            return NotImplemented

    ci = model.get('CircularDetector')
    tag = 'CircularDetector[axis (a0, a1), radius r]'
    try:
        H = DHk()
        I = NAInterp(model, {}, H)
        a0, a1, r = Rat.var('a0'), Rat.var('a1'), Rat.var('r')
        part = Rec('RectPartition', ndim=1)
        det = I.instantiate(ci, [part, [a0, a1], r], {})
        n = PA.root(a0 * a0 + a1 * a1, 2, signs)
        unit = [a0 / n, a1 / n]

        def red(v):
            return PA.reduce_full(to_rat(v))

        def vec_of(v):
            v = na_of(v)
            return [red(x) for x in v.a.ravel()]
        probs = []
        s0 = vec_of(I.call(I.getattr_value(det, 'surface'), [0], {}))
        if any(not PA.is_zero(c) for c in s0):
            probs.append('surface(0) = %r is not the origin' % (s0,))
        d0 = vec_of(I.call(I.getattr_value(det, 'surface_deriv'), [0], {}))
        want = [r * u for u in unit]
        if len(d0) != 2 or any(not PA.is_zero(g - w)
                               for g, w in zip(d0, want)):
            probs.append('surface_deriv(0) = %r, the arc must leave the '
                         'origin along radius * axis = %r' % (d0, want))
        # distance from the centre of curvature at a generic parameter
        p = Rat.var('p')
        sp = vec_of(I.call(I.getattr_value(det, 'surface'), [p], {}))
        # centre = surface(0) - radius * (inward normal at 0); the normal at
        # 0 is the tangent rotated by 90 degrees, so the centre is at
        # distance r from the origin along +-(−a1, a0)/n
        c = [r * (-a1) / n, r * a0 / n]
        cands = []
        for sgn in (1, -1):
            cc = [sgn * x for x in c]
            dist2 = sum(((sp[i] - cc[i]) * (sp[i] - cc[i]) for i in
                         range(2)), Rat.const(0))
            cands.append(trig_reduce(PA.reduce_full(dist2 - r * r)))
        if not any(x.n.is_zero() for x in cands):
            probs.append('points of the arc are not at distance r from a '
                         'centre on the normal through the origin')
        if probs:
            rep.violation('R1', 'CircularDetector', '; '.join(probs), DET,
                          ci.methods['__init__'].lineno)
        else:
            rep.holds('R1', tag, 'through the origin, tangent to the axis, '
                      'constant curvature radius')
    except Undecided as e:
        rep.undecided('R1', tag, str(e), DET, ci.methods['__init__'].lineno)
    except PyRaise as e:
        rep.violation('R1', 'CircularDetector', 'raises %s' % e.name, DET,
                      ci.methods['__init__'].lineno)


def _detector_alignment(rep, model):
    """R1b: the curved 3-d detectors (cylindrical, spherical) align their
    reference surface with the declared axes by two rotations; evaluated
    exactly on slanted perpendicular axes with rational norms:
    `rotation_matrix` maps the initial axes onto the (normalised) declared
    axes.  `rotation_matrix_from_to(u, v)` is replaced by its specification
    (C19-R2 decides the function itself): the rotation about u x v that
    takes u / |u| to v / |v|, which has rational entries here,
        R = c I + [w]_x + w w^T / (1 + c),  w = u^ x v^,  c = <u^, v^>."""
    import numpy as _np
    from ..namodel import NA, NAHooks, NAInterp, na_of, objarr
    from .. import posalg as PA
    signs = PA.Signs(set())

    def unit(v):
        v = [to_rat(x) for x in v]
        n = PA.root(sum((x * x for x in v), Rat.const(0)), 2, signs)
        if not n.is_const():
            raise Undecided('irrational norm of %r' % (v,))
        return [x / n for x in v]

    def rodrigues(u, v):
        u, v = unit(na_of(u).a.ravel()), unit(na_of(v).a.ravel())
        c = sum((a * b for a, b in zip(u, v)), Rat.const(0))
        w = [u[1] * v[2] - u[2] * v[1], u[2] * v[0] - u[0] * v[2],
             u[0] * v[1] - u[1] * v[0]]
        if (c + 1).is_zero():
            raise Undecided('antiparallel vectors')
        K = [[Rat.const(0), -w[2], w[1]], [w[2], Rat.const(0), -w[0]],
             [-w[1], w[0], Rat.const(0)]]
        R = _np.empty((3, 3), dtype=object)
        for i in range(3):
            for j in range(3):
                R[i, j] = PA.reduce_full(
                    (c if i == j else Rat.const(0)) + K[i][j] +
                    w[i] * w[j] / (1 + c))
        return NA(R, 'float64')

    class AH(NAHooks):
        def atom1(self, name):
            if name in ('cos', 'sin'):
                return lambda x: trig(name, to_rat(x))
            return NAHooks.atom1(self, name)

        def on_call(self, interp, f, args, kwargs, node):
            if isinstance(f, Func) and f.name == 'rotation_matrix_from_to':
                return rodrigues(args[0], args[1])
            return NAHooks.on_call(self, interp, f, args, kwargs, node)

        def on_super(self, interp, selfv, cls, name, args, kwargs, target):
            if name == '__init__' and target is not None and \
                    target[0].name == 'Detector':
                selfv.attrs['_Detector__partition'] = args[0]
                selfv.attrs['_Detector__space_ndim'] = args[1]
                selfv.attrs['_Detector__check_bounds'] = False
                return None
            return NotImplemented

        def on_getattr(self, interp, obj, name):
            if isinstance(obj, Rec) and name in obj.attrs:
                return obj.attrs[name]
            if isinstance(obj, ModuleV) and obj.name == 'np.linalg' and \
                    name == 'norm':
                def norm(v, axis=None, keepdims=False, **k):
                    a = na_of(v).a
                    sq = _np.frompyfunc(lambda z: to_rat(z) * to_rat(z), 1,
                                        1)(a)
                    tot = _np.sum(sq, axis=axis, keepdims=keepdims)
                    rt = lambda z: PA.root(to_rat(z), 2, signs)
                    if isinstance(tot, _np.ndarray):
                        return NA(_np.frompyfunc(rt, 1, 1)(tot), 'float64')
                    return rt(tot)
                return Builtin('np.linalg.norm', norm)
            return NAHooks.on_getattr(self, interp, obj, name)

        def on_decide(self, interp, cond, node):
            if cond.rat is not None and cond.rat.is_const():
                return NotImplemented
            return NotImplemented
    n = 0
    for cls in ('CylindricalDetector', 'SphericalDetector'):
        ci = model.get(cls)
        if ci is None:
            raise AnalysisError('anchor vanished: %s' % cls)
        line = ci.methods['__init__'].lineno
        for axes in ([(1, 2, 2), (2, 1, -2)], [(2, -2, 1), (1, 2, 2)],
                     [(3, 0, 4), (-4, 0, 3)], [(0, -3, 4), (1, 0, 0)]):
            n += 1
            tag = '%s[axes %r]' % (cls, axes)
            try:
                I = NAInterp(model, {}, AH())
                part = Rec('RectPartition', ndim=2)
                det = I.instantiate(ci, [part], {
                    'axes': [list(a) for a in axes], 'radius': 2})
                probs = []
                s0 = [PA.reduce_full(to_rat(z)) for z in na_of(I.call(
                    I.getattr_value(det, 'surface'), [[0, 0]], {})).a.ravel()]
                if any(not z.n.is_zero() for z in s0):
                    probs.append('surface([0, 0]) = %r is not the origin'
                                 % (s0,))
                d0 = na_of(I.call(I.getattr_value(det, 'surface_deriv'),
                                  [[0, 0]], {})).a
                if d0.shape != (2, 3):
                    raise Undecided('surface_deriv shape %r' % (d0.shape,))
                for k in range(2):
                    got = [PA.reduce_full(to_rat(z)) for z in d0[k]]
                    # a curved direction leaves the origin along radius *
                    # axis, a straight one (cylinder height) along the axis
                    wants = [[x * sc for x in unit(axes[k])]
                             for sc in (2, 1)]
                    if not any(all((g - w).is_zero() for g, w in zip(got, w_))
                               for w_ in wants):
                        probs.append('surface_deriv([0, 0])[%d] = %r is not '
                                     'along the declared axis %r'
                                     % (k, got, unit(axes[k])))
                if probs:
                    rep.violation('R1b', cls, '%s: %s' % (tag, probs[0]),
                                  DET, line)
                else:
                    rep.holds('R1b', tag, 'initial axes mapped onto the '
                              'declared axes')
            except Undecided as e:
                rep.undecided('R1b', tag, str(e), DET, line)
            except PyRaise as e:
                rep.violation('R1b', cls, '%s: raises %s at `%s`' % (
                    tag, e.name, ast.unparse(e.node)[:60] if e.node is not
                    None else '?'), DET, line)
    rep.floor('R1b', 'aligned detector instances', n, 8)


def trig_reduce(r):
    """cos(x)^2 -> 1 - sin(x)^2 for every trig atom pair."""
    rules = {}
    for v in r.vars():
        if isinstance(v, tuple) and v[0] == 'cos':
            s = satom('sin', v[1])
            rules[(v, 2)] = Poly.const(1) - Poly.var(s) ** 2
    if not rules:
        return r
    return Rat(r.n.reduce(rules), r.d.reduce(rules))


# --------------------------------------------------------------------------
# R3b: detector axes under motion = rotation matrix applied to each initial
# axis, for one angle and for stacks of angles (entry by entry)
def _surface_normal(rep, model):
    """R8: the default `Detector.surface_normal` evaluated on symbolic,
    generic (not perpendicular, not normalised) tangent vectors, single and
    stacked parameters: the result is perpendicular to both tangents, has
    unit length and the documented orientation."""
    import numpy as _np
    from ..namodel import NA, NAHooks, NAInterp, objarr
    from .. import posalg as PA
    from ..posalg import Signs
    ci = model.get('Detector')
    if ci is None or 'surface_normal' not in ci.methods:
        raise AnalysisError('anchor vanished: Detector.surface_normal')
    signs = Signs(set())

    def tang(shape, tag='t'):
        a = _np.empty(shape, dtype=object)
        for idx in _np.ndindex(*shape):
            a[idx] = Rat.var('%s%s' % (tag, ''.join(map(str, idx))))
        return NA(a, 'float64')

    class H(NAHooks):
        def __init__(self, ndim, sdim, deriv):
            self.ndim, self.sdim, self.deriv = ndim, sdim, deriv

        def on_getattr(self, interp, obj, name):
            if isinstance(obj, Inst):
                if name == 'ndim':
                    return self.ndim
                if name == 'space_ndim':
                    return self.sdim
                if name == 'surface_deriv':
                    return Builtin('surface_deriv', lambda p: NA(
                        self.deriv.a.copy(), 'float64'))
            return NAHooks.on_getattr(self, interp, obj, name)

        def linalg_norm(self, I, v, ord=None, axis=None, keepdims=False,
                        **k):
            if ord not in (None, 2):
                raise Undecided('norm with ord=%r' % (ord,))
            sq = _np.frompyfunc(lambda x: to_rat(x) * to_rat(x), 1, 1)(v.a)
            tot = sq.sum(axis=axis, keepdims=keepdims)
            root = lambda x: PA.root(to_rat(x), 2, signs)
            if isinstance(tot, _np.ndarray):
                return NA(_np.frompyfunc(root, 1, 1)(tot), 'float64')
            return root(tot)

        def atom1(self, name):
            if name == 'sqrt':
                return lambda x: PA.root(to_rat(x), 2, signs)
            return NAHooks.atom1(self, name)

        def on_decide(self, interp, cond, node):
            if cond.rat is not None and cond.key.startswith('eq0:'):
                return False          # generic tangent entries
            return NotImplemented
    from .c05b import witness
    WIT = [witness(45), witness(46)]
    n = 0
    for ndim, sdim, stack in ((2, 3, None), (2, 3, 2), (1, 2, None),
                              (1, 2, 2)):
        n += 1
        tag = 'Detector.surface_normal[%dd detector in %dd, %s]' % (
            ndim, sdim, 'one parameter' if stack is None
            else '%d parameters' % stack)
        fn = ci.methods['surface_normal']
        try:
            if ndim == 2:
                deriv = tang((2, 3) if stack is None else (stack, 2, 3))
            else:
                deriv = tang((2,) if stack is None else (stack, 2))
            I = NAInterp(model, {}, H(ndim, sdim, deriv))
            out = I.call(I.getattr_value(Inst(ci), 'surface_normal'),
                         [Rat.var('u')], {})
            if not isinstance(out, NA):
                raise Undecided('result %r' % (out,))
            probs = []
            want_shape = ((sdim,) if stack is None else (stack, sdim))
            if out.a.shape != want_shape:
                probs.append('shape %r, documented %r' % (out.a.shape,
                                                          want_shape))
            else:
                for s_ in ([None] if stack is None else range(stack)):
                    nv = [to_rat(x) for x in (out.a if s_ is None
                                              else out.a[s_])]
                    d = deriv.a if s_ is None else deriv.a[s_]
                    ts = [[to_rat(x) for x in d[k]] for k in range(2)] \
                        if ndim == 2 else [[to_rat(x) for x in d]]
                    dot = lambda a, b: sum((x * y for x, y in zip(a, b)),
                                           Rat.const(0))
                    for k, t in enumerate(ts):
                        if not PA.equal_exact(dot(nv, t), Rat.const(0),
                                              WIT):
                            probs.append('not perpendicular to tangent %d'
                                         % k)
                    if not PA.equal_exact(dot(nv, nv), Rat.const(1), WIT):
                        probs.append('|normal|^2 = %r, not 1 (tangents need '
                                     'not be perpendicular or normalised)'
                                     % (PA.reduce_full(dot(nv, nv)),))
                    # orientation: det(t0, t1, n) > 0 resp. det(n, t) > 0
                    if ndim == 2:
                        a, b = ts
                        cr = [a[1] * b[2] - a[2] * b[1],
                              a[2] * b[0] - a[0] * b[2],
                              a[0] * b[1] - a[1] * b[0]]
                        ori = dot(cr, nv)
                    else:
                        t = ts[0]
                        ori = nv[0] * t[1] - nv[1] * t[0]
                    for env in WIT:
                        if PA.num_eval(ori, env) <= 0:
                            probs.append('orientation is left-handed')
                            break
            if probs:
                rep.violation('R8', tag, '; '.join(probs[:3]), DET,
                              fn.lineno)
            else:
                rep.holds('R8', tag, 'unit length, perpendicular to the '
                          'tangents, right-handed, for generic tangents')
        except (Undecided, Fork) as e:
            rep.undecided('R8', tag, str(e), DET, fn.lineno)
        except PyRaise as e:
            rep.violation('R8', tag, 'raises %s' % e.name, DET, fn.lineno)
    rep.floor('R8', 'surface normal evaluations', n, 4)
    # R8b: the same through the concrete flat detector classes, whichever
    # method the class resolves `surface_normal` / `surface_deriv` to
    # (inherited or overridden), constructed by their own __init__ from
    # axes that are neither perpendicular nor normalised
    class P(object):
        isinstance_names = ('RectPartition',)

        def __init__(self, ndim):
            self.ndim = ndim

    class H2(H):
        def __init__(self):
            pass

        def on_getattr(self, interp, obj, name):
            if isinstance(obj, P):
                if name == 'ndim':
                    return obj.ndim
                if name == 'set':
                    return Rec('set')
            return NAHooks.on_getattr(self, interp, obj, name)

        def on_decide(self, interp, cond, node):
            # constants with radicals (norms of the rational axes)
            if cond.rat is not None:
                try:
                    v = PA.num_eval(cond.rat, {})
                except (KeyError, Undecided):
                    return NotImplemented
                k = cond.key.split(':')[0]
                if abs(v) > 1e-9:
                    return {'eq0': False, 'Lt': v < 0, 'LtE': v < 0,
                            'Gt': v > 0, 'GtE': v > 0}.get(k, NotImplemented)
            return NotImplemented
    from fractions import Fraction as Fr
    C = lambda *v: [Rat.const(Fr(x)) for x in v]
    nb = 0
    for cname, ndim, axes_list in (
            ('Flat2dDetector', 2, ([C(2, 0, 0), C(3, 0, 4)],
                                   [C(1, 2, 2), C(0, 3, 4)])),
            ('Flat1dDetector', 1, (C(3, 4), C(-5, 12)))):
        dci = model.get(cname)
        if dci is None:
            raise AnalysisError('anchor vanished: %s' % cname)
        for axes in axes_list:
            for stacked in (False, True):
                nb += 1
                tag = '%s.surface_normal[axes %s, %s]' % (
                    cname, [[str(to_rat(x)) for x in a] if isinstance(
                        a, list) else str(to_rat(a)) for a in axes],
                    'two parameters' if stacked else 'one parameter')
                try:
                    I = NAInterp(model, {}, H2())
                    det = I.instantiate(dci, [P(ndim), NA(objarr(
                        [list(a) for a in axes] if ndim == 2
                        else list(axes)), 'float64')],
                        {'check_bounds': False})
                    if ndim == 2:
                        par = [NA(objarr(C(0, 1)), 'float64'),
                               NA(objarr(C(0, 2)), 'float64')] \
                            if stacked else C(0, 0)
                    else:
                        par = NA(objarr(C(0, 1)), 'float64') if stacked \
                            else Rat.const(0)
                    nrm = I.call(I.getattr_value(det, 'surface_normal'),
                                 [par], {})
                    der = I.call(I.getattr_value(det, 'surface_deriv'),
                                 [par], {})
                    sdim = ndim + 1
                    probs = []
                    want_shape = (2, sdim) if stacked else (sdim,)
                    if not isinstance(nrm, NA) or nrm.a.shape != want_shape:
                        probs.append('result %r, documented shape %r' % (
                            nrm, want_shape))
                    else:
                        for s_ in (range(2) if stacked else [None]):
                            nv = [to_rat(x) for x in (
                                nrm.a if s_ is None else nrm.a[s_])]
                            d = der.a if s_ is None else der.a[s_]
                            ts = [[to_rat(x) for x in d[k]]
                                  for k in range(2)] if ndim == 2 else \
                                [[to_rat(x) for x in d]]
                            dot = lambda a, b: sum(
                                (x * y for x, y in zip(a, b)), Rat.const(0))
                            for k, t in enumerate(ts):
                                if not PA.equal_exact(dot(nv, t),
                                                      Rat.const(0), WIT):
                                    probs.append('not perpendicular to '
                                                 'tangent %d' % k)
                            if not PA.equal_exact(dot(nv, nv), Rat.const(1),
                                                  WIT):
                                probs.append('|normal|^2 = %r, not 1' % (
                                    PA.reduce_full(dot(nv, nv)),))
                            if ndim == 2:
                                a, b = ts
                                cr = [a[1] * b[2] - a[2] * b[1],
                                      a[2] * b[0] - a[0] * b[2],
                                      a[0] * b[1] - a[1] * b[0]]
                                ori = dot(cr, nv)
                            else:
                                t = ts[0]
                                ori = nv[0] * t[1] - nv[1] * t[0]
                            if PA.num_eval(ori, WIT[0]) <= 0:
                                probs.append('orientation is left-handed')
                    if probs:
                        rep.violation('R8b', tag, '; '.join(probs[:3]), DET,
                                      dci.node.lineno)
                    else:
                        rep.holds('R8b', tag, 'unit length, perpendicular '
                                  'to the tangents, right-handed')
                except (Undecided, Fork) as e:
                    rep.undecided('R8b', tag, str(e), DET, dci.node.lineno)
                except PyRaise as e:
                    rep.violation('R8b', tag, 'raises %s' % e.name, DET,
                                  dci.node.lineno)
    rep.floor('R8b', 'flat detector normal evaluations', nb, 8)


def _from_to(rep, model):
    """R9: `rotation_matrix_from_to(u, v)` evaluated at pairs of rational
    vectors in every relative position (counter-clockwise, clockwise, right
    angle either way, equal, opposite; in 3d also collinear): the result is
    a rotation (R^T R = 1, det R = 1) that maps u / |u| to v / |v|.  Angles
    are exact (cosine, sine) pairs: arccos of a rational cosine has the
    non-negative sine sqrt(1 - c^2), a sign factor flips the sine."""
    import numpy as _np
    from fractions import Fraction as Fr
    from ..namodel import NA, NAHooks, NAInterp, objarr
    from .. import posalg as PA
    from ..posalg import Signs
    fn = model.ctx.func(UTIL, 'rotation_matrix_from_to')
    if fn is None:
        raise AnalysisError('anchor vanished: rotation_matrix_from_to')
    signs = Signs(set())

    class Angle(object):
        def __init__(self, c, s, kpi=None):
            self.c, self.s = PA.ired(to_rat(c)), PA.ired(to_rat(s))
            self.kpi = kpi           # the angle as a multiple of pi, if known

    def of_pi(k):
        k = Fr(k)
        tab = {Fr(1): (-1, 0), Fr(-1): (-1, 0), Fr(1, 2): (0, 1),
               Fr(-1, 2): (0, -1), Fr(0): (1, 0)}
        if k not in tab:
            raise Undecided('angle %s pi' % k)
        return Angle(tab[k][0], tab[k][1], k)

    def num(v):
        return PA.num_eval(to_rat(v), {})

    class H(NAHooks):
        def np_func(self, I, name):
            if name == 'arccos':
                def arccos(c):
                    c = to_rat(c)
                    return Angle(c, PA.root(1 - c * c, 2, signs))
                return arccos
            if name in ('cos', 'sin'):
                def trig(a):
                    if isinstance(a, NA):
                        return NA(_np.frompyfunc(trig, 1, 1)(a.a), 'float64')
                    if isinstance(a, Angle):
                        return a.c if name == 'cos' else a.s
                    if is_scalar(a) and to_rat(a).is_zero():
                        return Rat.const(1 if name == 'cos' else 0)
                    raise Undecided('%s of %r' % (name, a))
                return trig
            if name == 'sign':
                def sign(v):
                    x = num(v)
                    return Rat.const((x > 1e-12) - (x < -1e-12))
                return sign
            if name == 'clip':
                def clip(v, lo, hi, **k):
                    x = num(v)
                    if lo is not None and x < num(lo):
                        return to_rat(lo)
                    if hi is not None and x > num(hi):
                        return to_rat(hi)
                    return to_rat(v)
                return clip
            if name == 'pi':
                return of_pi(1)
            if name in ('eye', 'identity'):
                def eye(n_, *a, **k):
                    m = _np.empty((n_, n_), dtype=object)
                    for i in range(n_):
                        for j in range(n_):
                            m[i, j] = Rat.const(int(i == j))
                    return NA(m, 'float64')
                return eye
            return NAHooks.np_func(self, I, name)

        def on_binop(self, interp, op, l, r):
            if isinstance(l, Angle) or isinstance(r, Angle):
                a, k = (l, r) if isinstance(l, Angle) else (r, l)
                if not is_scalar(k) or not to_rat(k).is_const():
                    raise Undecided('angle arithmetic with %r' % (k,))
                k = to_rat(k).constant()
                if a.kpi is not None and (op is ast.Mult or (
                        op is ast.Div and isinstance(l, Angle) and k != 0)):
                    return of_pi(a.kpi * k if op is ast.Mult else a.kpi / k)
                if op is ast.Mult and k in (1, -1):
                    return Angle(a.c, a.s * int(k))
                if op is ast.Mult and k == 0:
                    return Rat.const(0)
                raise Undecided('angle arithmetic %r' % (op,))
            return NAHooks.on_binop(self, interp, op, l, r)

        def linalg_norm(self, I, v, ord=None, axis=None, keepdims=False,
                        **k):
            tot = Rat.const(0)
            for x in na_of(v).a.ravel():
                tot = tot + to_rat(x) * to_rat(x)
            return PA.root(tot, 2, signs)

        def on_decide(self, interp, cond, node):
            if cond.rat is not None:
                try:
                    v = num(cond.rat)
                except (KeyError, Undecided):
                    return NotImplemented
                k = cond.key.split(':')[0]
                z = abs(v) < 1e-12
                return {'eq0': z, 'Lt': v < 0 and not z, 'LtE': v < 0 or z,
                        'Gt': v > 0 and not z, 'GtE': v > 0 or z}.get(
                            k, NotImplemented)
            return NotImplemented

    class AI(NAInterp):
        def unary(self, op, v, node=None):
            if isinstance(v, Angle) and isinstance(op, ast.USub):
                return Angle(v.c, -v.s, None if v.kpi is None else -v.kpi)
            return NAInterp.unary(self, op, v, node)
    from ..namodel import na_of
    pairs2 = [((3, 4), (-4, 3), 'right angle, counter-clockwise'),
              ((3, 4), (4, -3), 'right angle, clockwise'),
              ((3, 4), (5, 12), 'counter-clockwise'),
              ((3, 4), (12, 5), 'clockwise'),
              ((3, 4), (-12, 5), 'obtuse, counter-clockwise'),
              ((3, 4), (5, -12), 'obtuse, clockwise'),
              ((1, 0), (3, -4), 'clockwise from the first axis'),
              ((3, 4), (6, 8), 'equal directions'),
              ((3, 4), (-3, -4), 'opposite')]
    pairs3 = [((0, 3, 4), (0, 4, 3), 'in a coordinate plane'),
              ((0, 4, 3), (0, 3, 4), 'in a coordinate plane, other way'),
              ((2, 3, 6), (3, -6, 2), 'right angle'),
              ((1, 2, 2), (2, 4, 4), 'equal directions'),
              ((1, 2, 2), (-1, -2, -2), 'opposite')]
    n = 0
    for u, v, what in pairs2 + pairs3:
        n += 1
        tag = 'rotation_matrix_from_to[%r -> %r, %s]' % (u, v, what)
        try:
            I = AI(model, {}, H())
            R = I.call_func(Func(fn, I.env_of(UTIL), None), [
                NA(objarr([Rat.const(x) for x in u]), 'float64'),
                NA(objarr([Rat.const(x) for x in v]), 'float64')], {})
            d = len(u)
            if not isinstance(R, NA) or R.a.shape != (d, d):
                raise Undecided('result %r' % (R,))
            M = [[to_rat(R.a[i, j]) for j in range(d)] for i in range(d)]
            nu = Fr(sum(x * x for x in u))
            nv = Fr(sum(x * x for x in v))
            ru, rv = PA.root(Rat.const(nu), 2, signs), PA.root(
                Rat.const(nv), 2, signs)
            probs = []
            for i in range(d):
                img = sum((M[i][j] * Rat.const(u[j]) for j in range(d)),
                          Rat.const(0)) / ru
                if abs(num(img - Rat.const(v[i]) / rv)) > 1e-9:
                    probs.append('R u/|u| has entry %d = %.6g, v/|v| has '
                                 '%.6g' % (i, num(img),
                                           num(Rat.const(v[i]) / rv)))
                    break
            for i in range(d):
                for j in range(d):
                    g = sum((M[k][i] * M[k][j] for k in range(d)),
                            Rat.const(0))
                    if abs(num(g) - (1.0 if i == j else 0.0)) > 1e-9:
                        probs.append('R^T R is not the identity')
                        break
                if probs and probs[-1].startswith('R^T'):
                    break
            if d == 2:
                det = M[0][0] * M[1][1] - M[0][1] * M[1][0]
            else:
                det = sum((M[0][i] * (M[1][(i + 1) % 3] * M[2][(i + 2) % 3]
                                      - M[1][(i + 2) % 3] * M[2][(i + 1) % 3])
                           for i in range(3)), Rat.const(0))
            if abs(num(det) - 1.0) > 1e-9:
                probs.append('det R = %.6g' % num(det))
            if probs:
                rep.violation('R9', tag, '; '.join(probs[:2]), UTIL,
                              fn.lineno)
            else:
                rep.holds('R9', tag, 'a rotation that maps u/|u| to v/|v|')
        except (Undecided, Fork) as e:
            rep.undecided('R9', tag, str(e), UTIL, fn.lineno)
        except PyRaise as e:
            rep.violation('R9', tag, 'raises %s' % e.name, UTIL, fn.lineno)
    rep.floor('R9', 'rotation_matrix_from_to evaluations', n, 12)


def _alignment_test(rep, model):
    """R9b: `transform_system` skips the rotation when the given principal
    vector is (numerically) the default one.  The tolerance test behind
    that shortcut must be sensitive in first order to a tilt of the vector:
    with principal_vec = default + eps * perp the difference of the compared
    operands has a non-vanishing derivative at eps = 0 (a quantity that is
    stationary there - the cosine of the angle - accepts tilts of the order
    of the square root of the tolerance)."""
    import numpy as _np
    from ..namodel import NA, NAHooks, NAInterp, objarr, na_of
    from .. import posalg as PA, mdiff
    from ..posalg import Signs
    fn = model.ctx.func(UTIL, 'transform_system')
    if fn is None:
        raise AnalysisError('anchor vanished: transform_system')
    signs = Signs({'eps'})
    seen = []

    class Stop(Exception):
        pass

    class H(NAHooks):
        def np_func(self, I, name):
            if name in ('allclose', 'isclose'):
                def close(a, b, *r, **k):
                    seen.append((a, b))
                    raise Stop()
                return close
            return NAHooks.np_func(self, I, name)

        def linalg_norm(self, I, v, ord=None, axis=None, keepdims=False,
                        **k):
            tot = Rat.const(0)
            for x in na_of(v).a.ravel():
                tot = tot + to_rat(x) * to_rat(x)
            return PA.root(tot, 2, signs)

        def on_decide(self, interp, cond, node):
            if cond.rat is not None:
                try:
                    v = PA.num_eval(cond.rat, {'eps': 1e-3})
                except (KeyError, Undecided):
                    return NotImplemented
                k = cond.key.split(':')[0]
                z = abs(v) < 1e-12
                return {'eq0': z, 'Lt': v < 0 and not z, 'LtE': v < 0 or z,
                        'Gt': v > 0 and not z, 'GtE': v > 0 or z}.get(
                            k, NotImplemented)
            return NotImplemented
    eps = Rat.var('eps')
    n = 0
    for dflt, perp in (((0, 1, 0), (1, 0, 0)), ((0, 0, 1), (0, 1, 0)),
                       ((0, 1), (1, 0))):
        n += 1
        tag = 'transform_system[default %r tilted towards %r]' % (dflt, perp)
        del seen[:]
        try:
            I = NAInterp(model, {}, H())
            pv = NA(objarr([Rat.const(d) + eps * Rat.const(p)
                            for d, p in zip(dflt, perp)]), 'float64')
            pd = NA(objarr([Rat.const(d) for d in dflt]), 'float64')
            try:
                I.call_func(Func(fn, I.env_of(UTIL), None), [pv, pd, []], {})
            except Stop:
                pass
            if not seen:
                raise Undecided('no tolerance test reached')
            a, b = seen[0]
            av = [to_rat(x) for x in (a.a.ravel() if isinstance(a, NA)
                                      else [a])]
            bv = [to_rat(x) for x in (b.a.ravel() if isinstance(b, NA)
                                      else [b])]
            if len(bv) == 1 and len(av) > 1:
                bv = bv * len(av)
            slopes = []
            for x, y in zip(av, bv):
                d = mdiff.diff(PA.ired(x - y), 'eps')
                slopes.append(PA.num_eval(d, {'eps': 0.0}))
            if all(abs(v) < 1e-12 for v in slopes):
                rep.violation(
                    'R9b', tag, 'the shortcut "vectors are aligned" is '
                    'taken when `%s` is close to `%s`; that difference is '
                    'stationary at alignment (derivative 0 with respect to '
                    'the tilt), so tilts up to the square root of the '
                    'tolerance pass and the dependent vectors are not '
                    'rotated with the principal one' % (
                        str(av[0])[:60], str(bv[0])[:40]), UTIL, fn.lineno)
            else:
                rep.holds('R9b', tag, 'tolerance test of first order in the '
                          'tilt (slopes %s)' % ['%.3g' % v for v in slopes])
        except (Undecided, Fork) as e:
            rep.undecided('R9b', tag, str(e), UTIL, fn.lineno)
        except PyRaise as e:
            rep.violation('R9b', tag, 'raises %s' % e.name, UTIL, fn.lineno)
    rep.floor('R9b', 'alignment tests', n, 3)


def _det_axes(rep, model):
    import numpy as _np
    from ..namodel import NA, NAHooks, NAInterp, objarr

    def R_of(tag, n=None):
        shape = (3, 3) if n is None else (n, 3, 3)
        a = _np.empty(shape, dtype=object)
        for idx in _np.ndindex(*shape):
            a[idx] = Rat.var('%s%s' % (tag, ''.join(map(str, idx))))
        return NA(a, 'float64')

    A0 = _np.empty((2, 3), dtype=object)
    for idx in _np.ndindex(2, 3):
        A0[idx] = Rat.var('a%d%d' % idx)

    class H(NAHooks):
        def __init__(self, R):
            self.R = R

        def on_getattr(self, interp, obj, name):
            if isinstance(obj, Inst):
                if name == 'rotation_matrix':
                    return Builtin('rotation_matrix', lambda ang: self.R)
                if name == 'det_axes_init':
                    return NA(A0.copy(), 'float64')
            return NAHooks.on_getattr(self, interp, obj, name)

    n = 0
    for cname in ('Parallel3dAxisGeometry', 'Parallel3dEulerGeometry',
                  'ConeBeamGeometry'):
        ci = model.get(cname)
        if ci is None or 'det_axes' not in ci.methods:
            continue
        for stack in (None, 2):
            n += 1
            tag = '%s.det_axes[%s]' % (cname, 'one angle' if stack is None
                                       else '%d angles' % stack)
            try:
                R = R_of('r', stack)
                I = NAInterp(model, {}, H(R))
                g = Inst(ci)
                out = I.call(I.getattr_value(g, 'det_axes'),
                             [Rat.var('phi') if stack is None else
                              NA(objarr([Rat.var('phi0'), Rat.var('phi1')]),
                                 'float64')], {})
                if not isinstance(out, NA):
                    raise Undecided('result %r' % (out,))
                want_shape = (2, 3) if stack is None else (stack, 2, 3)
                probs = []
                if out.a.shape != want_shape:
                    probs.append('shape %r, documented %r'
                                 % (out.a.shape, want_shape))
                else:
                    for idx in _np.ndindex(*want_shape):
                        k, c = idx[-2], idx[-1]
                        Rm = R.a if stack is None else R.a[idx[0]]
                        want = sum((to_rat(Rm[c, j]) * to_rat(A0[k, j])
                                    for j in range(3)), Rat.const(0))
                        if not (to_rat(out.a[idx]) - want).is_zero():
                            probs.append('entry %r is %r, the rotated '
                                         'initial axis has %r'
                                         % (idx, out.a[idx], want))
                            break
                if probs:
                    rep.violation('R3', cname + '.det_axes', '%s: %s'
                                  % (tag, probs[0]), ci.rel,
                                  ci.methods['det_axes'].lineno)
                else:
                    rep.holds('R3', tag, 'axes[k] = R(angle) . axes_init[k]')
            except Undecided as e:
                rep.undecided('R3', tag, str(e), ci.rel)
            except PyRaise as e:
                rep.violation('R3', cname + '.det_axes', '%s: raises %s'
                              % (tag, e.name), ci.rel)
    rep.floor('R3', 'det_axes evaluations', n, 4)
