"""C17 -- NumPy ufuncs on elements behave like NumPy on the underlying
arrays.  See DESIGN.md section C17.

``NumpyTensor.__array_ufunc__``, ``DiscretizedSpaceElement.__array_ufunc__``,
``writable_array`` and the legacy ``ufuncs`` wrappers are interpreted
symbolically.  The NumPy ufunc is an *uninterpreted* function: applied to
arrays (object arrays with symbolic entries, NumPy's own shape semantics) it
returns arrays of atoms ``u(x_i, y_i)`` (``u.reduce(...)`` etc. for the
methods), writes into ``out`` arrays like NumPy does, and records how it was
called.  "Same numbers as NumPy on the underlying arrays" is then the
statement that the data behind the returned element consists of exactly
those atoms, in a space of the same class with the result's shape and dtype,
and that a given ``out`` object is what comes back, holding the atoms.
"""
from __future__ import annotations

import ast
import itertools
from fractions import Fraction as Fr

import numpy as _np

from ..core import Report, Undecided, AnalysisError
from ..srcmodel import Model
from ..ratfun import Rat, satom
from ..symex import (Interp, Hooks, Inst, Func, Bound, Builtin, Opaque, Rec,
                     ClassV, TypeV, NPV, NI, PyRaise, is_scalar, to_rat)
from ..namodel import (NA, NAHooks, NAInterp, DT, symbols, filled, na_of,
                       as_dt, objarr, promote, scalar_dt)

NPY = 'odl/space/npy_tensors.py'
DSP = 'odl/discr/discr_space.py'
BASE = 'odl/space/base_tensors.py'
UFN = 'odl/util/ufuncs.py'
UTIL = 'odl/util/utility.py'


class UFunc(object):
    """An uninterpreted NumPy ufunc."""

    isinstance_names = ('ufunc',)

    def __init__(self, name, nin, nout, kind='same'):
        self.name, self.nin, self.nout, self.kind = name, nin, nout, kind

    def __repr__(self):
        return 'np.%s' % self.name


UFUNCS = {
    'sin': UFunc('sin', 1, 1), 'negative': UFunc('negative', 1, 1),
    'isfinite': UFunc('isfinite', 1, 1, 'bool'),
    'add': UFunc('add', 2, 1), 'multiply': UFunc('multiply', 2, 1),
    'minimum': UFunc('minimum', 2, 1), 'maximum': UFunc('maximum', 2, 1),
    'less': UFunc('less', 2, 1, 'bool'),
    'modf': UFunc('modf', 1, 2), 'divmod': UFunc('divmod', 2, 2),
    # two outputs of different dtypes (mantissa: input dtype, exponent: int32)
    'frexp': UFunc('frexp', 1, 2, 'frexp'),
}


class TS(object):
    """Tensor space record."""

    isinstance_names = ('NumpyTensorSpace', 'TensorSpace', 'LinearSpace')

    def __init__(self, shape, dtype, exponent=2.0, weighting=None,
                 ctor_kwargs=None, tag=''):
        self.shape = tuple(shape)
        self.dtype = as_dt(dtype)
        self.exponent = exponent
        self.weighting = weighting
        self.ctor_kwargs = ctor_kwargs
        self.tag = tag

    def __repr__(self):
        return 'TS(%s, %s)' % (self.shape, self.dtype.d)


class DS(object):
    """Discretized space record."""

    isinstance_names = ('DiscretizedSpace', 'TensorSpace', 'LinearSpace')

    def __init__(self, partition, tspace, axis_labels, how=None):
        self.partition = partition
        self.tspace = tspace
        self.axis_labels = axis_labels
        self.how = how


class CallLog(object):
    def __init__(self):
        self.ufunc_calls = []
        self.space_ctor = []
        self.elements = []


def atom(u, slot, method, payload):
    return Rat.var(satom('uf', u.name, method, slot, payload))


class UH(NAHooks):
    def __init__(self, model):
        self.model = model
        self.log = CallLog()

    # ---- the uninterpreted ufunc ------------------------------------------
    def res_dt(self, u, ins, kw, method='__call__'):
        if kw.get('dtype') is not None:
            return as_dt(kw['dtype'])
        if u.kind == 'bool':
            return DT(bool)
        if method in ('reduce', 'accumulate', 'reduceat') and \
                u.name in ('add', 'multiply') and len(ins) == 1 and \
                isinstance(ins[0], NA):
            # NumPy: sums and products of integers narrower than the
            # platform integer (and of booleans) are accumulated in the
            # platform integer of the same signedness
            d = ins[0].dt.d
            if d.kind in 'bi' and d.itemsize < 8:
                return DT('int64')
            if d.kind == 'u' and d.itemsize < 8:
                return DT('uint64')
        return promote(*[i.dt if isinstance(i, NA) else scalar_dt(i)
                         for i in ins])

    def apply(self, I, u, method, args, kwargs):
        kw = dict(kwargs)
        out = kw.pop('out', None)
        self.log.ufunc_calls.append((u, method, list(args), dict(kwargs)))
        for a in args:
            if isinstance(a, Inst):
                # NumPy would dispatch back to __array_ufunc__: the element
                # was not unwrapped
                raise PyRaise('RecursionError')
        known = {'dtype', 'where', 'casting', 'order', 'subok'}
        if method in ('reduce', 'accumulate', 'reduceat'):
            known |= {'axis'}
        if method == 'reduce':
            known |= {'keepdims', 'initial'}
        if method == 'at':
            known = set()
        bad = set(kw) - known
        if bad:
            raise PyRaise('TypeError')
        try:
            if method == '__call__':
                return self._call(I, u, args, kw, out)
            if method == 'reduce':
                return self._reduce(I, u, args, kw, out)
            if method == 'accumulate':
                return self._accumulate(I, u, args, kw, out)
            if method == 'outer':
                return self._outer(I, u, args, kw, out)
            if method == 'at':
                return self._at(I, u, args, kw)
            if method == 'reduceat':
                return self._reduceat(I, u, args, kw, out)
        except (ValueError, IndexError) as e:
            raise PyRaise(type(e).__name__)
        raise Undecided('ufunc method %s' % method)

    def _emit(self, I, res_arrays, out, dts):
        """Write results into ``out`` (if given) like NumPy; return what
        NumPy returns."""
        n = len(res_arrays)
        outs = out if isinstance(out, tuple) else (out,) * 1 if n == 1 \
            else (None,) * n
        if isinstance(out, tuple) and len(out) != n:
            raise PyRaise('ValueError')
        rets = []
        for r, o, dt in zip(res_arrays, outs, dts):
            if o is None:
                rets.append(NA(r, dt) if isinstance(r, _np.ndarray) and
                            r.ndim > 0 else (r[()] if isinstance(
                                r, _np.ndarray) else r))
            else:
                if not isinstance(o, NA):
                    raise PyRaise('TypeError')
                if not _np.can_cast(dt.d, o.dt.d, 'same_kind'):
                    raise PyRaise('UFuncTypeError')
                if o.a.shape != _np.shape(r):
                    raise PyRaise('ValueError')
                self.store(I, o, Ellipsis, NA(r, dt) if isinstance(
                    r, _np.ndarray) else r)
                rets.append(o)
        return rets[0] if n == 1 else tuple(rets)

    def _call(self, I, u, args, kw, out):
        if len(args) != u.nin:
            raise PyRaise('TypeError')
        ins = [a if isinstance(a, NA) else (na_of(a) if isinstance(
            a, (list, tuple)) else a) for a in args]
        arrs = [i.a if isinstance(i, NA) else objarr(i) for i in ins]
        b = _np.broadcast(*arrs)
        res = [_np.empty(b.shape, dtype=object) for _ in range(u.nout)]
        bc = [_np.broadcast_to(a, b.shape) for a in arrs]
        for idx in _np.ndindex(*b.shape):
            payload = tuple(to_rat(a[idx]) for a in bc)
            for k in range(u.nout):
                res[k][idx] = atom(u, k, 'call', payload)
        dt = self.res_dt(u, ins, kw)
        dts = [dt] * u.nout
        if u.kind == 'frexp':
            dts = [dt, DT('int32')]
        return self._emit(I, res, out, dts)

    def _axis_tuple(self, axis, ndim):
        if axis is None:
            return tuple(range(ndim))
        if isinstance(axis, (tuple, list)):
            ax = [int(a) for a in axis]
        else:
            ax = [int(axis)]
        out = []
        for a in ax:
            if not -ndim <= a < ndim:
                raise PyRaise('AxisError')
            out.append(a % ndim)
        return tuple(out)

    def _reduce(self, I, u, args, kw, out):
        if u.nin != 2 or len(args) != 1:
            raise PyRaise('ValueError')
        a = na_of(args[0])
        axes = self._axis_tuple(kw.get('axis', 0), a.a.ndim)
        keep = bool(kw.get('keepdims', False))
        rest = [i for i in range(a.a.ndim) if i not in axes]
        moved = _np.transpose(a.a, rest + list(axes))
        oshape = tuple(a.a.shape[i] for i in rest)
        res = _np.empty(oshape, dtype=object)
        for idx in _np.ndindex(*oshape):
            sub = moved[idx]
            payload = tuple(to_rat(v) for v in _np.ravel(sub)) + (
                ('axes',) + axes,)
            res[idx] = atom(u, 0, 'reduce', payload)
        if keep:
            shp = [1 if i in axes else a.a.shape[i]
                   for i in range(a.a.ndim)]
            res = res.reshape(shp)
        dt = self.res_dt(u, [a], kw, 'reduce')
        return self._emit(I, [res], out, [dt])

    def _accumulate(self, I, u, args, kw, out):
        a = na_of(args[0])
        (ax,) = self._axis_tuple(kw.get('axis', 0), a.a.ndim)
        res = _np.empty(a.a.shape, dtype=object)
        for idx in _np.ndindex(*a.a.shape):
            pre = []
            for k in range(idx[ax] + 1):
                j = list(idx)
                j[ax] = k
                pre.append(to_rat(a.a[tuple(j)]))
            res[idx] = atom(u, 0, 'accumulate', tuple(pre))
        return self._emit(I, [res], out, [self.res_dt(u, [a], kw,
                                                      'accumulate')])

    def _outer(self, I, u, args, kw, out):
        a, b = na_of(args[0]), na_of(args[1])
        shp = a.a.shape + b.a.shape
        res = _np.empty(shp, dtype=object)
        for i in _np.ndindex(*a.a.shape):
            for j in _np.ndindex(*b.a.shape):
                res[i + j] = atom(u, 0, 'outer', (to_rat(a.a[i]),
                                                  to_rat(b.a[j])))
        return self._emit(I, [res], out, [self.res_dt(u, [a, b], kw)])

    def _at(self, I, u, args, kw):
        a = args[0]
        if not isinstance(a, NA):
            raise PyRaise('TypeError')
        idx = args[1]
        vals = args[2] if len(args) > 2 else None
        ii = [int(to_rat(x).constant()) for x in (
            idx.a.ravel() if isinstance(idx, NA) else idx)]
        for k, i in enumerate(ii):
            v = None if vals is None else (
                vals.a.ravel()[k] if isinstance(vals, NA) else vals)
            a.a[i] = atom(u, 0, 'at', (to_rat(a.a[i]),) + (
                () if v is None else (to_rat(v),)))
        return None

    def _reduceat(self, I, u, args, kw, out):
        a = na_of(args[0])
        idx = [int(to_rat(x).constant()) for x in (
            args[1].a.ravel() if isinstance(args[1], NA) else args[1])]
        (ax,) = self._axis_tuple(kw.get('axis', 0), a.a.ndim)
        shp = list(a.a.shape)
        shp[ax] = len(idx)
        res = _np.empty(shp, dtype=object)
        for o in _np.ndindex(*shp):
            res[o] = atom(u, 0, 'reduceat', (tuple(idx), o))
        return self._emit(I, [res], out, [self.res_dt(u, [a], kw)])

    # ---- model values ---------------------------------------------------------------
    def mk_tensor(self, space, data):
        t = Inst(self.model.get('NumpyTensor'))
        t.attrs['_NumpyTensor__data'] = data
        t.attrs['_LinearSpaceElement__space'] = space
        return t

    def mk_delem(self, dspace, tensor):
        e = Inst(self.model.get('DiscretizedSpaceElement'))
        e.attrs['_DiscretizedSpaceElement__tensor'] = tensor
        e.attrs['_LinearSpaceElement__space'] = dspace
        return e

    def ts_element(self, sp, inp=None, **k):
        if isinstance(inp, Inst) and inp.ci.name == 'NumpyTensor':
            inp = inp.attrs['_NumpyTensor__data']
        if not isinstance(inp, NA):
            raise Undecided('tspace.element(%r)' % (inp,))
        if inp.a.shape != sp.shape:
            raise PyRaise('ValueError')
        data = inp
        if inp.dt != sp.dtype:
            data = NA(inp.a.copy(), sp.dtype)
        t = self.mk_tensor(sp, data)
        self.log.elements.append((sp, inp, t))
        return t

    def ds_element(self, sp, inp=None, **k):
        if not (isinstance(inp, Inst) and inp.ci.name == 'NumpyTensor'):
            raise Undecided('discr.element(%r)' % (inp,))
        if inp.attrs['_LinearSpaceElement__space'].shape != \
                sp.partition.attrs['shape']:
            raise PyRaise('ValueError')
        e = self.mk_delem(sp, inp)
        self.log.elements.append((sp, inp, e))
        return e

    # ---- hooks -----------------------------------------------------------------------
    def on_name(self, interp, name):
        if name == 'nullcontext':
            return NotImplemented
        return NotImplemented

    def np_func(self, I, name):
        if name in UFUNCS:
            return UFUNCS[name]
        if name == 'isscalar':
            return lambda v: is_scalar(v) or isinstance(v, (bool, str))
        base = NAHooks.np_func(self, I, name)
        if name in ('asarray', 'array', 'asanyarray'):
            def asarr(v, *a, **k):
                if isinstance(v, Inst):
                    # NumPy's array protocol: obj.__array__(dtype)
                    dt = k.get('dtype', a[0] if a else None)
                    m = I.getattr_value(v, '__array__')
                    v = I.call(m, [] if dt is None else [dt], {})
                return base(v, *a, **k)
            return asarr
        return base

    def on_getattr(self, interp, obj, name):
        I = interp
        if obj is NPV and name in UFUNCS:
            return UFUNCS[name]
        if isinstance(obj, UFunc):
            if name in ('nin', 'nout'):
                return getattr(obj, name)
            if name == '__name__':
                return obj.name
            if name in ('reduce', 'accumulate', 'outer', 'at', 'reduceat'):
                return Builtin('%s.%s' % (obj.name, name),
                               lambda *a, **k: self.apply(I, obj, name,
                                                          list(a), k))
            raise PyRaise('AttributeError')
        if isinstance(obj, TS):
            if name in ('shape', 'dtype', 'exponent', 'weighting'):
                return getattr(obj, name)
            if name == 'ndim':
                return len(obj.shape)
            if name == 'size':
                return int(_np.prod(obj.shape)) if obj.shape else 0
            if name == 'element':
                return Builtin('tspace.element',
                               lambda *a, **k: self.ts_element(obj, *a, **k))
            if name == 'field':
                return Rec('field', element=Builtin('field.element',
                                                    lambda v: v))
            raise PyRaise('AttributeError')
        if isinstance(obj, DS):
            if name in ('partition', 'tspace', 'axis_labels'):
                return getattr(obj, name)
            if name in ('shape', 'ndim', 'size'):
                return obj.partition.attrs[name]
            if name in ('weighting', 'exponent', 'dtype'):
                return getattr(obj.tspace, name)
            if name == 'element':
                return Builtin('discr.element',
                               lambda *a, **k: self.ds_element(obj, *a, **k))
            if name == 'byaxis_in':
                return ByAxis(self, obj)
            raise PyRaise('AttributeError')
        if isinstance(obj, Rec):
            if name in obj.attrs:
                return obj.attrs[name]
            raise PyRaise('AttributeError')
        return NAHooks.on_getattr(self, interp, obj, name)

    def on_subscript(self, interp, obj, idx):
        if isinstance(obj, ByAxis):
            return obj.index(idx)
        return NAHooks.on_subscript(self, interp, obj, idx)

    def on_call(self, interp, f, args, kwargs, node):
        I = interp
        if isinstance(f, UFunc):
            return self.apply(I, f, '__call__', args, kwargs)
        if isinstance(f, TypeV) and f.name == 'NumpyTensorSpace':
            shape, dtype = args[0], args[1]
            sp = TS(shape, dtype, kwargs.get('exponent', 2.0),
                    kwargs.get('weighting'), dict(kwargs))
            self.log.space_ctor.append(sp)
            return sp
        if isinstance(f, ClassV) and f.ci.name == 'DiscretizedSpace':
            part, tsp = args[0], args[1]
            if part.attrs['shape'] != tsp.shape:
                raise PyRaise('ValueError')
            sp = DS(part, tsp, kwargs.get('axis_labels'), 'ctor')
            self.log.space_ctor.append(sp)
            return sp
        if isinstance(f, ClassV) and f.ci.name == \
                'NumpyTensorSpaceConstWeighting':
            return Rec('ConstWeighting', const=args[0],
                       exponent=args[1] if len(args) > 1 else
                       kwargs.get('exponent', 2.0), fresh=True)
        if isinstance(f, Func) and f.name == 'is_floating_dtype':
            return as_dt(args[0]).d.kind in 'fc'
        return NotImplemented


class ByAxis(object):
    def __init__(self, H, ds):
        self.H, self.ds = H, ds

    def index(self, idx):
        if isinstance(idx, int):
            idx = [idx]
        axes = [int(i) for i in idx]
        part = self.ds.partition
        shp = tuple(part.attrs['shape'][i] for i in axes)
        sub = Rec('partition', shape=shp, ndim=len(shp),
                  size=int(_np.prod(shp)) if shp else 0, axes=tuple(axes),
                  parent=part)
        ts = self.ds.tspace
        new = DS(sub, TS(shp, ts.dtype, ts.exponent, ts.weighting),
                 None if self.ds.axis_labels is None else tuple(
                     self.ds.axis_labels[i] for i in axes), 'byaxis_in')

        def astype(dt):
            r = DS(sub, TS(shp, dt, ts.exponent, ts.weighting),
                   new.axis_labels, 'byaxis_in')
            return r
        new.astype = astype
        return new


class UI(NAInterp):
    def getattr_value(self, obj, name, func=None):
        if isinstance(obj, DS) and name == 'astype' and hasattr(
                obj, 'astype'):
            return Builtin('astype', obj.astype)
        return NAInterp.getattr_value(self, obj, name, func)


# ---------------------------------------------------------------------------
def weighting_rec(tag):
    return Rec('ConstWeighting', const=Rat.var('w_' + tag),
               exponent=Rat.const(2), fresh=False)


def setup(model, shape=(2, 3), dt='float64'):
    H = UH(model)
    I = UI(model, {}, H)
    return I, H


def tensor(H, name, shape=(2, 3), dt='float64', space=None):
    sp = space or TS(shape, dt, Rat.const(2), weighting_rec(name), tag=name)
    return H.mk_tensor(sp, symbols(name, shape, dt))


def data_of(t):
    if isinstance(t, Inst) and t.ci.name == 'DiscretizedSpaceElement':
        t = t.attrs['_DiscretizedSpaceElement__tensor']
    if isinstance(t, Inst):
        return t.attrs['_NumpyTensor__data']
    return t


def expect_call(u, slot, ins, shape):
    arrs = [i.a if isinstance(i, NA) else objarr(i) for i in ins]
    bc = [_np.broadcast_to(a, shape) for a in arrs]
    out = {}
    for idx in _np.ndindex(*shape):
        out[idx] = atom(u, slot, 'call', tuple(to_rat(a[idx]) for a in bc))
    return out


def same_entries(arr, want):
    if not isinstance(arr, NA):
        return 'result data is %r' % (arr,)
    if set(_np.ndindex(*arr.a.shape)) != set(want):
        return 'result shape %r' % (arr.a.shape,)
    for idx, w in want.items():
        g = arr.a[idx]
        if g is None or not (to_rat(g) - w).is_zero():
            return 'entry %r is %r, NumPy on the arrays gives %r' % (
                idx, g, w)
    return None


def guarded(rep, rule, cons, fn, file=NPY):
    try:
        msg = fn()
    except PyRaise as e:
        rep.violation(rule, cons, 'raises %s at `%s`' % (
            e.name, ast.unparse(e.node)[:80] if e.node is not None else '?'),
            file, getattr(e.node, 'lineno', None))
        return
    except Undecided as e:
        rep.undecided(rule, cons, str(e), file)
        return
    if msg:
        rep.violation(rule, cons, msg, file)
    else:
        rep.holds(rule, cons)


def ufunc_call(I, elem, u, method, inputs, kwargs):
    f = I.getattr_value(elem, '__array_ufunc__')
    return I.call(f, [u, method] + list(inputs), dict(kwargs))


def check(ctx):
    rep = Report(
        'C17', ctx, 'other',
        'NumpyTensor.__array_ufunc__, DiscretizedSpaceElement.'
        '__array_ufunc__, writable_array, Tensor.__array__ / '
        '__array_wrap__, NumpyTensor.asarray / __setitem__, the legacy '
        'TensorSpaceUfuncs / ProductSpaceUfuncs wrappers and the no-copy '
        'arm of NumpyTensorSpace.element are interpreted symbolically with '
        'an uninterpreted ufunc that behaves like NumPy on arrays (object '
        'arrays with symbolic entries; broadcasting, axis handling, out '
        'writing, keyword rejection).  R1: for every method (__call__ with '
        'one / two outputs, reduce, accumulate, outer, at, reduceat), '
        'operand mix (element / array / scalar in either order), out kind '
        '(none, element, tensor, ndarray, partly given) and the keyword '
        'options dtype / axis / keepdims, the data behind the result are '
        'exactly the values NumPy computes on the underlying arrays, the '
        'ufunc is invoked once on arrays that share memory with the '
        'operands, a given out object is written and returned.  R3: the '
        'result lives in a space of the same class with the shape and '
        'dtype of the NumPy result (discretized: same partition, remaining '
        'axes for reduce -- negative axes normalised --, appended '
        'partitions for outer).  R2: the legacy x.ufuncs.<name>() wrappers '
        'agree with the NumPy call.  R4: wrapping shares memory, asarray '
        'round-trips, __array__ does not copy without a dtype.',
        ['CPython ast', 'NumPy shape semantics on object arrays',
         'the ufunc protocol: NumPy calls __array_ufunc__(ufunc, method, '
         '*inputs, **kwargs) with out as a tuple'],
        ['numerical values of concrete ufuncs and NumPy dtype promotion '
         'tables', 'product-space elements beyond the legacy wrappers',
         'non-contiguous out arrays', 'weighting propagation policy '
         '(not part of the property)'])
    model = Model(ctx)
    for nm in ('NumpyTensor', 'DiscretizedSpaceElement', 'Tensor'):
        ci = model.get(nm)
        if ci is None or '__array_ufunc__' not in ci.methods:
            raise AnalysisError('anchor vanished: %s.__array_ufunc__' % nm)
    from . import c17b
    n = c17b.tensor_rules(rep, model)
    rep.floor('R1', 'tensor ufunc scenarios', n, 60)
    n = c17b.discr_rules(rep, model)
    rep.floor('R1', 'discretized ufunc scenarios', n, 40)
    c17b.legacy_rules(rep, model)
    c17b.wrapping_rules(rep, model)
    c17b.pspace_protocol(rep, model)
    return rep
