"""C18 -- Fourier and wavelet transforms invert exactly and agree across
back-ends.  See DESIGN.md section C18 (partial)."""
from __future__ import annotations

import ast
import itertools
from fractions import Fraction as Fr

from ..core import Report, Undecided, AnalysisError
from ..srcmodel import Model, bind_call, return_exprs
from ..forks import explore
from ..ratfun import Rat, SAtom, satom
from .. import vs
from ..symex import (Interp, Hooks, Inst, Func, Bound, Builtin, Opaque, Rec,
                     SArr, ClassV, NPV, ModuleV, PyRaise, Vec, SpaceV,
                     is_scalar, to_rat, _Scope)
from ..npmodel import NumpyHooks
from ..paths import walk_paths, strip_doc

FT = 'odl/trafos/util/ft_utils.py'
FOUR = 'odl/trafos/fourier.py'
PYFFTW = 'odl/trafos/backends/pyfftw_bindings.py'
WAVE = 'odl/trafos/wavelet.py'

PI = Rat.var('pi')


class FH(NumpyHooks):
    """Hooks for the reciprocal-grid / pre- and post-processing formulas."""

    def __init__(self):
        self.grid = None
        self.linspace = []

    def on_call(self, interp, f, args, kwargs, node):
        if isinstance(f, Func):
            if f.name == 'normalized_scalar_param_list':
                param = args[0]
                length = kwargs.get('length', args[1] if len(args) > 1
                                    else None)
                if isinstance(param, (list, tuple)):
                    return list(param)
                return [param] * length
            if f.name == 'uniform_grid':
                self.grid = (args[0], args[1], args[2])
                return Rec('RectGrid')
        return NotImplemented

    def on_getattr(self, interp, obj, name):
        if obj is NPV and name == 'linspace':
            def ls(a, b, num=None, **k):
                self.linspace.append((a, b, num if num is not None
                                      else k.get('num')))
                return Opaque('freqs')
            return Builtin('np.linspace', ls)
        if obj is NPV and name == 'exp':
            return Builtin('np.exp', lambda v, **k: Opaque('exp'))
        return NumpyHooks.on_getattr(self, interp, obj, name)

    def on_decide(self, interp, cond, node):
        if cond.key.startswith('eq0:'):
            return False
        if cond.key.startswith(('Lt:', 'LtE:', 'Gt:', 'GtE:')) and \
                cond.rat is not None and cond.rat.d.is_const():
            # decide by the leading coefficient in the size symbol m (large)
            p = cond.rat.n
            lead = [c for mono, c in p.t.items()
                    if any(str(v).startswith('m') and str(v)[1:].isdigit()
                           or v == 'm' for v in dict(mono))]
            if lead:
                pos = lead[0] / cond.rat.d.constant() > 0
                if cond.key.startswith(('Lt:', 'LtE:')):
                    return not pos
                return pos
        return NotImplemented


def N_of(parity):
    m = Rat.var('m')
    return m * 2 if parity == 'even' else m * 2 + 1


def recip_case(model, shift, parity, halfcomplex):
    """Run reciprocal_grid for one axis; returns (rmin, rmax, rshape, s, N)."""
    fn = model.ctx.func(FT, 'reciprocal_grid')
    s = Rat.var('s')
    N = N_of(parity)
    h = FH()
    grid = Rec('RectGrid', ndim=1, stride=SArr([s]), shape=(N,),
               min_pt=SArr([Rat.var('x0')]), max_pt=SArr([Rat.var('x1')]))

    def once(assume):
        I = Interp(model, assume, h)
        I.call_func(Func(fn, I.env_of(FT), None), [grid],
                    {'shift': shift, 'halfcomplex': halfcomplex})
        return h.grid
    leaves = explore(once, limit=10)
    if len(leaves) != 1:
        raise Undecided('%d paths' % len(leaves))
    rmin, rmax, rshape = leaves[0][1]
    return (to_rat(rmin.items[0]), to_rat(rmax.items[0]),
            to_rat(rshape[0]), s, N)


def check(ctx):
    rep = Report(
        'C18', ctx, 'other',
        'R1: reciprocal_grid is evaluated symbolically for every (shift, '
        'parity, halfcomplex) case: rmax - rmin = (rshape - 1) * 2 pi/(s N),'
        ' rshape = N or N//2 + 1, and realspace_grid restores stride and '
        'shape; on 2-d grids with axes subsets, mixed parities and per-axis '
        'shifts every axis agrees with the one-axis rule and untouched axes '
        'are unchanged.  R2: the fmin/fmax table of dft_postprocess_data equals '
        'rmin*s/2pi, rmax*s/2pi of reciprocal_grid in all eight cases and '
        'the phase of dft_preprocess_data equals exp(imag*rmin*s*k).  R3: '
        'for each transform class x sign x halfcomplex the NumPy and pyFFTW '
        'arms apply the same kernel direction and the same power of N; '
        'forward classes are unnormalised, inverse classes carry 1/N once. '
        'R4: inverse wiring (sign flipped, spaces swapped, all options '
        'forwarded; involution), also for the wavelet classes.  R5: no '
        'read of an array after the FFTW planner destroyed it.  R6: two '
        'guards about one fact use one predicate.',
        ['CPython ast', 'np.fft.fftn/ifftn/rfftn/irfftn normalisation '
         'conventions; pyfftw_call(normalise_idft) summary', 'FFTW planning '
         'with effort above ESTIMATE overwrites its input array'],
        ['numerical agreement with numpy.fft and FFTW', 'convergence to the '
         'analytic transform of a Gaussian', 'wavelet perfect reconstruction'
         ' (a property of PyWavelets filters): not applicable'])
    model = Model(ctx)
    _recip(rep, model)
    _cross_site(rep, model)
    _preprocess_eval(rep, model)
    _normalisation(rep, model)
    _processing_args(rep, model)
    _reciprocal_space_axes(rep, model)
    _wiring(rep, model)
    _planner(rep, model)
    _guards(rep, model)
    _real_length(rep, ctx)
    _wavelet_crop(rep, model)
    _wavelet_adjoint(rep, model)
    return rep


def recip_nd(model, parities, shift, axes, halfcomplex):
    """reciprocal_grid on a 2-d grid with an axes subset; returns per-axis
    (rmin, rmax, rshape) and the symbols used."""
    fn = model.ctx.func(FT, 'reciprocal_grid')
    nd = len(parities)
    S = [Rat.var('s%d' % a) for a in range(nd)]
    M = [Rat.var('m%d' % a) for a in range(nd)]
    Ns = [M[a] * 2 if parities[a] == 'even' else M[a] * 2 + 1
          for a in range(nd)]
    h = FH()
    grid = Rec('RectGrid', ndim=nd, stride=SArr(list(S)), shape=tuple(Ns),
               min_pt=SArr([Rat.var('x0_%d' % a) for a in range(nd)]),
               max_pt=SArr([Rat.var('x1_%d' % a) for a in range(nd)]))

    def once(assume):
        I = Interp(model, assume, h)
        kw = {'shift': shift, 'halfcomplex': halfcomplex}
        if axes is not None:
            kw['axes'] = axes
        I.call_func(Func(fn, I.env_of(FT), None), [grid], kw)
        return h.grid
    leaves = explore(once, limit=10)
    if len(leaves) != 1:
        raise Undecided('%d paths' % len(leaves))
    rmin, rmax, rshape = leaves[0][1]
    return ([to_rat(v) for v in rmin.items], [to_rat(v) for v in rmax.items],
            [to_rat(v) for v in rshape], S, M)


def _recip_nd(rep, model):
    """The per-axis result of the n-d function on an axes subset equals the
    (identity-checked) one-axis result of that axis; axes outside the subset
    are untouched; the half-complex reduction acts on the last transform
    axis only."""
    fn = model.ctx.func(FT, 'reciprocal_grid')
    n = 0
    one = {}

    def one_axis(shift, parity, hc):
        k = (shift, parity, hc)
        if k not in one:
            one[k] = recip_case(model, shift, parity, hc)
        return one[k]
    for parities in itertools.product(('even', 'odd'), repeat=2):
        for axes in (None, (0,), (1,), (0, 1), (1, 0), 1):
            for hc in (False, True):
                for shift in (True, False, 'mixed'):
                    ax = [0, 1] if axes is None else (
                        [axes] if isinstance(axes, int) else list(axes))
                    if shift == 'mixed':
                        if len(ax) < 2:
                            continue
                        sh = [True, False]
                    else:
                        sh = [shift] * len(ax)
                    tag = 'reciprocal_grid[2-d %s,axes=%s,shift=%s,' \
                        'halfcomplex=%s]' % ('/'.join(parities), axes, shift,
                                             hc)
                    n += 1
                    try:
                        rmin, rmax, rshape, S, M = recip_nd(
                            model, parities, sh if shift == 'mixed'
                            else shift, axes, hc)
                        probs = []
                        for a in range(2):
                            if a not in ax:
                                w = (Rat.var('x0_%d' % a),
                                     Rat.var('x1_%d' % a),
                                     M[a] * 2 if parities[a] == 'even'
                                     else M[a] * 2 + 1)
                            else:
                                sa = sh[ax.index(a)]
                                r1 = one_axis(sa, parities[a],
                                              hc and a == ax[-1])
                                sub = {'s': S[a], 'm': M[a]}
                                w = tuple(v.subs(sub) for v in r1[:3])
                            got = (rmin[a], rmax[a], rshape[a])
                            for nm, g, ww in zip(('min', 'max', 'shape'),
                                                 got, w):
                                if g != ww:
                                    probs.append('axis %d: %s = %r, the '
                                                 'one-axis rule gives %r'
                                                 % (a, nm, g, ww))
                        if probs:
                            rep.violation('R1', 'reciprocal_grid', '%s: %s'
                                          % (tag, '; '.join(probs[:2])), FT,
                                          fn.lineno)
                        else:
                            rep.holds('R1', tag, 'axes agree with the '
                                      'one-axis rule')
                    except Undecided as e:
                        rep.undecided('R1', tag, str(e), FT, fn.lineno)
                    except PyRaise as e:
                        rep.violation('R1', 'reciprocal_grid',
                                      '%s: raises %s' % (tag, e.name), FT,
                                      fn.lineno)
    rep.floor('R1', '2-d reciprocal grid configurations', n, 100)


# --------------------------------------------------------------------------
def _recip(rep, model):
    fn = model.ctx.func(FT, 'reciprocal_grid')
    for shift, parity, hc in itertools.product((True, False),
                                               ('even', 'odd'),
                                               (False, True)):
        tag = 'reciprocal_grid[shift=%s,%s,halfcomplex=%s]' % (shift, parity,
                                                              hc)
        try:
            rmin, rmax, rshape, s, N = recip_case(model, shift, parity, hc)
            m = Rat.var('m')
            want_shape = (m + 1) if hc else N
            rstride = PI * 2 / (s * N)
            probs = []
            if rshape != want_shape:
                probs.append('rshape = %r, expected %r' % (rshape,
                                                           want_shape))
            if rmax - rmin != (rshape - 1) * rstride:
                probs.append('rmax - rmin = %r, expected (rshape - 1) * '
                             '2pi/(sN) = %r' % (rmax - rmin,
                                                (rshape - 1) * rstride))
            # zero frequency is a grid point for shifted axes: rmin + k*rs
            if probs:
                rep.violation('R1', 'reciprocal_grid', '%s: %s'
                              % (tag, '; '.join(probs)), FT, fn.lineno)
            else:
                rep.holds('R1', tag, 'stride 2pi/(sN), %s points'
                          % ('N//2+1' if hc else 'N'))
        except Undecided as e:
            rep.undecided('R1', tag, str(e), FT, fn.lineno)
        except PyRaise as e:
            rep.violation('R1', 'reciprocal_grid', '%s: raises %s'
                          % (tag, e.name), FT, fn.lineno)
    _recip_nd(rep, model)
    # realspace_grid inverts stride and shape
    fn2 = model.ctx.func(FT, 'realspace_grid')
    for parity, hc in itertools.product(('even', 'odd'), (False, True)):
        tag = 'realspace_grid[%s,halfcomplex=%s]' % (parity, hc)
        try:
            s = Rat.var('s')
            N = N_of(parity)
            m = Rat.var('m')
            rshape = (m + 1) if hc else N
            rstride = PI * 2 / (s * N)
            h = FH()
            rg = Rec('RectGrid', ndim=1, stride=SArr([rstride]),
                     shape=(rshape,))

            def once(assume):
                I = Interp(model, assume, h)
                I.call_func(Func(fn2, I.env_of(FT), None),
                            [rg, SArr([Rat.var('x0')])],
                            {'halfcomplex': hc, 'halfcx_parity': parity})
                return h.grid
            leaves = explore(once, limit=10)
            irmin, irmax, irshape = leaves[0][1]
            n_ = to_rat(irshape.items[0])
            stride = (to_rat(irmax.items[0]) - to_rat(irmin.items[0])) / (
                n_ - 1)
            if n_ != N or stride != s:
                rep.violation('R1', 'realspace_grid', '%s: restores shape %r'
                              ' (expected %r) and stride %r (expected s)'
                              % (tag, n_, N, stride), FT, fn2.lineno)
            else:
                rep.holds('R1', tag, 'restores N and the stride')
        except Undecided as e:
            rep.undecided('R1', tag, str(e), FT, fn2.lineno)
        except PyRaise as e:
            rep.violation('R1', 'realspace_grid', '%s: raises %s'
                          % (tag, e.name), FT, fn2.lineno)


# --------------------------------------------------------------------------
def _loop_of(fn, target_names):
    for s in fn.body:
        if isinstance(s, ast.For) and any(
                isinstance(n, ast.Name) and n.id in target_names
                for n in ast.walk(s.target)):
            return s
    return None


def _cross_site(rep, model):
    fn = model.ctx.func(FT, 'dft_postprocess_data')
    loop = _loop_of(fn, {'shift', 'intp'})
    if loop is None:
        raise AnalysisError('anchor vanished: per-axis loop of '
                            'dft_postprocess_data')
    for shift, parity, hc in itertools.product((True, False),
                                               ('even', 'odd'),
                                               (False, True)):
        tag = 'dft_postprocess_data[shift=%s,%s,halfcomplex=%s]' % (
            shift, parity, hc)
        try:
            rmin, rmax, rshape, s, N = recip_case(model, shift, parity, hc)
            h = FH()

            class PH(FH):
                def on_call(self, interp, f, args, kwargs, node):
                    if isinstance(f, Func) and f.name == '_interp_kernel_ft':
                        return Opaque('kernel')
                    return FH.on_call(self, interp, f, args, kwargs, node)
            # the transformed axis is axis 1 of a two-dimensional grid: every
            # per-axis quantity must be read at index 1 (R2c)
            tracked = {}
            reads = []

            class PH2(PH):
                def on_subscript(self, interp, obj, idx):
                    if id(obj) in tracked:
                        reads.append((tracked[id(obj)], idx))
                    return PH.on_subscript(self, interp, obj, idx)
            h = PH2()
            I = Interp(model, {}, h)
            scope = _Scope(I.env_of(FT))
            min_pt = SArr([Rat.var('xother'), Rat.var('x0')])
            stride = SArr([Rat.var('sother'), s])
            cvecs = [Opaque('xi_other'), Opaque('xi')]
            tracked.update({id(min_pt): 'real_grid.min_pt',
                            id(stride): 'real_grid.stride',
                            id(cvecs): 'recip_grid.coord_vectors'})
            scope.vars.update({
                'axes': [1], 'shift_list': [shift], 'interp': ['nearest'],
                'real_grid': Rec('RectGrid', min_pt=min_pt,
                                 shape=(3, N), stride=stride),
                'recip_grid': Rec('RectGrid', coord_vectors=cvecs,
                                  shape=(3, rshape)),
                'imag': Rat.var('imag'), 'op': 'multiply',
                'onedim_arrs': [], 'out': Rec('arr', dtype=Opaque('dt')),
            })
            # simple assignments that precede the loop (hoisted look-ups)
            prelude = []
            for st in fn.body:
                if st is loop:
                    break
                if isinstance(st, ast.Assign) and all(
                        isinstance(t, ast.Name) and t.id not in scope.vars
                        for t in st.targets):
                    prelude.append(st)

            def once(assume):
                I2 = Interp(model, assume, h)
                h.linspace[:] = []
                reads[:] = []
                sc = _Scope(I2.env_of(FT))
                sc.vars.update(scope.vars)
                sc.vars['onedim_arrs'] = []
                fobj = Func(fn, I2.env_of(FT), None)
                for st in prelude:
                    try:
                        I2.exec_block([st], sc, fobj)
                    except (Undecided, PyRaise):
                        pass          # about arguments this rule does not model
                I2.exec_block([loop], sc, fobj)
                return list(h.linspace), list(reads)
            leaves = explore(once, limit=10)
            if len(leaves) != 1 or len(leaves[0][1][0]) != 1:
                raise Undecided('no unique linspace call')
            wrong = sorted({'%s[%r]' % (what, idx)
                            for what, idx in leaves[0][1][1] if idx != 1})
            if wrong:
                rep.violation(
                    'R2c', 'dft_postprocess_data',
                    '%s: transforming axis 1 of a 2-d grid reads %s (the '
                    'quantities of another axis)' % (tag, ', '.join(wrong)),
                    FT, fn.lineno)
            elif not leaves[0][1][1]:
                raise Undecided('no per-axis grid quantity is read')
            else:
                rep.holds('R2c', tag, 'per-axis quantities read at the '
                          'transformed axis only (%d reads)'
                          % len(leaves[0][1][1]))
            fmin, fmax, num = leaves[0][1][0][0]
            fmin, fmax = to_rat(fmin), to_rat(fmax)
            want_min = rmin * s / (PI * 2)
            want_max = rmax * s / (PI * 2)
            if fmin != want_min or fmax != want_max or to_rat(num) != rshape:
                rep.violation(
                    'R2', 'dft_postprocess_data',
                    '%s: normalised frequencies run from %r to %r (%r '
                    'points); the reciprocal grid of reciprocal_grid gives '
                    '%r to %r (%r points)' % (tag, fmin, fmax, num,
                                              want_min, want_max, rshape),
                    FT, fn.lineno)
            else:
                rep.holds('R2', tag, 'fmin, fmax = rmin*s/2pi, rmax*s/2pi')
        except Undecided as e:
            rep.undecided('R2', tag, str(e), FT, fn.lineno)
        except PyRaise as e:
            rep.violation('R2', 'dft_postprocess_data', '%s: raises %s'
                          % (tag, e.name), FT, fn.lineno)
    # pre-processing phase: exp(factor * k); factor == imag * rmin * s for
    # unshifted axes, (-1)^k for shifted ones
    fn = model.ctx.func(FT, 'dft_preprocess_data')
    inner = [s for s in fn.body if isinstance(s, ast.FunctionDef)]
    tag = 'dft_preprocess_data:_onedim_arr'
    if len(inner) != 1:
        rep.undecided('R2', tag, 'no single inner helper', FT, fn.lineno)
        return
    helper = inner[0]
    try:
        # unshifted arm: factor *= <expr>
        aug = [s for s in ast.walk(helper) if isinstance(s, ast.AugAssign)
               and isinstance(s.op, ast.Mult)]
        if len(aug) != 1:
            raise Undecided('%d in-place multiplications' % len(aug))
        for parity in ('even', 'odd'):
            rmin, rmax, rshape, s, N = recip_case(model, False, parity,
                                                  False)
            h = FH()
            I = Interp(model, {}, h)
            sc = _Scope(I.env_of(FT))
            sc.vars.update({'imag': Rat.var('imag'), 'length': N})
            val = to_rat(I.ev(aug[0].value, sc, Func(fn, I.env_of(FT),
                                                     None)))
            want = Rat.var('imag') * rmin * s
            if val != want:
                rep.violation(
                    'R2', 'dft_preprocess_data',
                    'phase increment per sample is %r, but the first '
                    'frequency of the unshifted reciprocal grid requires '
                    'imag * rmin * s = %r (%s N)' % (val, want, parity), FT,
                    aug[0].lineno)
            else:
                rep.holds('R2', tag + '[unshifted,%s]' % parity,
                          'phase exp(imag * rmin * s * k)')
        # the shifted arm and the per-axis assembly are evaluated (R2b)
    except Undecided as e:
        rep.undecided('R2', tag, str(e), FT, helper.lineno)
    except PyRaise as e:
        rep.undecided('R2', tag, 'raises %s' % e.name, FT, helper.lineno)
    # sign convention: imag = -1j for '-', +1j for '+', in both functions
    for name in ('dft_preprocess_data', 'dft_postprocess_data'):
        f2 = model.ctx.func(FT, name)
        pairs = {}
        for s_ in ast.walk(f2):
            if isinstance(s_, ast.If) and isinstance(s_.test, ast.Compare) \
                    and ast.unparse(s_.test.left) == 'sign':
                for b in s_.body:
                    if isinstance(b, ast.Assign) and ast.unparse(
                            b.targets[0]) == 'imag':
                        pairs[ast.literal_eval(s_.test.comparators[0])] = \
                            ast.unparse(b.value)
        if pairs.get('-') == '-1j' and pairs.get('+') == '1j':
            rep.holds('R2', name + ':sign', "imag = -1j for '-', 1j for '+'")
        else:
            rep.violation('R2', name, 'sign convention %r differs from '
                          "imag = -1j for '-', 1j for '+'" % (pairs,), FT,
                          f2.lineno)


# --------------------------------------------------------------------------
# R2b: dft_preprocess_data evaluated on small complex arrays for every
# pattern of shifted / unshifted axes (equal and different axis lengths):
# the 1-d factor handed to the tensor multiplication for axis k is (-1)^j on
# a shifted axis and exp(-imag * pi * (1 - 1/N) * j) on an unshifted one.
def _preprocess_eval(rep, model):
    import numpy as _np
    from ..spacemodel import SMHooks, SMInterp, IU
    from ..namodel import NA, objarr
    from ..ratfun import satom
    from .. import posalg as PA
    fn = model.ctx.func(FT, 'dft_preprocess_data')
    if fn is None:
        raise AnalysisError('anchor vanished: dft_preprocess_data')

    class H(SMHooks):
        def __init__(self):
            SMHooks.__init__(self)
            self.calls = []

        def np_func(self, I, name):
            if name == 'pi':
                return Rat.var('pi')
            return SMHooks.np_func(self, I, name)

        def on_call(self, interp, f, args, kwargs, node):
            if isinstance(f, Func) and f.name == 'fast_1d_tensor_mult':
                self.calls.append((args, kwargs))
                return kwargs.get('out', args[0])
            if isinstance(f, Func) and \
                    f.name == 'normalized_scalar_param_list':
                p, n = args[0], kwargs.get('length', args[1] if len(
                    args) > 1 else None)
                conv = kwargs.get('param_conv')
                vals = list(p) if isinstance(p, (list, tuple)) else [p] * n
                if len(vals) != n:
                    raise PyRaise('ValueError')
                return [bool(v) for v in vals] if conv is not None else vals
            return SMHooks.on_call(self, interp, f, args, kwargs, node)

    def sym(shape):
        a = _np.empty(shape, dtype=object)
        for idx in _np.ndindex(*shape):
            t = ''.join(map(str, idx))
            a[idx] = Rat.var('a' + t) + IU * Rat.var('b' + t)
        return NA(a, 'complex128')
    n = 0
    for shape in ((2, 2), (3, 3), (2, 3), (3, 3, 2)):
        for shifts in itertools.product((True, False), repeat=len(shape)):
            for sign in ('-', '+'):
                n += 1
                tag = 'dft_preprocess_data[shape=%s,shift=%s,sign=%s]' % (
                    'x'.join(map(str, shape)), list(shifts), sign)
                try:
                    h = H()
                    I = SMInterp(model, {}, h)
                    I.call_func(Func(fn, I.env_of(FT), None), [sym(shape)],
                                {'shift': list(shifts), 'sign': sign})
                    if len(h.calls) != 1:
                        raise Undecided('%d tensor multiplications'
                                        % len(h.calls))
                    args, kw = h.calls[0]
                    arrs = args[1] if len(args) > 1 else kw['onedim_arrs']
                    axes = kw.get('axes', args[2] if len(args) > 2 else None)
                    axes = list(range(len(shape))) if axes is None else \
                        [int(to_rat(a).constant()) if not isinstance(a, int)
                         else a for a in axes]
                    probs = []
                    if sorted(axes) != list(range(len(shape))) or \
                            len(arrs) != len(axes):
                        probs.append('axes %r with %d factor arrays'
                                     % (axes, len(arrs)))
                    imag = -IU if sign == '-' else IU
                    for ax, arr in zip(axes, arrs):
                        N = shape[ax]
                        vals = [PA.ired(to_rat(v)) for v in arr.a.ravel()]
                        if len(vals) != N:
                            probs.append('axis %d: factor of length %d'
                                         % (ax, len(vals)))
                            continue
                        for j in range(N):
                            if shifts[ax]:
                                w = Rat.const((-1) ** j)
                            elif j == 0:
                                w = Rat.const(1)
                            else:
                                arg = PA.ired(-imag * Rat.var('pi') * (
                                    1 - Rat.const(Fr(1, N))) * j)
                                w = Rat.var(satom('exp', arg))
                            if not (vals[j] - w).is_zero():
                                probs.append(
                                    'axis %d (%s): factor[%d] is %r, '
                                    'expected %r' % (
                                        ax, 'shifted' if shifts[ax]
                                        else 'unshifted', j, vals[j], w))
                                break
                    if probs:
                        rep.violation('R2b', tag, '; '.join(probs[:2]), FT,
                                      fn.lineno)
                    else:
                        rep.holds('R2b', tag, 'per-axis factors (-1)^j / '
                                  'exp(-imag pi (1 - 1/N) j)')
                except Undecided as e:
                    rep.undecided('R2b', tag, str(e), FT, fn.lineno)
                except PyRaise as e:
                    rep.violation('R2b', tag, 'raises %s' % e.name, FT,
                                  fn.lineno)
    rep.floor('R2b', 'pre-processing evaluations', n, 40)


# --------------------------------------------------------------------------
class KH(Hooks):
    """FFT kernels as linear operator symbols with an explicit power of N."""

    def __init__(self):
        self.X = SpaceV('A', 'C')
        self.reg = {}
        self.calls = []

    def kern(self, I, name):
        if name not in self.reg:
            self.reg[name] = I.opsym(name, self.X, self.X, True)
        return self.reg[name]

    def apply(self, I, name, x, scale=1):
        v = self.kern(I, name).term.apply(x.val)
        return Vec(vs.scale(v, to_rat(scale)), self.X)

    real_input = False

    def conj_lf(self, I, lf):
        """Complex conjugate of a linear form over the kernels: the
        unnormalised transforms of the two directions are conjugates of each
        other (conj F(v) = B(conj v)), the phase factors of the two signs
        are, a real input is its own conjugate."""
        def cname(nm):
            if nm in ('FWD', 'BWD'):
                return 'BWD' if nm == 'FWD' else 'FWD'
            if nm.endswith('[-]'):
                return nm[:-3] + '[+]'
            if nm.endswith('[+]'):
                return nm[:-3] + '[-]'
            return nm

        def ck(k):
            if k[0] == 'app' and isinstance(k[1], tuple) and \
                    k[1][0] == 'op':
                nm = cname(k[1][1])
                self.kern(I, nm)
                return ('app', ('op', nm), ck(k[2]))
            if k[0] == 'sym' and self.real_input and k[1] == 'x':
                return k
            return vs.conj_atom(k)
        out = {}
        for k, v in lf.items():
            kk = ck(k)
            out[kk] = out.get(kk, vs.ZERO) + vs.conj_scalar(v, {'N'})
        return {k: v for k, v in out.items() if not v.is_zero()}

    def on_getattr(self, interp, obj, name):
        I = interp
        if isinstance(obj, ModuleV) and obj.name == 'np.fft' or (
                obj is NPV and name == 'fft'):
            if obj is NPV:
                return ModuleV('np.fft')
            N = Rat.var('N')
            table = {'fftn': ('FWD', 1), 'rfftn': ('FWD', 1),
                     'ifftn': ('BWD', Rat.const(1) / N),
                     'irfftn': ('BWD', Rat.const(1) / N)}
            if name in table:
                k, sc = table[name]
                return Builtin('np.fft.' + name, lambda x, **kw:
                               self.apply(I, k, x, sc))
        if obj is NPV and name in ('conj', 'conjugate'):
            def kconj(v, out=None, **k):
                r = Vec(self.conj_lf(I, v.val), self.X)
                if isinstance(out, Vec):
                    out.val = r.val
                    return out
                return r
            return Builtin('np.conj', kconj)
        if obj is NPV and name == 'prod':
            return Builtin('np.prod', lambda *a, **k: Rat.var('N'))
        if obj is NPV and name == 'take':
            return Builtin('np.take', lambda *a, **k: Opaque('take'))
        if obj is NPV and name in ('asarray',):
            return Builtin('np.asarray', lambda v, **k: SArr(list(v))
                           if isinstance(v, (tuple, list)) else v)
        if isinstance(obj, Vec) and name in ('real',):
            return obj
        if isinstance(obj, Vec) and name == 'dtype':
            return Opaque('dtype')
        if isinstance(obj, Vec) and name == 'ndim':
            return 2
        return NotImplemented

    def on_call(self, interp, f, args, kwargs, node):
        I = interp
        if isinstance(f, ClassV) and f.ci.name in ('ComplexNumbers',
                                                   'RealNumbers'):
            from ..symex import FieldV
            return FieldV('C' if f.ci.name == 'ComplexNumbers' else 'R')
        if isinstance(f, Func):
            if f.name == 'pyfftw_call':
                x, out = args[0], args[1]
                d = kwargs.get('direction', 'forward')
                self.calls.append({
                    'direction': d,
                    'halfcomplex': bool(kwargs.get('halfcomplex', False)),
                    'axes': tuple(kwargs['axes']) if isinstance(
                        kwargs.get('axes'), (tuple, list)) else
                    kwargs.get('axes')})
                norm = kwargs.get('normalise_idft', False)
                sc = Rat.const(1) / Rat.var('N') if (
                    d == 'backward' and norm) else 1
                r = self.apply(I, 'FWD' if d == 'forward' else 'BWD', x, sc)
                out.val = r.val
                return Opaque('plan')
            if f.name in ('dft_preprocess_data', 'dft_postprocess_data'):
                x = args[0]
                op = kwargs.get('op', '')
                nm = ('PRE' if f.name == 'dft_preprocess_data' else
                      'POST_' + op) + '[%s]' % kwargs.get('sign')
                sh = kwargs.get('shift')
                if nm.startswith('PRE') and sh is not None and all(
                        bool(z) for z in (sh if isinstance(
                            sh, (tuple, list)) else [sh])):
                    # shifted axes: the factors (-1)^j are real and the
                    # same for both signs
                    nm = 'PRE'
                r = self.apply(I, nm, x)
                out = kwargs.get('out')
                if isinstance(out, Vec):
                    out.val = r.val
                    return out
                return r
            if f.name in ('_flag_pyfftw_to_odl', 'is_real_dtype',
                          'is_complex_floating_dtype'):
                return True if f.name.startswith('is_') else 'measure'
        return NotImplemented

    def on_decide(self, interp, cond, node):
        if cond.key.startswith('opaque:'):
            return True
        return NotImplemented


def _admissible(model, cname, sign, hc):
    """Literal guards of the constructors on (sign, halfcomplex)."""
    # forward classes: halfcomplex only with sign '-'; inverse: with '+'
    ci = model.get(cname)
    for c in model.mro(ci):
        init = c.methods.get('__init__')
        if init is None:
            continue
        for s in ast.walk(init):
            if isinstance(s, ast.If) and any(isinstance(x, ast.Raise)
                                             for x in s.body):
                names = {n.id for n in ast.walk(s.test)
                         if isinstance(n, ast.Name)}
                if names and names <= {'sign', 'halfcomplex'}:
                    try:
                        from .c13 import _bool_eval
                        if _bool_eval(s.test, {'sign': sign,
                                               'halfcomplex': hc}):
                            return False
                    except Undecided:
                        pass
    return True


def _normalisation(rep, model):
    cases = [('DiscreteFourierTransform', False),
             ('DiscreteFourierTransformInverse', True),
             ('FourierTransform', False),
             ('FourierTransformInverse', True)]
    n = 0
    for cname, inverse in cases:
        ci = model.get(cname)
        for sign, hc in itertools.product(('-', '+'), (False, True)):
            if hc and ((not inverse and sign == '+')
                       or (inverse and sign == '-')):
                continue        # real-to-halfcomplex is forward only
            if not _admissible(model, cname, sign, hc):
                continue
            for field, shifted in itertools.product(('C', 'R'),
                                                    (True, False)):
                if hc and field == 'C':
                    continue
                if not shifted and not cname.startswith('Fourier'):
                    continue        # the discrete transforms have no shift
                tag = '%s[sign=%s,halfcomplex=%s,real side=%s%s]' % (
                    cname, sign, hc, field, '' if shifted else
                    ',unshifted')
                res = {}
                try:
                    for arm in ('_call_numpy', '_call_pyfftw'):
                        dc, fn = model.lookup(ci, arm)
                        h = KH()
                        h.real_input = field == 'R' and not inverse

                        def once(assume):
                            I = Interp(model, assume, h)
                            inst = Inst(ci)
                            from ..symex import FieldV
                            rs = Rec('space', shape=(Rat.var('N'),),
                                     field=FieldV(field),
                                     grid=Opaque('rgrid'))
                            cs = Rec('space', shape=(Rat.var('N'),),
                                     field=FieldV('C'),
                                     grid=Opaque('fgrid'))
                            inst.attrs.update({
                                'sign': sign, 'halfcomplex': hc,
                                'axes': (0,), 'impl': 'x',
                                '_fftw_plan': None, '_tmp_r': None,
                                '_tmp_f': None, 'shifts': (shifted,),
                                'domain': cs if inverse else rs,
                                'range': rs if inverse else cs})
                            x = Vec(vs.sym('x'), h.X)
                            f = Func(fn, I.env_of(dc.rel), dc)
                            if arm == '_call_numpy':
                                r = I.call_func(f, [x], {}, inst)
                            else:
                                out = Vec(vs.sym('stale'), h.X)
                                r = I.call_func(f, [x, out], {}, inst)
                            return vs.freeze(r.val), vs.show(r.val)
                        leaves = explore(once, limit=10)
                        if len(leaves) != 1:
                            raise Undecided('%d paths in %s' % (len(leaves),
                                                                arm))
                        res[arm] = leaves[0][1]
                        if arm == '_call_pyfftw':
                            res['calls'] = list(h.calls)
                    n += 1
                    # R3p: a plan prepared ahead of time (init_fftw_plan) is
                    # executed by every later call whatever arguments that
                    # call passes: it must be planned with the arguments
                    # the call itself would use
                    if shifted:
                        _plan_agreement(rep, model, ci, cname, tag, sign, hc,
                                        field, inverse, res['calls'])
                    if res['_call_numpy'][0] != res['_call_pyfftw'][0]:
                        rep.violation(
                            'R3', cname, '%s: the NumPy arm computes %s, the '
                            'pyFFTW arm %s (kernel direction or power of N '
                            'differ)' % (tag, res['_call_numpy'][1],
                                         res['_call_pyfftw'][1]), FOUR,
                            ci.node.lineno)
                        continue
                    # power of N
                    lf = vs.thaw(res['_call_numpy'][0])
                    coeffs = list(lf.values())
                    want = Rat.const(1) / Rat.var('N') if inverse else \
                        Rat.const(1)
                    want_dir = 'FWD' if sign == '-' else 'BWD'
                    dirs = {k for k in _kernel_names(lf)}
                    if len(coeffs) != 1 or coeffs[0] != want:
                        rep.violation(
                            'R3', cname, '%s: result %s: %s classes must '
                            'carry N^%s' % (tag, res['_call_numpy'][1],
                                            'inverse' if inverse else
                                            'forward', '-1' if inverse
                                            else '0'), FOUR, ci.node.lineno)
                    elif want_dir not in dirs or (
                            {'FWD', 'BWD'} - {want_dir}) & dirs:
                        rep.violation(
                            'R3', cname, '%s: kernel direction %s, expected '
                            '%s for sign %s' % (tag, sorted(dirs), want_dir,
                                                sign), FOUR, ci.node.lineno)
                    else:
                        rep.holds('R3', tag, res['_call_numpy'][1])
                except Undecided as e:
                    rep.undecided('R3', tag, str(e), FOUR, ci.node.lineno)
                except PyRaise as e:
                    rep.violation('R3', cname, '%s: raises %s' % (tag,
                                                                  e.name),
                                  FOUR, ci.node.lineno)
    rep.floor('R3', 'transform class configurations', n, 12)


def _reciprocal_space_axes(rep, model):
    """R1c: `reciprocal_space` asks `reciprocal_grid` for the axes in the
    order they were given - the per-axis `shift` (and the half-complex last
    axis) are paired with the axes by position, here and in the transform
    classes - for sorted, unsorted and negative axes."""
    from ..symex import FieldV
    from ..namodel import NA, NAHooks, NAInterp, DT
    FTU_ = 'odl/trafos/util/ft_utils.py'
    fn = model.ctx.func(FTU_, 'reciprocal_space')
    if fn is None:
        raise AnalysisError('anchor vanished: reciprocal_space')

    class _Captured(Exception):
        pass
    n = 0
    for axes, want in (((0, 1), (0, 1)), ((1, 0), (1, 0)), ((2, 0), (2, 0)),
                       ((-1, 0), (2, 0)), ((1,), (1,)), (None, (0, 1, 2))):
        n += 1
        cons = 'reciprocal_space[axes=%r]' % (axes,)
        got = {}

        class RH(NAHooks):
            def on_call(self, interp, f, args, kwargs, node):
                if isinstance(f, Func) and f.name == 'reciprocal_grid':
                    got.update(kwargs)
                    got['grid'] = args[0] if args else kwargs.get('grid')
                    raise _Captured()
                if isinstance(f, Func) and f.name == 'conj_exponent':
                    return Rat.const(2)
                if isinstance(f, Func) and f.name in (
                        'is_complex_floating_dtype',):
                    return True
                return NAHooks.on_call(self, interp, f, args, kwargs, node)

            def on_getattr(self, interp, obj, name):
                if isinstance(obj, Rec) and name in obj.attrs:
                    return obj.attrs[name]
                return NAHooks.on_getattr(self, interp, obj, name)
        shift = (True, False, True)[:len(want)] if axes else (True, False,
                                                              True)
        sp = Rec('dspace', ndim=3, is_uniform_byaxis=(True, True, True),
                 field=FieldV('C'), exponent=Rat.const(2),
                 dtype=DT('complex128'), grid=Opaque('the grid'))
        sp.isinstance_names = ('DiscretizedSpace',)
        try:
            I = NAInterp(model, {}, RH())
            try:
                I.call_func(Func(fn, I.env_of(FTU_), None), [sp],
                            {'axes': axes, 'shift': shift,
                             'dtype': DT('complex128')})
            except _Captured:
                pass
            ax = got.get('axes')
            ax = tuple(ax.items) if isinstance(ax, SArr) else (
                tuple(ax.a.tolist()) if isinstance(ax, NA) else (
                    tuple(ax) if isinstance(ax, (list, tuple)) else ax))
            probs = []
            if ax is None or tuple(int(to_rat(a).constant())
                                   for a in ax) != want:
                probs.append('reciprocal_grid is asked for axes %r, the '
                             'order given is %r' % (ax, want))
            if got.get('shift') is not shift:
                probs.append('shift %r' % (got.get('shift'),))
            if probs:
                rep.violation('R1c', cons, '; '.join(probs), FTU_, fn.lineno)
            else:
                rep.holds('R1c', cons, 'axes in the given order, shift '
                          'unchanged')
        except Undecided as e:
            rep.undecided('R1c', cons, str(e), FTU_, fn.lineno)
        except PyRaise as e:
            rep.violation('R1c', cons, 'raises %s' % e.name, FTU_, fn.lineno)
    rep.floor('R1c', 'reciprocal_space axis orders', n, 6)


def _processing_args(rep, model):
    """R4d (sibling agreement, 4 of 4 sites on the reference tree): the
    pre- and post-processing steps of the continuous transform and of its
    inverse hand the operator's OWN sign, shift pattern and axes to
    dft_preprocess_data / dft_postprocess_data (the inverse is constructed
    with the opposite sign, C18-R4; each step then uses the phase of the
    operator it belongs to).  The methods are interpreted with sentinel
    attribute values; what reaches the kernels is compared by identity."""
    from ..symex import FieldV
    n = 0
    for cname in ('FourierTransform', 'FourierTransformInverse'):
        ci = model.get(cname)
        if ci is None:
            raise AnalysisError('anchor vanished: class %s' % cname)
        for meth in ('_preprocess', '_postprocess'):
            dc, fn = model.lookup(ci, meth)
            if fn is None:
                raise AnalysisError('anchor vanished: %s.%s' % (cname, meth))
            cons = '%s.%s' % (cname, meth)
            n += 1
            seen = []

            class PH(KH):
                def on_call(self, interp, f, args, kwargs, node):
                    if isinstance(f, Func) and f.name in (
                            'dft_preprocess_data', 'dft_postprocess_data'):
                        seen.append(dict(kwargs))
                    return KH.on_call(self, interp, f, args, kwargs, node)
            h = PH()
            sign, shifts, axes = Opaque('own sign'), (True, False), (0, 1)

            def once(assume):
                del seen[:]
                I = Interp(model, assume, h)
                inst = Inst(ci)
                sp = lambda nm: Rec('space', shape=(Rat.var('N'),),
                                    field=FieldV('C'), grid=Opaque(nm))
                inst.attrs.update({
                    'sign': sign, 'halfcomplex': False, 'axes': axes,
                    'impl': 'numpy', '_fftw_plan': None, '_tmp_r': None,
                    '_tmp_f': None, 'shifts': shifts,
                    'domain': sp('dgrid'), 'range': sp('rgrid')})
                x = Vec(vs.sym('x'), h.X)
                out = Vec(vs.sym('stale'), h.X)
                I.call_func(Func(fn, I.env_of(dc.rel), dc), [x],
                            {'out': out}, inst)
                return list(seen)
            try:
                leaves = explore(once, limit=10)
            except Undecided as e:
                rep.undecided('R4d', cons, str(e), FOUR, fn.lineno)
                continue
            except PyRaise as e:
                rep.violation('R4d', cons, 'raises %s' % e.name, FOUR,
                              fn.lineno)
                continue
            probs = []
            for a, calls in leaves:
                if len(calls) != 1:
                    probs.append('%d processing calls' % len(calls))
                    continue
                k = calls[0]
                if k.get('sign') is not sign:
                    probs.append('the phase is computed for sign=%r, not '
                                 'for the sign of this operator' % (
                                     k.get('sign'),))
                if k.get('shift') is not shifts:
                    probs.append('shift=%r is not the shift pattern of '
                                 'this operator' % (k.get('shift'),))
                if k.get('axes') is not axes:
                    probs.append('axes=%r are not the axes of this '
                                 'operator' % (k.get('axes'),))
            if probs:
                rep.violation('R4d', cons, '; '.join(sorted(set(probs))),
                              FOUR, fn.lineno)
            else:
                rep.holds('R4d', cons, 'own sign, shift pattern and axes')
    rep.floor('R4d', 'pre- / post-processing steps', n, 4)


def _plan_agreement(rep, model, ci, cname, tag, sign, hc, field, inverse,
                    call_args):
    from ..symex import FieldV
    dc, fn = model.lookup(ci, 'init_fftw_plan')
    if fn is None:
        raise AnalysisError('anchor vanished: %s.init_fftw_plan' % cname)
    h = KH()

    def space(fld, name):
        def element(*a, **k):
            return Rec('elem', asarray=Builtin('asarray', lambda: Vec(
                vs.sym('scratch_' + name), h.X)))
        return Rec('space', shape=(Rat.var('N'),), field=FieldV(fld),
                   grid=Opaque(name), element=Builtin('element', element))

    def once(assume):
        del h.calls[:]
        I = Interp(model, assume, h)
        inst = Inst(ci)
        rs, cs = space(field, 'rgrid'), space('C', 'fgrid')
        inst.attrs.update({
            'sign': sign, 'halfcomplex': hc, 'axes': (0,),
            'impl': 'pyfftw', '_fftw_plan': None, '_tmp_r': None,
            '_tmp_f': None, 'shifts': (True,),
            'domain': cs if inverse else rs,
            'range': rs if inverse else cs})
        I.call_func(Func(fn, I.env_of(dc.rel), dc), [], {}, inst)
        return list(h.calls)
    cons = tag + ':init_fftw_plan'
    try:
        leaves = explore(once, limit=10)
    except Undecided as e:
        rep.undecided('R3p', cons, str(e), FOUR, fn.lineno)
        return
    except PyRaise as e:
        rep.violation('R3p', cname + '.init_fftw_plan', '%s: raises %s' % (
            tag, e.name), FOUR, fn.lineno)
        return
    if len(leaves) != 1 or len(leaves[0][1]) != 1 or len(call_args) < 1:
        rep.undecided('R3p', cons, 'no single planning call', FOUR,
                      fn.lineno)
        return
    plan, call = leaves[0][1][0], call_args[-1]
    diff = [k for k in ('direction', 'halfcomplex', 'axes')
            if plan[k] != call[k]]
    if diff:
        rep.violation(
            'R3p', cname + '.init_fftw_plan',
            '%s: the plan is made with %s but the call executes the '
            'transform with %s; a stored plan is run as it is' % (
                tag, ', '.join('%s=%r' % (k, plan[k]) for k in diff),
                ', '.join('%s=%r' % (k, call[k]) for k in diff)), FOUR,
            fn.lineno)
    else:
        rep.holds('R3p', cons, 'planned with direction=%r, halfcomplex=%r, '
                  'axes=%r like the call' % (plan['direction'],
                                             plan['halfcomplex'],
                                             plan['axes']))


def _kernel_names(lf):
    out = set()

    def walk(k):
        if isinstance(k, tuple):
            if len(k) == 3 and k[0] == 'app' and isinstance(k[1], tuple) \
                    and k[1][0] == 'op':
                out.add(k[1][1])
            for e in k:
                walk(e)
    for k in lf:
        walk(k)
    return out


# --------------------------------------------------------------------------
def _wiring(rep, model):
    pairs = [('DiscreteFourierTransform', 'DiscreteFourierTransformInverse',
              ['axes', 'halfcomplex', 'impl']),
             ('DiscreteFourierTransformInverse', 'DiscreteFourierTransform',
              ['axes', 'halfcomplex', 'impl']),
             ('FourierTransform', 'FourierTransformInverse',
              ['impl', 'axes', 'halfcomplex', 'shift', 'tmp_r', 'tmp_f']),
             ('FourierTransformInverse', 'FourierTransform',
              ['impl', 'axes', 'halfcomplex', 'shift', 'tmp_r', 'tmp_f'])]
    attr_of = {'shift': ['self.shifts'], 'tmp_r': ['self._tmp_r'],
               'tmp_f': ['self._tmp_f']}
    for cname, partner, fwd in pairs:
        ci = model.get(cname)
        dc, inv = model.lookup(ci, 'inverse')
        cons = '%s.inverse' % cname
        rets = return_exprs(inv)
        if len(rets) != 1 or not isinstance(rets[0].value, ast.Call):
            rep.undecided('R4', cons, 'unexpected shape', dc.rel, inv.lineno)
            continue
        call = rets[0].value
        probs = []
        if ast.unparse(call.func) != partner:
            probs.append('constructs %s, expected %s' % (ast.unparse(
                call.func), partner))
        kw = {k.arg: ast.unparse(k.value) for k in call.keywords}
        if kw.get('domain') != 'self.range' or kw.get('range') != \
                'self.domain':
            probs.append('domain=%s, range=%s (expected self.range, '
                         'self.domain)' % (kw.get('domain'),
                                           kw.get('range')))
        # sign flipped: local `sign` defined as the opposite of self.sign
        sgn = kw.get('sign')
        flip_ok = False
        for s in inv.body:
            if isinstance(s, ast.Assign) and ast.unparse(
                    s.targets[0]) == 'sign' and isinstance(s.value,
                                                           ast.IfExp):
                e = s.value
                try:
                    t = ast.literal_eval(e.test.comparators[0])
                    a, b = ast.literal_eval(e.body), ast.literal_eval(
                        e.orelse)
                    if ast.unparse(e.test.left) == 'self.sign' and \
                            a != t and b == t and {a, b} == {'+', '-'}:
                        flip_ok = True
                except Exception:
                    pass
        if sgn != 'sign' or not flip_ok:
            probs.append('the sign is not flipped (sign=%s)' % sgn)
        for p in fwd:
            want = attr_of.get(p, ['self.' + p])
            if kw.get(p) not in want:
                probs.append('%s=%s, expected %s' % (p, kw.get(p), want[0]))
        if probs:
            rep.violation('R4', cons, '; '.join(probs), dc.rel, call.lineno)
        else:
            rep.holds('R4', cons, 'sign flipped, spaces swapped, %s '
                      'forwarded' % fwd)
    # adjoint = inverse only under the exponent-2 guard
    for cname in ('DiscreteFourierTransformBase', 'FourierTransformBase'):
        ci = model.get(cname)
        adj = ci.methods.get('adjoint')
        cons = cname + '.adjoint'
        ok = False
        for s in adj.body:
            if isinstance(s, ast.If) and 'exponent == 2' in ast.unparse(
                    s.test) and any(isinstance(b, ast.Return) and ast.unparse(
                        b.value) == 'self.inverse' for b in s.body) and any(
                            isinstance(b, ast.Raise) for b in s.orelse):
                ok = True
        if ok:
            rep.holds('R4', cons, 'inverse only for exponents (2, 2)')
        else:
            rep.violation('R4', cons, 'adjoint is not guarded by the '
                          'exponent-2 test', ci.rel, adj.lineno)
    # wavelet transforms
    for cname, partner in (('WaveletTransform', 'WaveletTransformInverse'),
                           ('WaveletTransformInverse', 'WaveletTransform')):
        ci = model.get(cname)
        dc, inv = model.lookup(ci, 'inverse')
        cons = cname + '.inverse'
        rets = return_exprs(inv)
        if len(rets) != 1 or not isinstance(rets[0].value, ast.Call):
            rep.undecided('R4', cons, 'unexpected shape', dc.rel, inv.lineno)
            continue
        call = rets[0].value
        probs = []
        if ast.unparse(call.func) != partner:
            probs.append('constructs %s' % ast.unparse(call.func))
        pci = model.get(partner)
        try:
            b, extra = bind_call(call, pci.methods['__init__'])
        except Undecided as e:
            rep.undecided('R4', cons, str(e), dc.rel, call.lineno)
            continue
        space_param = [a.arg for a in pci.methods['__init__'].args.args][1]
        want = {space_param: 'self.domain' if cname == 'WaveletTransform'
                else 'self.range'}
        # the partner's space parameter is this transform's *real* space
        want[space_param] = ('self.domain' if cname == 'WaveletTransform'
                             else 'self.range')
        for p in ('wavelet', 'nlevels', 'pad_mode', 'pad_const', 'impl',
                  'axes'):
            want[p] = 'self.' + p
        for p, w in want.items():
            got = ast.unparse(b[p]) if p in b else None
            alts = {w, w.replace('self.wavelet', 'self.pywt_wavelet'),
                    w.replace('self.', 'self._')}
            if got not in alts:
                probs.append('%s=%s, expected %s' % (p, got, w))
        if extra:
            probs.append('unknown keyword(s) %s' % sorted(extra))
        if probs:
            rep.violation('R4', cons, '; '.join(probs), dc.rel, call.lineno)
        else:
            rep.holds('R4', cons, 'all options forwarded, space kept')


# --------------------------------------------------------------------------
def _planner(rep, model):
    """R5: `pyfftw_call` interpreted for every combination of input kind
    (complex / real input that is cast / half-complex), planning effort, given
    or new plan and direction, with arrays as objects carrying a `destroyed`
    flag: constructing a plan with a destructive effort overwrites the array
    it plans on.  The plan must never be executed on an overwritten array and
    the caller's input must never be overwritten."""
    from ..symex import Interp, Hooks, ModuleV
    fn = model.ctx.func(PYFFTW, 'pyfftw_call')
    if fn is None:
        raise AnalysisError('anchor vanished: pyfftw_call')
    DESTRUCTIVE = ('FFTW_MEASURE', 'FFTW_PATIENT', 'FFTW_EXHAUSTIVE',
                   'FFTW_DESTROY_INPUT')

    class Arr(object):
        def __init__(self, name, kind):
            self.name, self.kind = name, kind
            self.destroyed = False

        def __repr__(self):
            return 'Arr(%s)' % self.name

    class PH(Hooks):
        def __init__(self, halfcomplex, direction):
            self.halfcomplex, self.direction = halfcomplex, direction
            self.executed_on = []
            self.planned_on = []

        def on_getattr(self, interp, obj, name):
            if isinstance(obj, Arr):
                if name == 'flags':
                    return Rec('flags', aligned=True)
                if name == 'ndim':
                    return 2
                if name == 'size':
                    return 16
                if name == 'shape':
                    return (4, 4)
                if name == 'dtype':
                    return Rec('dtype', dkind=obj.kind)
                if name == 'astype':
                    return Builtin('astype', lambda dt, **k: Arr(
                        obj.name + ':cast', 'c'))
            if isinstance(obj, Rec) and name in obj.attrs:
                return obj.attrs[name]
            if isinstance(obj, ModuleV) and obj.name == 'pyfftw' and \
                    name == 'FFTW':
                def FFTW(arr_in, arr_out, flags=(), **k):
                    self.planned_on.append((arr_in, tuple(flags)))
                    destructive = any(f in DESTRUCTIVE for f in flags) or (
                        self.direction == 'backward' and self.halfcomplex)
                    if destructive:
                        arr_in.destroyed = True

                    def execute(a_in, a_out, **kw):
                        self.executed_on.append((a_in, a_in.destroyed))
                    return Builtin('plan', execute)
                return Builtin('pyfftw.FFTW', FFTW)
            if obj is NPV and name == 'empty_like':
                return Builtin('np.empty_like', lambda a: Arr(
                    a.name + ':scratch', a.kind))
            return NotImplemented

        def on_name(self, interp, name):
            if name == 'pyfftw':
                return ModuleV('pyfftw')
            if name == 'cpu_count':
                return Builtin('cpu_count', lambda: 1)
            return NotImplemented

        def on_call(self, interp, f, args, kwargs, node):
            if isinstance(f, Func):
                if f.name == 'is_real_dtype':
                    return args[0].attrs['dkind'] == 'f'
                if f.name == 'complex_dtype':
                    return Rec('dtype', dkind='c')
                if f.name == '_pyfftw_check_args':
                    return None
                if f.name == 'normalized_axes_tuple':
                    return tuple(args[0])
            return NotImplemented
    n = 0
    for kind, halfcomplex in (('c', False), ('f', False), ('f', True)):
        for effort in ('estimate', 'measure', 'patient', 'FFTW_MEASURE'):
            for given_plan in (False, True):
                for direction in ('forward', 'backward'):
                    if halfcomplex and direction == 'backward':
                        kind_in = 'c'
                    else:
                        kind_in = kind
                    n += 1
                    cons = 'pyfftw_call[%s input%s, %s, planning %s, %s]' % (
                        {'c': 'complex', 'f': 'real'}[kind_in],
                        ', halfcomplex' if halfcomplex else '', direction,
                        effort, 'plan given' if given_plan else 'new plan')
                    try:
                        H = PH(halfcomplex, direction)
                        I = Interp(model, {}, H)
                        a_in, a_out = Arr('in', kind_in), Arr('out', 'c')
                        kw = {'planning_effort': effort}
                        if given_plan:
                            kw['fftw_plan'] = Builtin(
                                'given-plan', lambda a, b, **k:
                                H.executed_on.append((a, a.destroyed)))
                        I.call_func(Func(fn, I.env_of(PYFFTW), None),
                                    [a_in, a_out],
                                    dict(kw, direction=direction,
                                         halfcomplex=halfcomplex))
                        probs = []
                        if len(H.executed_on) != 1:
                            probs.append('%d executions' % len(
                                H.executed_on))
                        for arr, was_destroyed in H.executed_on:
                            if was_destroyed:
                                probs.append(
                                    'the plan is executed on %r after the '
                                    'planner (flags %s) has overwritten it'
                                    % (arr, H.planned_on[-1][1]
                                       if H.planned_on else ()))
                        # a backward half-complex execution destroys its
                        # input by design (rule C03-R8); the planner must not
                        # touch the caller's array in any other case
                        if a_in.destroyed and not (
                                halfcomplex and direction == 'backward'):
                            probs.append('the planner overwrites the '
                                         "caller's input array")
                        if probs:
                            rep.violation('R5', cons, '; '.join(probs),
                                          PYFFTW, fn.lineno)
                        else:
                            rep.holds('R5', cons, 'planner and execution on '
                                      'disjoint / intact arrays')
                    except Undecided as e:
                        rep.undecided('R5', cons, str(e), PYFFTW, fn.lineno)
                    except PyRaise as e:
                        rep.violation('R5', cons, 'raises %s' % e.name,
                                      PYFFTW, fn.lineno)
    rep.floor('R5', 'planner scenarios', n, 40)


def _guards(rep, model):
    """R6: the complex-cast guard and the in-place guard of
    dft_preprocess_data must use the same predicate on the shift list."""
    fn = model.ctx.func(FT, 'dft_preprocess_data')
    cons = 'dft_preprocess_data:shift'
    cast = inplace = None
    for s in ast.walk(fn):
        if isinstance(s, ast.If):
            t = ast.unparse(s.test)
            if 'is_real_dtype(arr.dtype)' in t and 'shift' in t:
                cast = s.test
            if 'is_real_dtype(out.dtype)' in t and 'shift' in t and any(
                    isinstance(b, ast.Raise) for b in s.body):
                inplace = s.test
    if cast is None or inplace is None:
        rep.undecided('R6', cons, 'guards not found', FT, fn.lineno)
        return

    def shift_pred(t):
        for v in (t.values if isinstance(t, ast.BoolOp) else [t]):
            u = ast.unparse(v)
            if 'shift' in u:
                return u
    a, b = shift_pred(cast), shift_pred(inplace)
    if a == b:
        rep.holds('R6', cons, 'both guards test `%s`' % a)
    else:
        rep.violation(
            'R6', cons,
            'the complex cast is decided with `%s` but the in-place error '
            'with `%s`: for a per-axis shift list the latter is always '
            'False (a non-empty list is truthy), so real data with an '
            'unshifted axis is multiplied by a complex factor in a real '
            'array' % (a, b), FT, inplace.lineno)


# --------------------------------------------------------------------------
# R7: a complex-to-real inverse transform cannot know from the half spectrum
# whether the real length was 2(m-1) or 2(m-1)+1: every np.fft.irfft(n) call
# must pass the real shape (s= / n=), otherwise odd lengths come back even
def _real_length(rep, ctx):
    n = 0
    for rel in ('odl/trafos/fourier.py', 'odl/trafos/util/ft_utils.py',
                'odl/trafos/backends/pyfftw_bindings.py'):
        try:
            tree = ctx.tree(rel)
        except Exception:
            continue
        for node in ast.walk(tree):
            if not isinstance(node, ast.FunctionDef):
                continue
            for c in ast.walk(node):
                if isinstance(c, ast.Call) and isinstance(
                        c.func, ast.Attribute) and c.func.attr in (
                            'irfftn', 'irfft', 'irfft2'):
                    n += 1
                    key = {'irfftn': 's', 'irfft2': 's', 'irfft': 'n'}[
                        c.func.attr]
                    given = len(c.args) >= 2 or any(
                        k.arg == key for k in c.keywords)
                    cons = '%s:%s' % (node.name, c.func.attr)
                    if given:
                        rep.holds('R7', cons, 'real shape passed')
                    else:
                        rep.violation(
                            'R7', cons, '`%s` is called without the real '
                            'shape (%s=): a half-complex spectrum of an odd-'
                            'length axis is transformed back to an even '
                            'length' % (ast.unparse(c)[:60], key), rel,
                            c.lineno)
    rep.floor('R7', 'complex-to-real inverse FFT calls', n, 2)


# --------------------------------------------------------------------------
# R8: wavelet reconstruction keeps exactly the range shape.  pywt.waverecn
# returns every odd transformed axis rounded up to the next even size; the
# inverse transform must return, for every pattern of odd axes, the leading
# block of the range shape (entries untouched), and reject anything else.
# R9: for an orthogonal wavelet transform W on a space weighted by the cell
# volume (coefficients unweighted), <W x, y> = y^T Q x and <x, W* y> =
# vol * x^T (W* y): the adjoint is inverse / cell_volume -- the *whole* cell
# volume, whichever axes are transformed -- and the adjoint of the inverse is
# cell_volume * forward.
def _wavelet_adjoint(rep, model, rule='R9'):
    from ..namodel import NA, NAHooks, NAInterp, objarr
    WAV = 'odl/trafos/wavelet.py'
    n = 0
    for cname, expect_inv in (('WaveletTransform', True),
                              ('WaveletTransformInverse', False)):
        ci = model.get(cname)
        if ci is None or 'adjoint' not in ci.methods:
            raise AnalysisError('anchor vanished: %s.adjoint' % cname)
        fn = ci.methods['adjoint']
        for axes in (None, (0,), (1, 2), (0, 2), (-1,)):
            n += 1
            cons = '%s.adjoint[axes=%s]' % (cname, axes)
            hs = [Rat.var('h%d' % i) for i in range(3)]
            vol = hs[0] * hs[1] * hs[2]

            class H(NAHooks):
                def on_getattr(self, interp, obj, name):
                    if isinstance(obj, Inst) and obj.ci.name == cname:
                        if name == 'is_orthogonal':
                            return True
                        if name == 'inverse':
                            return Rec('partner')
                        if name in ('domain', 'range'):
                            return space
                        if name == 'axes':
                            return tuple(range(3)) if axes is None else \
                                tuple(a % 3 for a in axes)
                    if isinstance(obj, Rec) and name in obj.attrs:
                        return obj.attrs[name]
                    return NAHooks.on_getattr(self, interp, obj, name)

                def on_binop(self, interp, op, l, r):
                    if isinstance(r, Rec) and r.kind == 'partner' and \
                            op is ast.Mult:
                        return Rec('scaled', scalar=l, op=r)
                    if isinstance(l, Rec) and l.kind == 'partner' and \
                            op in (ast.Mult, ast.Div):
                        return Rec('scaled', scalar=l if op is ast.Mult
                                   else None, op=l, right=r, bop=op)
                    return NAHooks.on_binop(self, interp, op, l, r)
            space = Rec('space', partition=Rec(
                'partition', cell_volume=vol,
                cell_sides=NA(objarr(list(hs)), 'float64')),
                cell_volume=vol, cell_sides=NA(objarr(list(hs)), 'float64'))
            try:
                I = NAInterp(model, {}, H())
                r = I.call_func(Func(fn, I.env_of(WAV), ci), [Inst(ci)], {})
                if not (isinstance(r, Rec) and r.kind == 'scaled'):
                    raise Undecided('adjoint is %r' % (r,))
                sc = r.attrs.get('scalar')
                if r.attrs.get('bop') is ast.Div:
                    sc = Rat.const(1) / to_rat(r.attrs['right'])
                elif r.attrs.get('bop') is ast.Mult:
                    sc = r.attrs['right']
                want = Rat.const(1) / vol if expect_inv else vol
                if sc is None or not (to_rat(sc) - want).is_zero():
                    rep.violation(
                        rule, cons, 'the adjoint is %r times the %s, the '
                        'inner products of domain (cell volume %r) and '
                        'coefficient space need %r' % (
                            sc, 'inverse' if expect_inv else 'forward '
                            'transform', vol, want), WAV, fn.lineno)
                else:
                    rep.holds(rule, cons, 'scaled by %r' % (want,))
            except Undecided as e:
                rep.undecided(rule, cons, str(e), WAV, fn.lineno)
            except PyRaise as e:
                rep.violation(rule, cons, 'raises %s' % e.name, WAV,
                              fn.lineno)
    rep.floor(rule, 'wavelet adjoint evaluations', n, 10)


def _wavelet_crop(rep, model):
    import numpy as _np
    from ..namodel import NA, NAHooks, NAInterp, symbols
    WAV = 'odl/trafos/wavelet.py'
    ci = model.get('WaveletTransformInverse')
    if ci is None or '_call' not in ci.methods:
        raise AnalysisError('anchor vanished: WaveletTransformInverse._call')
    line = ci.methods['_call'].lineno

    class H(NAHooks):
        def __init__(self, recon):
            self.recon = recon

        def on_name(self, interp, name):
            if name == 'pywt':
                return Rec('pywt',
                           unravel_coeffs=Builtin(
                               'unravel_coeffs', lambda c, **k: c),
                           waverecn=Builtin(
                               'waverecn', lambda c, **k: self.recon))
            return NotImplemented

        def on_getattr(self, interp, obj, name):
            if isinstance(obj, Rec):
                if name in obj.attrs:
                    return obj.attrs[name]
                raise PyRaise('AttributeError')
            return NAHooks.on_getattr(self, interp, obj, name)

    n = 0
    for shape in ((3, 4), (3, 5), (3, 5, 7), (4, 3, 5)):
        for extra in itertools.product((0, 1), repeat=len(shape)):
            # an axis can come back one longer only if its size is odd
            if any(e and s % 2 == 0 for e, s in zip(extra, shape)):
                continue
            n += 1
            rshape = tuple(s + e for s, e in zip(shape, extra))
            tag = 'WaveletTransformInverse._call[range %s, reconstruction ' \
                '%s]' % ('x'.join(map(str, shape)),
                         'x'.join(map(str, rshape)))
            try:
                recon = symbols('r', rshape)
                h = H(recon)
                I = NAInterp(model, {}, h)
                op = Inst(ci)
                op.attrs.update({
                    'impl': 'pywt', '_coeff_slices': None,
                    '_coeff_shapes': None, 'pywt_wavelet': None,
                    'pywt_pad_mode': None, 'axes': None,
                    '_Operator__range': Rec('range', shape=shape),
                    '_WaveletTransformBase__impl': 'pywt'})
                out = I.call(I.getattr_value(op, '_call'),
                             [Rec('coeffs')], {})
                probs = []
                if not isinstance(out, NA) or out.a.shape != shape:
                    probs.append('returns shape %r' % (
                        getattr(getattr(out, 'a', None), 'shape', out),))
                else:
                    for idx in _np.ndindex(*shape):
                        if out.a[idx] is not recon.a[idx] and not (
                                to_rat(out.a[idx]) - to_rat(
                                    recon.a[idx])).is_zero():
                            probs.append('entry %r moved' % (idx,))
                            break
                if probs:
                    rep.violation('R8', 'WaveletTransformInverse._call',
                                  '%s: %s' % (tag, probs[0]), WAV, line)
                else:
                    rep.holds('R8', tag, 'leading block of the range shape')
            except Undecided as e:
                rep.undecided('R8', tag, str(e), WAV, line)
            except PyRaise as e:
                rep.violation('R8', 'WaveletTransformInverse._call',
                              '%s: raises %s' % (tag, e.name), WAV, line)
    rep.floor('R8', 'reconstruction shape patterns', n, 14)
