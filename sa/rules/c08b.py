"""C08, evaluated tier: concrete functionals with a convex conjugate are
instantiated on weighted model spaces and, at designated points (entries that
are explicit positive combinations of the parameters),

  * Fenchel-Young holds with equality at the gradient:
        f(x) + f*(g) = <x, g>,   g_j = (d f / d x_j)(x) / w_j
    (the partials by symbolic differentiation of the evaluated value);
  * the biconjugate takes the value of f:  f**(x) = f(x);
  * Moreau:  prox_{s f}(x) + s * prox_{f*/s}(x / s) = x   entrywise.

Clauses whose ingredients the class does not provide (NotImplementedError)
are skipped and counted."""
from __future__ import annotations

import ast

import numpy as _np

from ..core import Undecided, AnalysisError
from ..forks import Fork
from ..ratfun import Rat
from ..symex import PyRaise, Opaque, to_rat, is_scalar
from ..namodel import NA, objarr
from ..spacemodel import NotAnElement
from ..spacemodel import (NSpace, NPSpace, NField, NElem, NPElem, flat, inner)
from .. import posalg as PA
from .c05b import witness, _where
from .c07b import H7, I7, S, spaces, point, partials_at, entry_weights, _s

WIT = [witness(75), witness(76)]


def builders(model):
    def inst(I, cls, *a, **k):
        return I.instantiate(model.get(cls), list(a), k)
    X = spaces()
    sig, gam = S('sig'), S('gam')
    gen = [S('e0'), -S('e1'), 2 * S('e2'), -3 * S('e3')]
    # monomial entries (quotients cancel without polynomial gcds)
    pos = [S('e0'), 2 * S('e1'), 3 * S('e2'), S('e3') / 2]
    l1pt = [2 * sig, -3 * sig, sig / 2, -sig / 3]
    hub = [2 * (sig + gam), -3 * (sig + gam), (sig + gam) / 2,
           -(sig + gam) / 3]
    B = {}
    for w in (None, 'const', 'array'):
        t = {None: 'unweighted', 'const': 'weight w',
             'array': 'weights w0..w3'}[w]
        B['L2NormSquared[%s]' % t] = (
            lambda I, w=w: inst(I, 'L2NormSquared', X(w)), gen)
        B['L2Norm[%s]' % t] = (
            lambda I, w=w: inst(I, 'L2Norm', X(w)),
            [3 * sig, -4 * sig, 12 * sig, Rat.const(0)]) if w is None else (
                lambda I, w=w: inst(I, 'L2Norm', X(w)), gen, 'no-moreau')
        B['L1Norm[%s]' % t] = (lambda I, w=w: inst(I, 'L1Norm', X(w)), l1pt)
        B['Huber[gamma=sigma/2,%s]' % t] = (
            lambda I, w=w: inst(I, 'Huber', X(w), sig / 2),
            [3 * sig, -4 * sig, sig / 4, -sig / 3])
        B['Huber[gamma=2 sigma,%s]' % t] = (
            lambda I, w=w: inst(I, 'Huber', X(w), 2 * sig),
            [5 * sig, -4 * sig, sig, -sig / 3])
        B['KullbackLeibler[%s]' % t] = (
            lambda I, w=w: inst(I, 'KullbackLeibler', X(w)), pos)
        B['KullbackLeibler[prior g,%s]' % t] = (
            lambda I, w=w: inst(I, 'KullbackLeibler', X(w), prior=point(
                X(w), [S('e4'), S('e5'), 3 * S('e4'), 2 * S('e5')])),
            pos)
        B['KullbackLeiblerCrossEntropy[%s]' % t] = (
            lambda I, w=w: inst(I, 'KullbackLeiblerCrossEntropy', X(w)), pos,
            'no-moreau')
        B['KullbackLeiblerCrossEntropy[prior g,%s]' % t] = (
            lambda I, w=w: inst(
                I, 'KullbackLeiblerCrossEntropy', X(w), prior=point(
                    X(w), [S('e4'), S('e5'), 3 * S('e4'),
                           2 * S('e5')])), pos, 'no-moreau')
        B['QuadraticForm[vector b, constant c,%s]' % t] = (
            lambda I, w=w: inst(I, 'QuadraticForm', vector=point(
                X(w), [S('b0'), S('b1'), S('b2'), S('b3')]),
                constant=S('c')), gen)
        B['ZeroFunctional[%s]' % t] = (
            lambda I, w=w: inst(I, 'ZeroFunctional', X(w)), gen)
        # derived functionals
        B['expr:a * L2NormSquared[%s]' % t] = (
            lambda I, w=w: I.binop(ast.Mult, S('q'), inst(
                I, 'L2NormSquared', X(w))), gen)
        B['expr:L2NormSquared * a[%s]' % t] = (
            lambda I, w=w: I.binop(ast.Mult, inst(
                I, 'L2NormSquared', X(w)), S('q')), gen)
        B['expr:KullbackLeibler * a[%s]' % t] = (
            lambda I, w=w: I.binop(ast.Mult, inst(
                I, 'KullbackLeibler', X(w)), S('q')), pos)
        B['expr:L2NormSquared.translated(y)[%s]' % t] = (
            lambda I, w=w: I.call(I.getattr_value(inst(
                I, 'L2NormSquared', X(w)), 'translated'), [point(X(w), [
                    S('y0'), S('y1'), S('y2'), S('y3')])], {}), gen)
        B['expr:L2NormSquared + <., l>[%s]' % t] = (
            lambda I, w=w: inst(
                I, 'FunctionalQuadraticPerturb', inst(
                    I, 'L2NormSquared', X(w)), linear_term=point(X(w), [
                        S('l0'), S('l1'), S('l2'), S('l3')])), gen)
        B['FunctionalQuadraticPerturb[KullbackLeibler, q, l, c,%s]' % t] = (
            lambda I, w=w: inst(
                I, 'FunctionalQuadraticPerturb', inst(
                    I, 'KullbackLeibler', X(w)), quadratic_coeff=S('q'),
                linear_term=point(X(w), [S('l0'), S('l1'), S('l2'),
                                         S('l3')]), constant=S('c')), pos)
    B['SeparableSum[L2NormSquared, KullbackLeibler]'] = (
        lambda I: inst(I, 'SeparableSum', inst(
            I, 'L2NormSquared', NSpace((2,), 'float64', S('w'))), inst(
                I, 'KullbackLeibler', NSpace((2,), 'float64', S('w')))),
        [S('e0'), -S('e1'), S('e2'), 2 * S('e3')])
    return B


def _mk(dom, entries):
    it = iter(entries)

    def mk(space):
        if isinstance(space, NPSpace):
            return NPElem(space, [mk(p) for p in space.parts])
        a = _np.empty(space.shape, dtype=object)
        for idx in _np.ndindex(*space.shape):
            a[idx] = next(it)
        return NElem(space, NA(a, space.dt))
    return mk(dom)


def _finite(v):
    return is_scalar(v)


def evaluate(model, build, entries, moreau=True):
    H = H7()
    H.signs.positive |= {'q', 'b0', 'b1', 'b2', 'b3'}
    I = I7(model, {}, H)
    f = build(I)
    dom = I.getattr_value(f, 'domain')
    xs = [PA.ired(to_rat(v)) for v in entries]
    ws = entry_weights(dom)
    res = {'skipped': [], 'probs': []}
    fx = I.call(f, [_mk(dom, entries)], {})
    try:
        fc = I.getattr_value(f, 'convex_conj')
    except PyRaise as e:
        res['skipped'].append('convex_conj raises %s' % e.name)
        return res
    fx = PA.ired(to_rat(fx))
    # (a) Fenchel-Young equality at the gradient
    G, _ = partials_at(H, I, f, dom, xs)
    if any(v.startswith('sfree') for g in G for v in g.vars()
           if isinstance(v, str)):
        res['skipped'].append('Fenchel-Young: x sits at a kink')
    else:
        g = [PA.reduce_full(Gj / wj) for Gj, wj in zip(G, ws)]
        try:
            fcg = I.call(fc, [_mk(dom, g)], {})
            if not _finite(fcg):
                res['probs'].append('f*(grad f(x)) = %r is not finite'
                                    % (fcg,))
            else:
                lhs = fx + PA.ired(to_rat(fcg))
                rhs = Rat.const(0)
                for xj, gj, wj in zip(xs, g, ws):
                    rhs = rhs + wj * xj * gj
                if not PA.same(lhs, rhs, WIT):
                    res['probs'].append(
                        'Fenchel-Young at y = grad f(x): f(x) + f*(y) = %s '
                        'but <x, y> = %s' % (_s(PA.reduce_full(lhs)),
                                             _s(PA.reduce_full(rhs))))
        except PyRaise as e:
            if e.name == 'NotImplementedError':
                res['skipped'].append('f* cannot be evaluated')
            else:
                raise
    # (b) biconjugate
    try:
        fcc = I.getattr_value(fc, 'convex_conj')
        v = I.call(fcc, [_mk(dom, entries)], {})
        if not _finite(v):
            res['probs'].append('f**(x) = %r' % (v,))
        elif not PA.same(PA.ired(to_rat(v)), fx, WIT):
            res['probs'].append('f**(x) = %s but f(x) = %s' % (
                _s(PA.reduce_full(to_rat(v))), _s(fx)))
    except PyRaise as e:
        if e.name == 'NotImplementedError':
            res['skipped'].append('biconjugate not available')
        else:
            raise
    # (c) Moreau decomposition
    sig = S('sig')
    if not moreau:
        # region test not decidable by positive symbols (weighted 2-norm
        # against sigma) or a proximal through the Lambert W function
        res['skipped'].append('Moreau: outside the decidable fragment')
        return res
    try:
        p1 = I.call(I.call(I.getattr_value(f, 'proximal'), [sig], {}),
                    [_mk(dom, entries)], {})
        p2 = I.call(I.call(I.getattr_value(fc, 'proximal'), [1 / sig], {}),
                    [_mk(dom, [x / sig for x in xs])], {})
        a = flat(p1 if not isinstance(p1, NA) else H.element(I, dom, p1))
        b = flat(p2 if not isinstance(p2, NA) else H.element(I, dom, p2))
        for j, (u, v, x) in enumerate(zip(a, b, xs)):
            if not PA.same(u + sig * v, x, WIT):
                res['probs'].append(
                    'Moreau, entry %d: prox_{s f}(x) + s prox_{f*/s}(x/s) '
                    '= %s, x = %s' % (j, _s(PA.reduce_full(u + sig * v)),
                                      _s(x)))
                break
    except PyRaise as e:
        if e.name == 'NotImplementedError':
            res['skipped'].append('a proximal is not available')
        else:
            raise
    return res


def run(rep, model):
    n = nclauses = 0
    for name, spec in builders(model).items():
        b, entries = spec[0], spec[1]
        n += 1
        rel, line = _where(model, name.replace('expr:', ''))
        try:
            r = evaluate(model, b, entries, len(spec) < 3)
        except (Undecided, Fork) as e:
            rep.undecided('R5', name, str(e), rel)
            continue
        except NotAnElement as e:
            rep.violation('R5', name, 'a call yields no element: %s' % e, rel)
            continue
        except PyRaise as e:
            rep.violation('R5', name, 'raises %s at `%s`' % (
                e.name, ast.unparse(e.node)[:70] if e.node is not None
                else '?'), rel, getattr(e.node, 'lineno', None))
            continue
        nclauses += 3 - len(r['skipped'])
        if r['probs']:
            rep.violation('R5', name, '; '.join(r['probs'][:2]), rel, line)
        else:
            rep.holds('R5', name, 'Fenchel-Young equality at the gradient, '
                      'biconjugate, Moreau%s' % (
                          ' (skipped: %s)' % '; '.join(r['skipped'])
                          if r['skipped'] else ''))
    rep.floor('R5', 'evaluated conjugate instances', n, 40)
    rep.floor('R5', 'decided clauses', nclauses, 60)
