"""C08, evaluated tier: concrete functionals with a convex conjugate are
instantiated on weighted model spaces and, at designated points (entries that
are explicit positive combinations of the parameters),

  * Fenchel-Young holds with equality at the gradient:
        f(x) + f*(g) = <x, g>,   g_j = (d f / d x_j)(x) / w_j
    (the partials by symbolic differentiation of the evaluated value);
  * the biconjugate takes the value of f:  f**(x) = f(x);
  * Moreau:  prox_{s f}(x) + s * prox_{f*/s}(x / s) = x   entrywise.

Clauses whose ingredients the class does not provide (NotImplementedError)
are skipped and counted."""
from __future__ import annotations

import ast

import numpy as _np

from ..core import Undecided, AnalysisError
from ..forks import Fork
from ..ratfun import Rat
from ..symex import PyRaise, Opaque, to_rat, is_scalar
from ..namodel import NA, objarr
from ..spacemodel import NotAnElement
from ..spacemodel import (NSpace, NPSpace, NField, NElem, NPElem, flat, inner)
from .. import posalg as PA
from .c05b import witness, _where
from .c07b import H7, I7, S, spaces, point, partials_at, entry_weights, _s

WIT = [witness(75), witness(76)]


def builders(model):
    def inst(I, cls, *a, **k):
        return I.instantiate(model.get(cls), list(a), k)
    X = spaces()
    sig, gam = S('sig'), S('gam')
    gen = [S('e0'), -S('e1'), 2 * S('e2'), -3 * S('e3')]
    # monomial entries (quotients cancel without polynomial gcds)
    pos = [S('e0'), 2 * S('e1'), 3 * S('e2'), S('e3') / 2]
    l1pt = [2 * sig, -3 * sig, sig / 2, -sig / 3]
    hub = [2 * (sig + gam), -3 * (sig + gam), (sig + gam) / 2,
           -(sig + gam) / 3]
    B = {}
    for w in (None, 'const', 'array'):
        t = {None: 'unweighted', 'const': 'weight w',
             'array': 'weights w0..w3'}[w]
        B['L2NormSquared[%s]' % t] = (
            lambda I, w=w: inst(I, 'L2NormSquared', X(w)), gen)
        B['L2Norm[%s]' % t] = (
            lambda I, w=w: inst(I, 'L2Norm', X(w)),
            [3 * sig, -4 * sig, 12 * sig, Rat.const(0)]) if w is None else (
                lambda I, w=w: inst(I, 'L2Norm', X(w)), gen, 'no-moreau')
        B['L1Norm[%s]' % t] = (lambda I, w=w: inst(I, 'L1Norm', X(w)), l1pt)
        B['Huber[gamma=sigma/2,%s]' % t] = (
            lambda I, w=w: inst(I, 'Huber', X(w), sig / 2),
            [3 * sig, -4 * sig, sig / 4, -sig / 3])
        B['Huber[gamma=2 sigma,%s]' % t] = (
            lambda I, w=w: inst(I, 'Huber', X(w), 2 * sig),
            [5 * sig, -4 * sig, sig, -sig / 3])
        B['KullbackLeibler[%s]' % t] = (
            lambda I, w=w: inst(I, 'KullbackLeibler', X(w)), pos)
        B['KullbackLeibler[prior g,%s]' % t] = (
            lambda I, w=w: inst(I, 'KullbackLeibler', X(w), prior=point(
                X(w), [S('e4'), S('e5'), 3 * S('e4'), 2 * S('e5')])),
            pos)
        # a prior with exact zeros (empty bins): the gradient is exactly 1
        # there, the boundary of the conjugate's effective domain; entries
        # on one scale so that their order is decided
        B['KullbackLeibler[prior with zeros,%s]' % t] = (
            lambda I, w=w: inst(I, 'KullbackLeibler', X(w), prior=point(
                X(w), [Rat.const(0), S('e4'), 2 * S('e4'), Rat.const(0)])),
            [S('e4'), 3 * S('e4') / 2, 3 * S('e4'), 2 * S('e4')])
        # ... and a point with a negative entry in an empty bin (outside the
        # effective domain: the value must be + inf there)
        B['KullbackLeibler[prior with zeros, negative entry,%s]' % t] = (
            lambda I, w=w: inst(I, 'KullbackLeibler', X(w), prior=point(
                X(w), [Rat.const(0), S('e4'), 2 * S('e4'), Rat.const(0)])),
            [S('e4'), 3 * S('e4') / 2, 3 * S('e4'), -2 * S('e4')],
            'no-moreau')
        B['KullbackLeiblerCrossEntropy[%s]' % t] = (
            lambda I, w=w: inst(I, 'KullbackLeiblerCrossEntropy', X(w)), pos,
            'no-moreau')
        B['KullbackLeiblerCrossEntropy[prior g,%s]' % t] = (
            lambda I, w=w: inst(
                I, 'KullbackLeiblerCrossEntropy', X(w), prior=point(
                    X(w), [S('e4'), S('e5'), 3 * S('e4'),
                           2 * S('e5')])), pos, 'no-moreau')
        B['QuadraticForm[vector b, constant c,%s]' % t] = (
            lambda I, w=w: inst(I, 'QuadraticForm', vector=point(
                X(w), [S('b0'), S('b1'), S('b2'), S('b3')]),
                constant=S('c')), gen)
        B['ZeroFunctional[%s]' % t] = (
            lambda I, w=w: inst(I, 'ZeroFunctional', X(w)), gen)
        B['ConstantFunctional[c, %s]' % t] = (
            lambda I, w=w: inst(I, 'ConstantFunctional', X(w), S('b0')), gen)
        B['expr:a * ConstantFunctional[c, %s]' % t] = (
            lambda I, w=w: I.binop(ast.Mult, S('q'), inst(
                I, 'ConstantFunctional', X(w), S('b0'))), gen)
        B['expr:a * ConstantFunctional[-c, %s]' % t] = (
            lambda I, w=w: I.binop(ast.Mult, S('q'), inst(
                I, 'ConstantFunctional', X(w), -S('b1'))), gen)
        B['expr:a * L1Norm[%s]' % t] = (
            lambda I, w=w: I.binop(ast.Mult, S('q'), inst(
                I, 'L1Norm', X(w))),
            [2 * sig * S('q'), -3 * sig * S('q'), sig * S('q') / 2,
             -sig * S('q') / 3])
        # derived functionals
        B['expr:a * L2NormSquared[%s]' % t] = (
            lambda I, w=w: I.binop(ast.Mult, S('q'), inst(
                I, 'L2NormSquared', X(w))), gen)
        B['expr:L2NormSquared * a[%s]' % t] = (
            lambda I, w=w: I.binop(ast.Mult, inst(
                I, 'L2NormSquared', X(w)), S('q')), gen)
        B['expr:KullbackLeibler * a[%s]' % t] = (
            lambda I, w=w: I.binop(ast.Mult, inst(
                I, 'KullbackLeibler', X(w)), S('q')), pos)
        B['expr:L2NormSquared.translated(y)[%s]' % t] = (
            lambda I, w=w: I.call(I.getattr_value(inst(
                I, 'L2NormSquared', X(w)), 'translated'), [point(X(w), [
                    S('y0'), S('y1'), S('y2'), S('y3')])], {}), gen)
        # translations of functionals whose conjugate is itself a derived
        # functional (the point is the leaf's designated point shifted by y)
        ys = [sig, -sig, 2 * sig, sig / 2]
        B['expr:Huber[gamma=sigma/2].translated(y)[%s]' % t] = (
            lambda I, w=w, ys=ys: I.call(I.getattr_value(inst(
                I, 'Huber', X(w), sig / 2), 'translated'), [point(
                    X(w), ys)], {}),
            [a + b for a, b in zip([3 * sig, -4 * sig, sig / 4, -sig / 3],
                                   ys)])
        B['expr:L1Norm.translated(y)[%s]' % t] = (
            lambda I, w=w, ys=ys: I.call(I.getattr_value(inst(
                I, 'L1Norm', X(w)), 'translated'), [point(X(w), ys)], {}),
            [a + b for a, b in zip(l1pt, ys)])
        B['expr:(L2NormSquared + <., l>).translated(y)[%s]' % t] = (
            lambda I, w=w: I.call(I.getattr_value(inst(
                I, 'FunctionalQuadraticPerturb', inst(
                    I, 'L2NormSquared', X(w)), linear_term=point(X(w), [
                        S('l0'), S('l1'), S('l2'), S('l3')])),
                'translated'), [point(X(w), [
                    S('y0'), S('y1'), S('y2'), S('y3')])], {}), gen)
        B['expr:L2NormSquared + <., l>[%s]' % t] = (
            lambda I, w=w: inst(
                I, 'FunctionalQuadraticPerturb', inst(
                    I, 'L2NormSquared', X(w)), linear_term=point(X(w), [
                        S('l0'), S('l1'), S('l2'), S('l3')])), gen)
        B['FunctionalQuadraticPerturb[KullbackLeibler, q, l, c,%s]' % t] = (
            lambda I, w=w: inst(
                I, 'FunctionalQuadraticPerturb', inst(
                    I, 'KullbackLeibler', X(w)), quadratic_coeff=S('q'),
                linear_term=point(X(w), [S('l0'), S('l1'), S('l2'),
                                         S('l3')]), constant=S('c')), pos)
    B['SeparableSum[L2NormSquared, KullbackLeibler]'] = (
        lambda I: inst(I, 'SeparableSum', inst(
            I, 'L2NormSquared', NSpace((2,), 'float64', S('w'))), inst(
                I, 'KullbackLeibler', NSpace((2,), 'float64', S('w')))),
        [S('e0'), -S('e1'), S('e2'), 2 * S('e3')])
    # ---- norms and the indicators of their dual unit balls -----------------
    inf = Opaque('np.inf')
    zero = Rat.const(0)
    for w, t in ((None, 'unweighted'), (Rat.const(4), 'weight 4')):
        def sp(w=w):
            return NSpace((4,), 'float64', w)
        a = 1 if w is None else 2          # sqrt of the weight
        B['LpNorm[p=inf,%s]' % t] = (
            lambda I, sp=sp: inst(I, 'LpNorm', sp(), inf),
            [5 * sig, -4 * sig, sig, zero])
        B['L2Norm[%s, ||x|| = 5 sigma]' % t] = (
            lambda I, sp=sp: inst(I, 'L2Norm', sp()),
            [3 * sig / a, -4 * sig / a, zero, zero])
        for e, et, pt in ((1, '1', [Rat.const(2), Rat.const(-1),
                                    Rat.const(1) / 4, zero]),
                          (2, '2', [Rat.const(3) / a, Rat.const(-4) / a,
                                    zero, zero]),
                          (inf, 'inf', [Rat.const(3), Rat.const(-4),
                                        Rat.const(1) / 2, zero])):
            B['IndicatorLpUnitBall[p=%s,%s]' % (et, t)] = (
                lambda I, sp=sp, e=e: inst(I, 'IndicatorLpUnitBall', sp(),
                                           e),
                pt)
        B['IndicatorBox[-1, 2,%s]' % t] = (
            lambda I, sp=sp: inst(I, 'IndicatorBox', sp(), -1, 2),
            [Rat.const(3), Rat.const(-2), Rat.const(1) / 2, zero])
    for wt, t in ((None, 'pspace'), ([Rat.const(4), Rat.const(9)],
                                     'pspace weights 4, 9')):
        def ps(wt=wt):
            return NPSpace([NSpace((2,), 'float64'),
                            NSpace((2,), 'float64')], wt)
        a0, a1 = (1, 1) if wt is None else (2, 3)
        B['GroupL1Norm[%s]' % t] = (
            lambda I, ps=ps: inst(I, 'GroupL1Norm', ps()),
            [3 * sig / a0, sig / (4 * a0), 4 * sig / a1, sig / (4 * a1)])
        B['IndicatorGroupL1UnitBall[p=2,%s]' % t] = (
            lambda I, ps=ps: inst(I, 'IndicatorGroupL1UnitBall', ps()),
            [Rat.const(3) / a0, Rat.const(1) / (4 * a0), Rat.const(4) / a1,
             zero])
        B['Huber[%s, gamma = sigma / 2]' % t] = (
            lambda I, ps=ps: inst(I, 'Huber', ps(), sig / 2),
            [3 * sig / a0, sig / (4 * a0), 4 * sig / a1, sig / a1])

    def mat():
        def col():
            return NPSpace([NSpace((1,), 'float64'),
                            NSpace((1,), 'float64')])
        return NPSpace([col(), col()])
    for e, et in ((1, '1'), (2, '2'), (inf, 'inf')):
        B['NuclearNorm[singular exp %s]' % et] = (
            lambda I, e=e: inst(I, 'NuclearNorm', mat(), 1, e),
            [sig * Rat.const(c) / 65 for c in (204, 84, -28, 237)])
        B['IndicatorNuclearNormUnitBall[singular exp %s]' % et] = (
            lambda I, e=e: inst(I, 'IndicatorNuclearNormUnitBall', mat(),
                                inf, e),
            [Rat.const(c) / 65 for c in (204, 84, -28, 237)])
    return B


def _mk(dom, entries):
    it = iter(entries)

    def mk(space):
        if isinstance(space, NPSpace):
            return NPElem(space, [mk(p) for p in space.parts])
        a = _np.empty(space.shape, dtype=object)
        for idx in _np.ndindex(*space.shape):
            a[idx] = next(it)
        return NElem(space, NA(a, space.dt))
    return mk(dom)


def _finite(v):
    return is_scalar(v)


def evaluate(model, build, entries, moreau=True):
    H = H7()
    H.signs.positive |= {'q', 'b0', 'b1', 'b2', 'b3'}
    I = I7(model, {}, H)
    f = build(I)
    dom = I.getattr_value(f, 'domain')
    xs = [PA.ired(to_rat(v)) for v in entries]
    ws = entry_weights(dom)
    res = {'skipped': [], 'probs': []}
    fx = I.call(f, [_mk(dom, entries)], {})
    try:
        fc = I.getattr_value(f, 'convex_conj')
    except PyRaise as e:
        res['skipped'].append('convex_conj raises %s' % e.name)
        return res
    outside = isinstance(fx, Opaque) and fx.desc == 'np.inf'
    if not outside:
        fx = PA.ired(to_rat(fx))
    # (a) Fenchel-Young equality at the gradient
    G = None
    if outside:
        res['skipped'].append('Fenchel-Young: f(x) = inf at the designated '
                              'point')
    else:
        G, _ = partials_at(H, I, f, dom, xs)
    if G is None:
        pass
    elif any(v.startswith('sfree') for g in G for v in g.vars()
             if isinstance(v, str)):
        res['skipped'].append('Fenchel-Young: x sits at a kink')
    else:
        g = [PA.reduce_full(Gj / wj) for Gj, wj in zip(G, ws)]
        try:
            fcg = I.call(fc, [_mk(dom, g)], {})
            if not _finite(fcg):
                res['probs'].append('f*(grad f(x)) = %r is not finite'
                                    % (fcg,))
            else:
                lhs = fx + PA.ired(to_rat(fcg))
                rhs = Rat.const(0)
                for xj, gj, wj in zip(xs, g, ws):
                    rhs = rhs + wj * xj * gj
                if not PA.same(lhs, rhs, WIT):
                    res['probs'].append(
                        'Fenchel-Young at y = grad f(x): f(x) + f*(y) = %s '
                        'but <x, y> = %s' % (_s(PA.reduce_full(lhs)),
                                             _s(PA.reduce_full(rhs))))
            # (a2) the inequality f(x) + f*(y) >= <x, y> away from the
            # gradient: y = g / 2 and y = 2 g
            half = Rat.const(1) / 2
            ys = [([PA.reduce_full(half * gj) for gj in g], 'g / 2'),
                  ([PA.reduce_full(2 * gj) for gj in g], '2 g')]
            for j in range(len(g)):
                # the gradient with one coordinate halved
                ys.append(([PA.reduce_full(half * gj) if i == j else gj
                            for i, gj in enumerate(g)],
                           'g with entry %d halved' % j))
            for y, ft in ys:
                try:
                    fy_ = I.call(fc, [_mk(dom, y)], {})
                except Undecided:
                    continue       # which side of the domain: not decided
                if not _finite(fy_):
                    continue               # + inf: nothing to show
                gap = fx + PA.ired(to_rat(fy_))
                for xj, yj, wj in zip(xs, y, ws):
                    gap = gap - wj * xj * yj
                sg = PA.full_sign(gap, H.signs)
                if sg is None:
                    vals = []
                    try:
                        vals = [PA.num_eval(gap, env) for env in WIT]
                    except Undecided:
                        pass
                    if vals and min(vals) < -1e-9 * max(1.0, max(
                            abs(v) for v in vals)):
                        sg = -1
                if sg is not None and sg < 0:
                    res['probs'].append(
                        'Fenchel-Young inequality fails at y = %s: f(x) + '
                        'f*(y) - <x, y> = %s' % (ft, _s(PA.reduce_full(gap))))
                elif sg is not None:
                    res['ineq'] = res.get('ineq', 0) + 1
        except PyRaise as e:
            if e.name == 'NotImplementedError':
                res['skipped'].append('f* cannot be evaluated')
            else:
                raise
    # (b) biconjugate
    try:
        fcc = I.getattr_value(fc, 'convex_conj')
        v = I.call(fcc, [_mk(dom, entries)], {})
        if outside:
            if not (isinstance(v, Opaque) and v.desc == 'np.inf'):
                res['probs'].append('f(x) = inf but f**(x) = %r' % (v,))
        elif not _finite(v):
            res['probs'].append('f**(x) = %r' % (v,))
        elif not PA.same(PA.ired(to_rat(v)), fx, WIT):
            res['probs'].append('f**(x) = %s but f(x) = %s' % (
                _s(PA.reduce_full(to_rat(v))), _s(fx)))
    except PyRaise as e:
        if e.name == 'NotImplementedError':
            res['skipped'].append('biconjugate not available')
        else:
            raise
    # (c) Moreau decomposition
    sig = S('sig')
    if not moreau:
        # region test not decidable by positive symbols (weighted 2-norm
        # against sigma) or a proximal through the Lambert W function
        res['skipped'].append('Moreau: outside the decidable fragment')
        return res
    try:
        p1 = I.call(I.call(I.getattr_value(f, 'proximal'), [sig], {}),
                    [_mk(dom, entries)], {})
        p2 = I.call(I.call(I.getattr_value(fc, 'proximal'), [1 / sig], {}),
                    [_mk(dom, [x / sig for x in xs])], {})
        a = flat(p1 if not isinstance(p1, NA) else H.element(I, dom, p1))
        b = flat(p2 if not isinstance(p2, NA) else H.element(I, dom, p2))
        for j, (u, v, x) in enumerate(zip(a, b, xs)):
            if not PA.same(u + sig * v, x, WIT):
                res['probs'].append(
                    'Moreau, entry %d: prox_{s f}(x) + s prox_{f*/s}(x/s) '
                    '= %s, x = %s' % (j, _s(PA.reduce_full(u + sig * v)),
                                      _s(x)))
                break
        else:
            # the same decomposition in the calling form the solvers use:
            # both proximals applied in place to their own argument
            q1 = _mk(dom, entries)
            q2 = _mk(dom, [x / sig for x in xs])
            I.call(I.call(I.getattr_value(f, 'proximal'), [sig], {}),
                   [q1], {'out': q1})
            I.call(I.call(I.getattr_value(fc, 'proximal'), [1 / sig], {}),
                   [q2], {'out': q2})
            for j, (u, v, x) in enumerate(zip(flat(q1), flat(q2), xs)):
                if not PA.same(u + sig * v, x, WIT):
                    res['probs'].append(
                        'Moreau with both proximals applied in place '
                        '(out = input), entry %d: prox_{s f}(x) + s '
                        'prox_{f*/s}(x/s) = %s, x = %s' % (
                            j, _s(PA.reduce_full(u + sig * v)), _s(x)))
                    break
    except PyRaise as e:
        if e.name == 'NotImplementedError':
            res['skipped'].append('a proximal is not available')
        else:
            raise
    return res


def factory_pairs(rep, model):
    """R6: the proximal factories come in documented pairs - `proximal_X(
    space, lam, g)` for F = lam * X(. - g) and `proximal_convex_conj_X(space,
    lam, g)` for its conjugate.  Called directly, with their parameters,
    they satisfy the Moreau decomposition prox_{s F}(x) + s prox_{F*/s}(x/s)
    = x, checked at numeric steps and points on both sides of every
    threshold (the functionals of the library reach the conjugate factories
    only with g = None)."""
    from ..symex import Func
    PROXMOD = 'odl/solvers/nonsmooth/proximal_operators.py'
    C = lambda *v: [Rat.const(x) if not isinstance(x, Rat) else x for x in v]
    from fractions import Fraction as Fr
    lam = Rat.const(Fr(3, 2))
    g = C(1, -1, 2, 0)
    pts = {'far': C(5, 2, 4, 0), 'near': C(Fr(23, 10), Fr(-8, 5), 4, 0),
           'mixed signs': C(-3, Fr(1, 2), 7, -1)}
    n = 0
    for base in ('l2', 'l1', 'l2_squared'):
        f1 = model.ctx.func(PROXMOD, 'proximal_' + base)
        f2 = model.ctx.func(PROXMOD, 'proximal_convex_conj_' + base)
        if f1 is None or f2 is None:
            raise AnalysisError('anchor vanished: proximal_%s / '
                                'proximal_convex_conj_%s' % (base, base))
        for w, wt in ((None, 'unweighted'), (Rat.const(4), 'weight 4')):
            for with_g in (True, False):
                for pname, xs in pts.items():
                    for sg in (Rat.const(2), Rat.const(Fr(1, 3))):
                        n += 1
                        cons = ('proximal_%s / proximal_convex_conj_%s[%s,'
                                '%s,%s,sigma=%s]' % (
                                    base, base, wt, 'lam, g' if with_g
                                    else 'lam', pname, sg))
                        try:
                            H = H7()
                            I = I7(model, {}, H)
                            sp = NSpace((4,), 'float64', w)
                            kw = {'lam': lam}
                            if with_g:
                                kw['g'] = point(sp, g)
                            mk = lambda f: I.call_func(Func(
                                f, I.env_of(PROXMOD), None), [sp], dict(kw))
                            p1 = I.call(I.call(mk(f1), [sg], {}),
                                        [point(sp, xs)], {})
                            p2 = I.call(I.call(mk(f2), [1 / sg], {}),
                                        [point(sp, [x / sg for x in xs])],
                                        {})
                            a = flat(p1 if not isinstance(p1, NA)
                                     else H.element(I, sp, p1))
                            b = flat(p2 if not isinstance(p2, NA)
                                     else H.element(I, sp, p2))
                            bad = None
                            for j, (u, v, x) in enumerate(zip(a, b, xs)):
                                if not PA.same(u + sg * v, x, WIT):
                                    bad = ('entry %d: prox_{s F}(x) + s '
                                           'prox_{F*/s}(x/s) = %s, x = %s'
                                           % (j, _s(PA.reduce_full(
                                               u + sg * v)), _s(x)))
                                    break
                            if bad:
                                rep.violation('R6', cons, bad, PROXMOD,
                                              f2.lineno)
                            else:
                                rep.holds('R6', cons, 'Moreau decomposition '
                                          'of the factory pair')
                        except (Undecided, Fork) as e:
                            rep.undecided('R6', cons, str(e), PROXMOD,
                                          f2.lineno)
                        except PyRaise as e:
                            rep.violation('R6', cons, 'raises %s' % e.name,
                                          PROXMOD, f2.lineno)
    rep.floor('R6', 'factory pair evaluations', n, 60)


def run(rep, model):
    factory_pairs(rep, model)
    n = nclauses = 0
    for name, spec in builders(model).items():
        b, entries = spec[0], spec[1]
        n += 1
        rel, line = _where(model, name.replace('expr:', ''))
        try:
            from ..core import with_budget
            r = with_budget(lambda: evaluate(model, b, entries,
                                             len(spec) < 3))
        except (Undecided, Fork) as e:
            rep.undecided('R5', name, str(e), rel)
            continue
        except NotAnElement as e:
            rep.violation('R5', name, 'a call yields no element: %s' % e, rel)
            continue
        except PyRaise as e:
            rep.violation('R5', name, 'raises %s at `%s`' % (
                e.name, ast.unparse(e.node)[:70] if e.node is not None
                else '?'), rel, getattr(e.node, 'lineno', None))
            continue
        nclauses += 3 - len(r['skipped']) + r.get('ineq', 0)
        if r['probs']:
            rep.violation('R5', name, '; '.join(r['probs'][:2]), rel, line)
        else:
            rep.holds('R5', name, 'Fenchel-Young equality at the gradient, '
                      'biconjugate, Moreau%s' % (
                          ' (skipped: %s)' % '; '.join(r['skipped'])
                          if r['skipped'] else ''))
    rep.floor('R5', 'evaluated conjugate instances', n, 70)
    rep.floor('R5', 'decided clauses', nclauses, 200)
