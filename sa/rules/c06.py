"""C06 -- derivative(x) is the Frechet derivative of the operator at x.
See DESIGN.md section C06 (structural part)."""
from __future__ import annotations

import ast

from ..core import Report, Undecided, AnalysisError
from ..srcmodel import Model
from ..forks import explore
from ..ratfun import Rat, satom
from .. import vs
from ..symex import (Interp, Inst, OpV, Vec, SpaceV, FieldV, PyRaise, Opaque)
from ..opalg import OpHooks, apply, flags, OPFILE
from .c05 import Ctx5, Hooks5, _real_norm

DOPS = 'odl/operator/default_ops.py'


def _builders(model):
    def inst(I, cls, *args, **kw):
        return I.instantiate(model.get(cls), list(args), kw)

    def mk(c, lin):
        return (c.lin if lin else c.nonlin)

    B = {}
    # (name) -> builder(c, lin) -> (instance, domain, range)
    B['OperatorSum'] = lambda c, lin: (inst(
        c.I, 'OperatorSum', mk(c, lin)('A', c.X, c.Y),
        mk(c, lin)('B', c.X, c.Y)), c.X, c.Y)
    B['OperatorSum:with temporaries'] = lambda c, lin: (inst(
        c.I, 'OperatorSum', mk(c, lin)('A', c.X, c.Y),
        mk(c, lin)('B', c.X, c.Y), Vec(vs.sym('tr'), c.Y),
        Vec(vs.sym('td'), c.X)), c.X, c.Y)
    B['OperatorVectorSum'] = lambda c, lin: (inst(
        c.I, 'OperatorVectorSum', mk(c, lin)('A', c.X, c.Y),
        Vec(vs.sym('v'), c.Y)), c.X, c.Y)
    B['OperatorComp'] = lambda c, lin: (inst(
        c.I, 'OperatorComp', mk(c, lin)('A', c.Y, c.Z),
        mk(c, lin)('B', c.X, c.Y)), c.X, c.Z)
    B['OperatorComp:linear left'] = lambda c, lin: (inst(
        c.I, 'OperatorComp', c.lin('A', c.Y, c.Z),
        mk(c, lin)('B', c.X, c.Y)), c.X, c.Z)
    B['OperatorComp:with temporary'] = lambda c, lin: (inst(
        c.I, 'OperatorComp', mk(c, lin)('A', c.Y, c.Z),
        mk(c, lin)('B', c.X, c.Y), Vec(vs.sym('tm'), c.Y)), c.X, c.Z)
    B['OperatorPointwiseProduct'] = lambda c, lin: (inst(
        c.I, 'OperatorPointwiseProduct', mk(c, lin)('A', c.X, c.Y),
        mk(c, lin)('B', c.X, c.Y)), c.X, c.Y)
    B['OperatorLeftScalarMult'] = lambda c, lin: (inst(
        c.I, 'OperatorLeftScalarMult', mk(c, lin)('A', c.X, c.Y),
        Rat.var('s')), c.X, c.Y)
    B['OperatorRightScalarMult'] = lambda c, lin: (inst(
        c.I, 'OperatorRightScalarMult', mk(c, lin)('A', c.X, c.Y),
        Rat.var('s')), c.X, c.Y)
    B['OperatorLeftVectorMult'] = lambda c, lin: (inst(
        c.I, 'OperatorLeftVectorMult', mk(c, lin)('A', c.X, c.Y),
        Vec(vs.sym('v'), c.Y)), c.X, c.Y)
    B['OperatorRightVectorMult'] = lambda c, lin: (inst(
        c.I, 'OperatorRightVectorMult', mk(c, lin)('A', c.X, c.Y),
        Vec(vs.sym('v'), c.X)), c.X, c.Y)
    B['ScalingOperator'] = lambda c, lin: (inst(
        c.I, 'ScalingOperator', c.X, Rat.var('s')), c.X, c.X)
    B['MultiplyOperator'] = lambda c, lin: (inst(
        c.I, 'MultiplyOperator', Vec(vs.sym('m'), c.X)), c.X, c.X)
    B['ConstantOperator'] = lambda c, lin: (inst(
        c.I, 'ConstantOperator', Vec(vs.sym('v'), c.Y), c.X, c.Y),
        c.X, c.Y)
    B['ZeroOperator'] = lambda c, lin: (inst(
        c.I, 'ZeroOperator', c.X, c.Y), c.X, c.Y)

    def nested(c, lin):
        I = c.I
        A, Bo = mk(c, lin)('A', c.Y, c.Z), mk(c, lin)('B', c.Y, c.Z)
        C = mk(c, lin)('C', c.X, c.Y)
        pw = inst(I, 'OperatorPointwiseProduct', A, Bo)
        sc = inst(I, 'OperatorRightScalarMult', pw, Rat.var('s'))
        return inst(I, 'OperatorComp', sc, C), c.X, c.Z
    B['nested:((A.B)*s)oC'] = nested
    return B


class Hooks6(Hooks5):
    def on_getattr(self, interp, obj, name):
        if isinstance(obj, Vec) and name == 'norm':
            from ..symex import Builtin
            return Builtin('norm', lambda: Rat.var(satom('norm', vs.freeze(obj.val))))
        return Hooks5.on_getattr(self, interp, obj, name)

    def on_decide(self, interp, cond, node):
        # ConstantOperator: linear = (constant.norm() == 0): a generic
        # constant has non-zero norm
        if cond.rat is not None and cond.key.startswith('eq0:'):
            vs_ = cond.rat.vars()
            if len(vs_) == 1 and isinstance(list(vs_)[0], tuple) and \
                    list(vs_)[0][0] == 'norm':
                return False
        return Hooks5.on_decide(self, interp, cond, node)


def derivative_instance(model, name, builder, field, lin):
    def once(assume):
        I = Interp(model, assume, Hooks6())
        c = Ctx5(I, field)
        op, dom, ran = builder(c, lin)
        x = Vec(vs.sym('x'), dom)
        h = Vec(vs.sym('h'), dom)
        res = {}
        den = apply(I, op, x)
        try:
            dfn = I.getattr_value(op, 'derivative')
            der = I.call(dfn, [x], {})
        except PyRaise as e:
            res['outcome'] = 'raises ' + e.name
            return res
        got = apply(I, der, h)
        want = vs.deriv(den.val, h.val, I.reg, 'x')
        res['outcome'] = 'value'
        res['got'], res['want'] = vs.freeze(got.val), vs.freeze(want)
        res['got_show'], res['want_show'] = vs.show(got.val), vs.show(want)
        res['den_show'] = vs.show(den.val)
        d, r, dl = flags(I, der)
        res['der_meta'] = (d, r, dl)
        res['dom'], res['ran'] = dom, ran
        res['is_self'] = der is op
        res['op_linear'] = bool(I.getattr_value(op, 'is_linear'))
        return res
    return [r for a, r in explore(once, limit=100)]


def check(ctx):
    rep = Report(
        'C06', ctx, 'other',
        'Structural part.  R1: for every operator-arithmetic class and the '
        'default operators, derivative(x) is obtained by symbolic '
        'interpretation and applied to a direction h; the result must equal'
        ' the symbolic directional derivative of the class denotation '
        '(derived from its own _call) under D[A(u)] = A.derivative(u)(D u) '
        'for non-linear A, D[L(u)] = L(D u) for linear L, and the product '
        'rule for pointwise products -- i.e. sum, chain (at the correct '
        'inner point) and product rules.  R2: linear operators return '
        'themselves; derivative(x) is linear and maps domain -> range (R5).'
        '  R3: the ufunc derivative table equals the symbolic derivatives '
        'of the named elementary functions.  R4: closed forms of '
        'PowerOperator.  R6: ProductSpaceOperator / BroadcastOperator / '
        'ReductionOperator differentiate every block at the component of '
        'the point that the block acts on (block layouts incl. off-diagonal '
        'and unsorted ones), keep the block positions and the spaces.',
        ['CPython ast', 'vector-space axioms of the free algebra; '
         'differentiation rules of elementary functions'],
        ['PointwiseNorm.derivative (array masking code)',
         'convergence rate of difference quotients (numerical)',
         'LinDeformFixedTempl.derivative (exempt by the statement)'])
    model = Model(ctx)
    builders = _builders(model)
    n = 0
    for name, b in builders.items():
        cls = name.split(':')[0]
        ci = model.classes.get(cls)
        rel, line = OPFILE, None
        if ci is not None:
            dc, m = model.lookup(ci, 'derivative')
            line = getattr(m, 'lineno', None)
            rel = dc.rel if dc else ci.rel
        for field in ('R', 'C'):
            for lin in (False, True):
                n += 1
                tag = '%s.derivative[%s,leaves linear=%s]' % (name, field,
                                                              lin)
                cons = '%s.derivative' % cls
                try:
                    leaves = derivative_instance(model, name, b, field, lin)
                except Undecided as e:
                    rep.undecided('R1', tag, str(e), rel, line)
                    continue
                except PyRaise as e:
                    rep.violation('R1', cons, '%s: raises %s' % (tag,
                                                                 e.name),
                                  rel, line)
                    continue
                for res in leaves:
                    if res['outcome'] != 'value':
                        rep.violation(
                            'R1', cons, '%s: derivative(x) %s for well-typed'
                            ' operands' % (tag, res['outcome']), rel, line)
                        continue
                    if res['got'] != res['want']:
                        rep.violation(
                            'R1', cons,
                            '%s: A(x) = %s; derivative(x)(h) evaluates to '
                            '%s, the derivative of the denotation is %s'
                            % (tag, res['den_show'], res['got_show'],
                               res['want_show']), rel, line)
                    else:
                        rep.holds('R1', tag, 'D A(x)[h] = %s'
                                  % res['want_show'])
                    d, r, dl = res['der_meta']
                    probs = []
                    if d != res['dom'] or r != res['ran']:
                        probs.append('derivative maps %r -> %r, expected '
                                     '%r -> %r' % (d, r, res['dom'],
                                                   res['ran']))
                    if not dl:
                        probs.append('derivative(x) is not flagged linear')
                    if probs:
                        rep.violation('R5', cons, '%s: %s'
                                      % (tag, '; '.join(probs)), rel, line)
                    else:
                        rep.holds('R5', tag, 'linear, domain -> range')
    rep.count('derivative_instances', n)
    rep.floor('R1', 'derivative instances', n, 50)
    _ufunc_table(ctx, rep)
    _power_operator(ctx, rep, model)
    _block_derivatives(ctx, rep, model)
    _derivative_liveness(rep, model)
    from . import c06b
    c06b.run(rep, model)
    return rep


# --------------------------------------------------------------------------
# R3: ufunc derivative table
def _ufunc_table(ctx, rep):
    from ..symdiff import parse_ufunc_expr, d_elementary, equal_funcs
    rel = 'odl/ufunc_ops/ufunc_ops.py'
    tree = ctx.tree(rel)
    fn = ctx.func(rel, 'derivative_factory')
    # the factory is an if/elif ladder on `name`; every arm defines a
    # nested `derivative(self, point)` returning an operator expression
    arms = []

    def walk(node):
        if isinstance(node, ast.If):
            t = node.test
            if isinstance(t, ast.Compare) and isinstance(t.left, ast.Name) \
                    and t.left.id == 'name' and len(t.ops) == 1 and \
                    isinstance(t.ops[0], ast.Eq):
                arms.append((ast.literal_eval(t.comparators[0]), node.body))
            for s in node.orelse:
                walk(s)
    for s in fn.body:
        walk(s)
    rep.floor('R3', 'ufunc derivative table entries', len(arms), 10)
    for name, body in arms:
        cons = 'derivative_factory[%s]' % name
        defs = [s for s in body if isinstance(s, ast.FunctionDef)]
        if len(defs) != 1:
            rep.undecided('R3', cons, 'arm without a single nested def',
                          rel, body[0].lineno)
            continue
        d = defs[0]
        try:
            got = parse_ufunc_expr(d, name)
            want = d_elementary(name)
            if want is None:
                rep.undecided('R3', cons, 'no reference derivative for %s'
                              % name, rel, d.lineno)
                continue
            ok, info = equal_funcs(got, want)
            if ok:
                rep.holds('R3', cons, 'd/dt %s(t) = %s' % (name, info))
            else:
                rep.violation('R3', cons, 'table entry is %s, the '
                              'derivative of %s is %s' % (info[0], name,
                                                          info[1]), rel,
                              d.lineno)
        except Undecided as e:
            rep.undecided('R3', cons, str(e), rel, d.lineno)


def _power_operator(ctx, rep, model):
    """R4: PowerOperator.derivative against the derivative of x ** p."""
    ci = model.get('PowerOperator')
    m = ci.methods.get('derivative')
    if m is None:
        raise AnalysisError('anchor vanished: PowerOperator.derivative')
    cons = 'PowerOperator.derivative'
    for field in ('R', 'C'):
        tag = '%s[%s]' % (cons, field)

        def once(assume):
            I = Interp(model, assume, Hooks6())
            c = Ctx5(I, field)
            p = Rat.var('p')
            I.real_scalars.add('p')
            I.nonzero.extend([p, p - Rat.const(1)])
            op = I.instantiate(ci, [c.X, p], {})
            x = Vec(vs.sym('x'), c.X)
            h = Vec(vs.sym('h'), c.X)
            den = apply(I, op, x)
            der = I.call(I.getattr_value(op, 'derivative'), [x], {})
            got = apply(I, der, h)
            want = vs.deriv(den.val, h.val, I.reg, 'x')
            return (vs.freeze(got.val), vs.freeze(want), vs.show(got.val),
                    vs.show(want))
        try:
            for a, (g, w, gs, ws) in explore(once, limit=50):
                if g != w:
                    rep.violation('R4', cons, '%s: derivative(x)(h) = %s, '
                                  'd/dx x**p [h] = %s' % (tag, gs, ws),
                                  ci.rel, m.lineno)
                else:
                    rep.holds('R4', tag, 'p * x**(p-1) * h')
        except Undecided as e:
            rep.undecided('R4', tag, str(e), ci.rel, m.lineno)
        except PyRaise as e:
            rep.violation('R4', cons, '%s: raises %s' % (tag, e.name),
                          ci.rel, m.lineno)


# --------------------------------------------------------------------------
# R6: block operators differentiate every block at the component of the
# point that the block acts on
PSO = 'odl/operator/pspace_ops.py'


class BlockHooks(Hooks6):
    def __init__(self):
        Hooks6.__init__(self)
        self.made = []

    def on_call(self, interp, f, args, kwargs, node):
        from ..symex import ClassV, Rec
        if isinstance(f, ClassV) and f.ci.name in (
                'COOMatrix', 'ProductSpaceOperator', 'BroadcastOperator',
                'ReductionOperator', 'DiagonalOperator'):
            r = Rec(f.ci.name, args=list(args), kwargs=dict(kwargs))
            self.made.append(r)
            return r
        return Hooks6.on_call(self, interp, f, args, kwargs, node)

    def on_getattr(self, interp, obj, name):
        from ..symex import Rec
        if isinstance(obj, Rec) and name in obj.attrs:
            return obj.attrs[name]
        return Hooks6.on_getattr(self, interp, obj, name)


def _der_point(op):
    """(base operator name, frozen point) of a derivative operator value."""
    t = getattr(op, 'term', None)
    if isinstance(t, vs.ODer):
        return t.base.name, t.pt
    return None


def _block_derivatives(ctx, rep, model):
    from ..symex import Rec, SArr, PVec
    ci = model.get('ProductSpaceOperator')
    if ci is None or 'derivative' not in ci.methods:
        raise AnalysisError('anchor vanished: ProductSpaceOperator.derivative')

    def setup():
        h = BlockHooks()
        I = Interp(model, {}, h)
        X0, X1, Y0, Y1 = (SpaceV(n, 'R') for n in ('X0', 'X1', 'Y0', 'Y1'))
        dom = SpaceV('X0xX1', 'R')
        dom.parts = [X0, X1]
        ran = SpaceV('Y0xY1', 'R')
        ran.parts = [Y0, Y1]
        x = PVec([Vec(vs.sym('x0'), X0), Vec(vs.sym('x1'), X1)], dom)
        return h, I, (X0, X1, Y0, Y1), dom, ran, x

    # ---- ProductSpaceOperator: blocks (row, col) -----------------------------
    for layout, rows, cols in (('full 2x2', [0, 0, 1, 1], [0, 1, 0, 1]),
                               ('upper right only', [0], [1]),
                               ('lower left only', [1], [0]),
                               ('unsorted', [1, 0, 1], [1, 1, 0])):
        cons = 'ProductSpaceOperator.derivative[%s]' % layout
        try:
            h, I, (X0, X1, Y0, Y1), dom, ran, x = setup()
            doms, rans = [X0, X1], [Y0, Y1]
            ops = [I.opsym('A%d' % k, doms[c], rans[r], False)
                   for k, (r, c) in enumerate(zip(rows, cols))]
            inst = Inst(ci)
            inst.attrs['_ProductSpaceOperator__ops'] = Rec(
                'COOMatrix', data=list(ops), row=list(rows), col=list(cols),
                shape=(2, 2))
            inst.attrs['_Operator__domain'] = dom
            inst.attrs['_Operator__range'] = ran
            inst.attrs['_Operator__is_linear'] = False
            inst.attrs['_Operator__is_functional'] = False
            I.call(I.getattr_value(inst, 'derivative'), [x], {})
            coo = [m for m in h.made if m.kind == 'COOMatrix']
            pso = [m for m in h.made if m.kind == 'ProductSpaceOperator']
            probs = []
            if len(coo) != 1 or len(pso) != 1:
                probs.append('%d matrices, %d block operators built'
                             % (len(coo), len(pso)))
            else:
                data, indices, shape = (coo[0].attrs['args'] + [None] * 3)[:3]
                data = data.items if isinstance(data, SArr) else list(data)
                if list(indices[0]) != rows or list(indices[1]) != cols \
                        or tuple(shape) != (2, 2):
                    probs.append('block positions %r, shape %r'
                                 % (indices, shape))
                for k, d in enumerate(data):
                    dp = _der_point(d)
                    want = vs.freeze(x.parts[cols[k]].val)
                    if dp is None or dp[0] != 'A%d' % k:
                        probs.append('block %d is %r, not a derivative of '
                                     'A%d' % (k, d, k))
                    elif dp[1] != want:
                        probs.append('block (%d, %d) is differentiated at '
                                     '%s, it acts on component %d of the '
                                     'point' % (rows[k], cols[k],
                                                vs.show(vs.thaw(dp[1])),
                                                cols[k]))
                a = pso[0].attrs['args']
                if len(a) < 3 or a[1] is not dom or a[2] is not ran:
                    probs.append('domain / range of the derivative')
            if probs:
                rep.violation('R6', cons, '; '.join(probs[:2]), PSO,
                              ci.methods['derivative'].lineno)
            else:
                rep.holds('R6', cons, 'every block differentiated at its '
                          'column component')
        except Undecided as e:
            rep.undecided('R6', cons, str(e), PSO,
                          ci.methods['derivative'].lineno)
        except PyRaise as e:
            rep.violation('R6', cons, 'raises %s' % e.name, PSO,
                          ci.methods['derivative'].lineno)

    # ---- Broadcast / Reduction ---------------------------------------------------
    for cls, whole in (('BroadcastOperator', True),
                       ('ReductionOperator', False)):
        c2 = model.get(cls)
        cons = '%s.derivative' % cls
        try:
            h, I, (X0, X1, Y0, Y1), dom, ran, x = setup()
            if whole:
                ops = [I.opsym('A%d' % k, X0, [Y0, Y1][k], False)
                       for k in range(2)]
                pt = Vec(vs.sym('x0'), X0)
            else:
                ops = [I.opsym('A%d' % k, [X0, X1][k], Y0, False)
                       for k in range(2)]
                pt = x
            inst = Inst(c2)
            inst.attrs['_%s__operators' % cls] = tuple(ops)
            inst.attrs['_Operator__is_linear'] = False
            I.call(I.getattr_value(inst, 'derivative'), [pt], {})
            made = [m for m in h.made if m.kind == cls]
            probs = []
            if len(made) != 1:
                probs.append('%d operators built' % len(made))
            else:
                args = made[0].attrs['args']
                if len(args) != 2:
                    probs.append('%d blocks' % len(args))
                for k, d in enumerate(args):
                    dp = _der_point(d)
                    want = vs.freeze(pt.val if whole else x.parts[k].val)
                    if dp is None or dp[0] != 'A%d' % k:
                        probs.append('block %d is %r' % (k, d))
                    elif dp[1] != want:
                        probs.append('block %d differentiated at %s'
                                     % (k, vs.show(vs.thaw(dp[1]))))
            if probs:
                rep.violation('R6', cons, '; '.join(probs[:2]), PSO,
                              c2.methods['derivative'].lineno)
            else:
                rep.holds('R6', cons, 'blocks differentiated at %s'
                          % ('the point' if whole else 'their components'))
        except Undecided as e:
            if 'expected a vector' in str(e):
                rep.violation('R6', cons, 'a block is differentiated at a '
                              'point outside its domain (%s)' % e, PSO)
            else:
                rep.undecided('R6', cons, str(e), PSO)
        except PyRaise as e:
            rep.violation('R6', cons, 'raises %s' % e.name, PSO)


# --------------------------------------------------------------------------
# R7: parameter liveness of derivatives.  A constructor parameter that the
# value of an operator (`_call`) depends on must also reach `derivative` --
# unless it is an additive constant / shift or a scratch temporary (named
# exceptions): the Frechet derivative of x -> A_p(x) cannot be independent
# of a parameter p that changes the operator non-additively.
DERIV_LIVENESS_EXCEPTIONS = {
    ('ConstantOperator', 'constant'): 'the operator is constant: derivative '
                                      'zero for every value',
    ('OperatorVectorSum', 'vector'): 'additive shift',
    ('OperatorRightScalarMult', 'tmp'): 'scratch temporary',
    ('ResizingOperator', 'ran_shp'): 'the derivative is built on self.range, '
                                     'which fixes the shape and the offset '
                                     '(confirmed: offsets agree)',
}
LIVENESS_FILES = (
    'odl/operator/default_ops.py', 'odl/operator/tensor_ops.py',
    'odl/operator/pspace_ops.py', 'odl/discr/diff_ops.py',
    'odl/discr/discr_ops.py', 'odl/operator/operator.py',
    'odl/deform/linearized.py')


def _derivative_liveness(rep, model):
    from .c07 import _attr_params, _self_reads
    n = 0

    def norm(a):
        return a.split('__')[-1] if a.startswith('__') else a
    for ci in sorted(model.classes.values(), key=lambda c: (c.rel, c.name)):
        if ci.rel not in LIVENESS_FILES or not model.is_subclass(
                ci, 'Operator'):
            continue
        call = ci.methods.get('_call')
        der = ci.methods.get('derivative')
        if call is None or der is None:
            continue
        amap, params = _attr_params(model, ci)
        if not amap:
            continue
        body = [s for s in der.body if not (isinstance(s, ast.Expr) and
                                            isinstance(s.value,
                                                       ast.Constant))]
        if len(body) == 1 and isinstance(body[0], ast.Raise):
            continue
        n += 1

        def closure(node):
            reads = set()
            todo = list(_self_reads(node))
            while todo:
                a = norm(todo.pop())
                if a in reads:
                    continue
                reads.add(a)
                dc, m = model.lookup(ci, a)
                if isinstance(m, ast.FunctionDef) and m is not node and \
                        a not in ('_call', 'derivative', 'adjoint',
                                  'inverse'):
                    todo.extend(_self_reads(m))
            return reads

        def to_params(attrs):
            ps = set()
            for a in attrs:
                ps |= amap.get(a, set())
            return ps - {'space', 'domain', 'range', 'dom', 'ran'}
        vp = to_params(closure(call))
        rets = [r for r in ast.walk(der) if isinstance(r, ast.Return)]
        returns_self = any(isinstance(r.value, ast.Name) and
                           r.value.id == 'self' for r in rets)
        rp = to_params(closure(der))
        missing = sorted(a for a in vp - rp
                         if (ci.name, a) not in DERIV_LIVENESS_EXCEPTIONS)
        cons = ci.name + '.derivative'
        if missing and not (returns_self and len(rets) == 1):
            rep.violation(
                'R7', cons, 'the operator depends on the constructor '
                'parameter(s) %s which derivative() never reads: the '
                'returned operator cannot be the derivative for every value '
                'of them' % missing, ci.rel, der.lineno)
        else:
            rep.holds('R7', cons, 'reads every value parameter %s'
                      % sorted(vp))
    rep.floor('R7', 'operators with _call and derivative', n, 20)
