"""C07, evaluated tier: concrete functionals are instantiated on weighted
model spaces, their proximal operator is applied to a designated point x
whose entries are explicit positive combinations of the parameters (so that
every region test of a piecewise formula is decided by the signs of positive
symbols), and the result p is checked against the *first-order optimality
condition of the proximal problem*

        w_j (x_j - p_j) / sigma   in   d f / d y_j (p)          for every j

where f is the functional's own value (`_call`), evaluated at y = p + t with
infinitesimal symbols t and differentiated symbolically.  At a kink of an
absolute value (p_j = 0) the derivative is the unknown s_j in [-1, 1]; the
condition is solved for s_j and the interval is decided by sign analysis.
Indicator functionals use the normal-cone condition of their set."""
from __future__ import annotations

import ast

import numpy as _np

from ..core import Undecided, AnalysisError
from ..forks import Fork
from ..ratfun import Rat, SAtom, satom
from ..symex import (Inst, Func, Builtin, Rec, PyRaise, ModuleV, Opaque,
                     is_scalar, to_rat)
from ..namodel import NA, DT, objarr, na_of
from ..spacemodel import NotAnElement
from ..spacemodel import (SMHooks, SMInterp, NSpace, NPSpace, NField, NElem,
                          NPElem, sym_elem, inner, flat)
from .. import posalg as PA
from .. import mdiff
from ..posalg import Signs
from .c05b import witness, _where
from .c09b import H9, entry_weights, _s

WIT = [witness(55), witness(56)]
PROXMOD = 'odl/solvers/nonsmooth/proximal_operators.py'
POS = {'sig', 'gam', 'lam', 'r0', 'r1', 'e0', 'e1', 'e2', 'e3', 'e4', 'e5', 'dd', 'w',
       'w0', 'w1', 'w2', 'w3', 'w4', 'w5', 'p0', 'p1', 'q'}


class H7(H9):
    def __init__(self):
        H9.__init__(self)
        self.signs = Signs(set(POS))
        self.infinitesimal = set()
        self.ray = None       # jets.Jets along a ray y = p + t d, t -> 0+

    def at_point(self, r):
        """The expression at t = 0 (decisions near the point p)."""
        if not self.infinitesimal:
            return r
        m = {t: Rat.const(0) for t in self.infinitesimal
             if mdiff._depends(r, t)}
        if not m:
            return r
        return mdiff.deep_subs(r, m, self.rebuild)

    def rebuild(self, kind, arg, atom):
        if kind == 'abs':
            return PA.abs_nf(arg, self.signs)
        if kind == 'sqrt':
            return PA.root(arg, 2, self.signs)
        if kind == 'root':
            return PA.root(arg, atom[2], self.signs)
        if kind == 'sgn':
            return self.sgn(arg)
        if kind == 'log':
            return PA.log_nf(arg, self.signs)
        if kind == 'exp':
            return PA.exp_nf(arg, self.signs)
        return Rat.var(satom(kind, arg, *atom[2:]))

    def atom1(self, name):
        if name == 'log':
            return lambda x: PA.log_nf(to_rat(x), self.signs)
        if name == 'exp':
            return lambda x: PA.exp_nf(to_rat(x), self.signs)
        if name in ('isfinite', 'isnan', 'isinf'):
            def fin(x):
                if isinstance(x, Opaque):
                    return {'isfinite': False, 'isnan': 'nan' in x.desc,
                            'isinf': 'inf' in x.desc}[name]
                return name == 'isfinite'
            return fin
        return H9.atom1(self, name)

    def np_func(self, I, name):
        if name == 'finfo':
            # exact arithmetic: floating-point tolerances are zero
            return lambda *a, **k: Rec('finfo', resolution=Rat.const(0),
                                       eps=Rat.const(0), tiny=Rat.const(0))
        return H9.np_func(self, I, name)

    def sgn(self, arg):
        if arg.is_zero():
            self.nfree = getattr(self, 'nfree', 0) + 1
            return Rat.var('sfree%d' % self.nfree)
        sg = PA.rat_sign(arg, self.signs)
        if sg is None:
            return arg / PA.abs_nf(arg, self.signs)
        return Rat.const(sg)

    def on_decide(self, interp, cond, node):
        k = cond.key.split(':')[0]
        if cond.rat is not None and k in ('Lt', 'LtE', 'Gt', 'GtE', 'eq0'):
            r = PA.reduce_full(self.at_point(cond.rat))
            if r.is_zero():
                if self.infinitesimal and mdiff_depends_any(
                        cond.rat, self.infinitesimal):
                    if self.ray is None:
                        raise Undecided('the designated point lies on a '
                                        'region boundary: %r' % (cond.rat,))
                    sg = self.ray.lead_sign(cond.rat, 'a region test')
                    return {'Lt': sg < 0, 'LtE': sg <= 0, 'Gt': sg > 0,
                            'GtE': sg >= 0, 'eq0': sg == 0}[k]
                return {'Lt': False, 'LtE': True, 'Gt': False, 'GtE': True,
                        'eq0': True}[k]
            sg = PA.full_sign(r, self.signs)
            if sg is None and k == 'eq0':
                return False              # generic parameters
            if sg is None:
                raise Undecided('sign of %r at the designated point' % (r,))
            return {'Lt': sg < 0, 'LtE': sg <= 0, 'Gt': sg > 0,
                    'GtE': sg >= 0, 'eq0': False}[k]
        return H9.on_decide(self, interp, cond, node)

    def maxmin(self, I, name, x, y):
        x, y = to_rat(x), to_rat(y)
        d = PA.reduce_full(self.at_point(x - y))
        if d.is_zero():
            if not PA.reduce_full(x - y).n.is_zero() and self.infinitesimal \
                    and mdiff_depends_any(x - y, self.infinitesimal):
                if self.ray is None:
                    raise Undecided('max / min with a tie at the designated '
                                    'point')
                sg = self.ray.lead_sign(x - y, 'a max / min tie')
                big, small = (x, y) if sg >= 0 else (y, x)
                return big if name.startswith('max') else small
            return x
        sg = PA.full_sign(d, self.signs)
        if sg is None:
            raise Undecided('max / min of %r and %r' % (x, y))
        big, small = (x, y) if sg > 0 else (y, x)
        return big if name.startswith('max') else small


def mdiff_depends_any(r, names):
    return any(mdiff._depends(r, t) for t in names)


from ..spacemodel import BoolElem  # noqa: E402


class I7(SMInterp):
    pass


# ---------------------------------------------------------------------------
def S(name):
    return Rat.var(name)


def spaces():
    def X(w, n=4):
        if w == 'const':
            wt = S('w')
        elif w is None:
            wt = None
        else:
            wt = NA(objarr([S('w%d' % i) for i in range(n)]), 'float64')
        return NSpace((n,), 'float64', wt)
    return X


def mk_point(dom, entries):
    it = iter(entries)

    def mk(space):
        if isinstance(space, NPSpace):
            return NPElem(space, [mk(p) for p in space.parts])
        a = _np.empty(space.shape, dtype=object)
        for idx in _np.ndindex(*space.shape):
            a[idx] = next(it)
        return NElem(space, NA(a, space.dt))
    return mk(dom)


def point(space, entries):
    a = _np.empty(space.shape, dtype=object)
    for k, idx in enumerate(_np.ndindex(*space.shape)):
        a[idx] = entries[k]
    return NElem(space, NA(a, space.dt))


def builders(model):
    """name -> (build(I) -> functional, designated entries, kind)."""
    def inst(I, cls, *a, **k):
        return I.instantiate(model.get(cls), list(a), k)
    X = spaces()
    sig, gam = S('sig'), S('gam')
    B = {}
    gen = [S('e0'), -S('e1'), 2 * S('e2'), -3 * S('e3')]
    for w in (None, 'const', 'array'):
        t = {None: 'unweighted', 'const': 'weight w',
             'array': 'weights w0..w3'}[w]
        B['L2NormSquared[%s]' % t] = (
            lambda I, w=w: inst(I, 'L2NormSquared', X(w)), gen, 'smooth')
        # soft thresholding: entries on both sides of the threshold sigma
        l1pt = [2 * sig, -3 * sig, sig / 2, -sig / 3]
        B['L1Norm[%s]' % t] = (
            lambda I, w=w: inst(I, 'L1Norm', X(w)), l1pt, 'smooth')
        hub = [2 * (sig + gam), -3 * (sig + gam), (sig + gam) / 2,
               -(sig + gam) / 3]
        B['Huber[gamma,%s]' % t] = (
            lambda I, w=w: inst(I, 'Huber', X(w), gam), hub, 'smooth')
        B['Huber[gamma=0,%s]' % t] = (
            lambda I, w=w: inst(I, 'Huber', X(w), 0), l1pt, 'smooth')
        pos = [S('e0'), 2 * S('e1'), S('e2') + S('e3'), S('e3')]
        B['KullbackLeibler[%s]' % t] = (
            lambda I, w=w: inst(I, 'KullbackLeibler', X(w)), pos, 'smooth')
        B['KullbackLeibler[prior g,%s]' % t] = (
            lambda I, w=w: inst(I, 'KullbackLeibler', X(w), prior=point(
                X(w), [S('e4'), S('e5'), S('e4') + S('e5'), 2 * S('e4')])),
            pos, 'smooth, no rays')    # rays: expression swell (20 s)
        B['ZeroFunctional[%s]' % t] = (
            lambda I, w=w: inst(I, 'ZeroFunctional', X(w)), gen, 'smooth')
        B['ConstantFunctional[%s]' % t] = (
            lambda I, w=w: inst(I, 'ConstantFunctional', X(w), S('c')), gen,
            'smooth')
        # projections: normal-cone conditions of the set
        lo, dd = S('l'), S('dd')
        B['IndicatorBox[l, l+d,%s]' % t] = (
            lambda I, w=w: inst(I, 'IndicatorBox', X(w), lo, lo + dd),
            [lo - S('e0'), lo + dd + S('e1'), lo + dd / 2, lo],
            ('clip', lo, lo + dd))
        B['IndicatorNonnegativity[%s]' % t] = (
            lambda I, w=w: inst(I, 'IndicatorNonnegativity', X(w)),
            [S('e0'), -S('e1'), Rat.const(0), 2 * S('e2')],
            ('clip', Rat.const(0), None))
        B['IndicatorZero[%s]' % t] = (
            lambda I, w=w: inst(I, 'IndicatorZero', X(w)), gen,
            ('clip', Rat.const(0), Rat.const(0)))
    for w in (None, 'const'):
        t = {None: 'unweighted', 'const': 'weight w'}[w]
        B['IndicatorSumConstraint[shape 2x2,%s]' % t] = (
            lambda I, w=w: inst(I, 'IndicatorSumConstraint', NSpace(
                (2, 2), 'float64', None if w is None else S('w')),
                sum_rtol=0), gen,
            ('sum', Rat.const(1)))
        B['IndicatorSumConstraint[shape 4,%s]' % t] = (
            lambda I, w=w: inst(I, 'IndicatorSumConstraint', X(w),
                                sum_rtol=0), gen,
            ('sum', Rat.const(1)))
    B['IndicatorSumConstraint[product space 2 x 2]'] = (
        lambda I: inst(I, 'IndicatorSumConstraint', NPSpace(
            [NSpace((2,), 'float64'), NSpace((2,), 'float64')]),
            sum_rtol=0), gen,
        ('sum', Rat.const(1)))
    # group norm on a power space whose weights are squares r_i^2 of
    # positive symbols, at points whose pointwise norms are 5 sigma and
    # 3 sigma (both well beyond the threshold)
    r0, r1 = S('r0'), S('r1')
    for wt, t in ((None, 'pspace'), ([r0 * r0, r1 * r1],
                                     'pspace weights r0^2, r1^2'),
                  ([Rat.const(4), Rat.const(9)], 'pspace weights 4, 9')):
        a0 = Rat.const(1) if wt is None else (r0 if t.endswith('2') else 2)
        a1 = Rat.const(1) if wt is None else (r1 if t.endswith('2') else 3)
        B['GroupL1Norm[%s]' % t] = (
            lambda I, wt=wt: inst(I, 'GroupL1Norm', NPSpace(
                [NSpace((2,), 'float64', S('w')),
                 NSpace((2,), 'float64', S('w'))], wt)),
            [3 * sig / a0, 3 * sig / a0, 4 * sig / a1, Rat.const(0)],
            'smooth')
    B.update(ray_builders(model, inst, X))
    B['IndicatorSumConstraint[product space 1 + 3]'] = (
        lambda I: inst(I, 'IndicatorSumConstraint', NPSpace(
            [NSpace((1,), 'float64'), NSpace((3,), 'float64')]),
            sum_rtol=0), gen,
        ('sum', Rat.const(1)))
    return B


def ray_builders(model, inst, X):
    """Instances decided by the directional condition only (kind 'ray')."""
    sig, r0 = S('sig'), S('r0')
    B = {}
    for w, t, a in ((None, 'unweighted', Rat.const(1)),
                    (r0 * r0, 'weight r0^2', r0)):
        def sp(w=w, n=4):
            return NSpace((n,), 'float64', w)
        out = [3 * sig / a, -4 * sig / a, Rat.const(0), Rat.const(0)]
        ins = [sig / (4 * a), -sig / (4 * a), sig / (4 * a), sig / (4 * a)]
        B['L2Norm[%s, ||x|| = 5 sigma]' % t] = (
            lambda I, sp=sp: inst(I, 'L2Norm', sp()), out, 'ray')
        B['L2Norm[%s, ||x|| = sigma / 2]' % t] = (
            lambda I, sp=sp: inst(I, 'L2Norm', sp()), ins, 'ray')
    for w, t in ((None, 'unweighted'), (Rat.const(2), 'weight 2'),
                 (Rat.const(1) / 2, 'weight 1/2')):
        def sp(w=w, n=4):
            return NSpace((n,), 'float64', w)
        # sup norm: the two largest entries are cut to a common level
        B['LpNorm[p=inf,%s]' % t] = (
            lambda I, sp=sp: inst(I, 'LpNorm', sp(), Opaque('np.inf')),
            [5 * sig, -4 * sig, sig, Rat.const(0)], 'ray')
        B['IndicatorLpUnitBall[p=1,%s]' % t] = (
            lambda I, sp=sp: inst(I, 'IndicatorLpUnitBall', sp(), 1),
            [Rat.const(2), Rat.const(-1), Rat.const(1) / 4, Rat.const(0)],
            'ray')
        B['IndicatorLpUnitBall[p=2,%s]' % t] = (
            lambda I, sp=sp: inst(I, 'IndicatorLpUnitBall', sp(), 2),
            [Rat.const(3), Rat.const(-4), Rat.const(0), Rat.const(0)],
            'ray')
        B['IndicatorLpUnitBall[p=inf,%s]' % t] = (
            lambda I, sp=sp: inst(I, 'IndicatorLpUnitBall', sp(),
                                  Opaque('np.inf')),
            [Rat.const(3), Rat.const(-4), Rat.const(1) / 2, Rat.const(0)],
            'ray')
        B['IndicatorSimplex[%s]' % t] = (
            lambda I, sp=sp: inst(I, 'IndicatorSimplex', sp(), sum_rtol=0),
            [Rat.const(2), Rat.const(1), Rat.const(-1), Rat.const(1) / 2],
            'ray')
    # per-entry (array) weights 1, 4, 9, 16
    def spa():
        return NSpace((4,), 'float64', NA(objarr(
            [Rat.const(c) for c in (1, 4, 9, 16)]), 'float64'))
    aw = 'weights 1, 4, 9, 16'
    B['L2Norm[%s]' % aw] = (
        lambda I: inst(I, 'L2Norm', spa()),
        [3 * sig, 2 * sig, Rat.const(0), Rat.const(0)], 'ray')
    B['LpNorm[p=inf,%s]' % aw] = (
        lambda I: inst(I, 'LpNorm', spa(), Opaque('np.inf')),
        [sig, 5 * sig, -9 * sig / 2, Rat.const(0)], 'ray')
    B['IndicatorLpUnitBall[p=1,%s]' % aw] = (
        lambda I: inst(I, 'IndicatorLpUnitBall', spa(), 1),
        [Rat.const(0), Rat.const(2), Rat.const(-1), Rat.const(1) / 4],
        'ray')
    B['IndicatorLpUnitBall[p=2,%s]' % aw] = (
        lambda I: inst(I, 'IndicatorLpUnitBall', spa(), 2),
        [Rat.const(3), Rat.const(2), Rat.const(0), Rat.const(0)], 'ray')
    B['IndicatorLpUnitBall[p=inf,%s]' % aw] = (
        lambda I: inst(I, 'IndicatorLpUnitBall', spa(), Opaque('np.inf')),
        [Rat.const(3), Rat.const(-4), Rat.const(1) / 2, Rat.const(0)],
        'ray')
    B['IndicatorSimplex[%s]' % aw] = (
        lambda I: inst(I, 'IndicatorSimplex', spa(), sum_rtol=0),
        [Rat.const(2), Rat.const(1), Rat.const(-1), Rat.const(1) / 2],
        'ray')
    # product spaces of two components with two points each; entries in
    # the order (component 0: points 0, 1; component 1: points 0, 1)
    for wt, t in ((None, 'pspace'), ([Rat.const(4), Rat.const(9)],
                                     'pspace weights 4, 9')):
        def ps(wt=wt, w=None):
            return NPSpace([NSpace((2,), 'float64', w),
                            NSpace((2,), 'float64', w)], wt)
        a0, a1 = (1, 1) if wt is None else (2, 3)
        one = Rat.const(1)
        # point 0 has pointwise norm 5 (projected), point 1 norm 1/2 (kept)
        B['IndicatorGroupL1UnitBall[p=2,%s]' % t] = (
            lambda I, ps=ps: inst(I, 'IndicatorGroupL1UnitBall', ps()),
            [3 * one / a0, one / (4 * a0), 4 * one / a1, Rat.const(0)],
            'ray')
        B['IndicatorGroupL1UnitBall[p=inf,%s]' % t] = (
            lambda I, ps=ps: inst(I, 'IndicatorGroupL1UnitBall', ps(),
                                  Opaque('np.inf')),
            [3 * one, one / 4, -4 * one, one / 2], 'ray')
        # group norm with one point below the threshold (mapped to zero)
        B['GroupL1Norm[%s, one group below sigma]' % t] = (
            lambda I, ps=ps: inst(I, 'GroupL1Norm', ps()),
            [3 * sig / a0, sig / (4 * a0), 4 * sig / a1, sig / (4 * a1)],
            'ray')
        gam = S('gam')
        B['Huber[%s]' % t] = (
            lambda I, ps=ps: inst(I, 'Huber', ps(), gam),
            [3 * (sig + gam) / a0, (sig + gam) / (4 * a0),
             4 * (sig + gam) / a1, Rat.const(0)], 'ray')
        # gamma tied to sigma: every threshold is decided
        B['Huber[%s, gamma = sigma / 2]' % t] = (
            lambda I, ps=ps: inst(I, 'Huber', ps(), sig / 2),
            [3 * sig / a0, sig / (4 * a0), 4 * sig / a1, sig / a1], 'ray')
        # no smoothing: the isotropic group norm (vector soft thresholding)
        B['Huber[%s, gamma = 0]' % t] = (
            lambda I, ps=ps: inst(I, 'Huber', ps(), 0),
            [3 * sig / a0, sig / (4 * a0), 4 * sig / a1, sig / (4 * a1)],
            'ray')
    for w, t in ((None, 'unweighted'), (Rat.const(2), 'weight 2')):
        def sp(w=w, n=4):
            return NSpace((n,), 'float64', w)
        pos = [S('e0'), 2 * S('e1'), -S('e2'), Rat.const(0)]
        B['KullbackLeibler.convex_conj[%s]' % t] = (
            lambda I, sp=sp: I.getattr_value(inst(
                I, 'KullbackLeibler', sp()), 'convex_conj'),
            [-S('e0'), -2 * S('e1'), Rat.const(1) / 2, Rat.const(0)], 'ray')
        # empty bins: a prior with exact zeros; where the prior vanishes the
        # conjugate is the indicator of {y <= 1} and its proximal the
        # identity below one
        B['KullbackLeibler.convex_conj[prior with zeros,%s]' % t] = (
            lambda I, sp=sp: I.getattr_value(inst(
                I, 'KullbackLeibler', sp(), prior=point(sp(), [
                    Rat.const(0), S('e4'), Rat.const(0), 2 * S('e4')])),
                'convex_conj'),
            [Rat.const(1) / 2, -S('e0'), Rat.const(-1), Rat.const(0)], 'ray')
        B['L1Norm.convex_conj[%s]' % t] = (
            lambda I, sp=sp: I.getattr_value(inst(
                I, 'L1Norm', sp()), 'convex_conj'),
            [Rat.const(3), Rat.const(-2), Rat.const(1) / 2, Rat.const(0)],
            'ray')
        B['L2Norm.convex_conj[%s]' % t] = (
            lambda I, sp=sp: I.getattr_value(inst(
                I, 'L2Norm', sp()), 'convex_conj'),
            [Rat.const(3), Rat.const(-4), Rat.const(0), Rat.const(0)],
            'ray')
        B['L2NormSquared.convex_conj[%s]' % t] = (
            lambda I, sp=sp: I.getattr_value(inst(
                I, 'L2NormSquared', sp()), 'convex_conj'),
            [S('e0'), -S('e1'), 2 * S('e2'), Rat.const(0)], 'ray')
    # matrix-valued functions: 2 x 2 matrices in one point, diagonal with
    # decided order of the singular values (the SVD model of `H7`)
    def mat(n=1):
        col = NPSpace([NSpace((n,), 'float64'), NSpace((n,), 'float64')])
        return NPSpace([col, NPSpace([NSpace((n,), 'float64'),
                                      NSpace((n,), 'float64')])])
    zero = Rat.const(0)
    for e, et in ((1, '1'), (2, '2'), (Opaque('np.inf'), 'inf')):
        for pt, pn in (([4 * sig, zero, zero, 3 * sig],
                        'diag(4 sigma, 3 sigma)'),
                       ([2 * sig / 5, zero, zero, 3 * sig / 10],
                        'diag(2 sigma / 5, 3 sigma / 10)'),
                       ([4 * sig, zero, zero, sig / 2],
                        'diag(4 sigma, sigma / 2)'),
                       ([4 * sig, zero, zero, zero], 'rank one'),
                       # Q1 diag(4 sigma, 3 sigma) Q2^T with the rational
                       # rotations Q1 = [[3, -4], [4, 3]] / 5 and
                       # Q2 = [[5, -12], [12, 5]] / 13
                       ([sig * Rat.const(a) / 65 for a in
                         (204, 84, -28, 237)], 'rotated diag(4 sigma, '
                        '3 sigma)')):
            if et == '2' and pn == 'diag(4 sigma, sigma / 2)':
                continue          # irrational norm of the singular values
            B['NuclearNorm[singular exp %s, %s]' % (et, pn)] = (
                lambda I, e=e: inst(I, 'NuclearNorm', mat(), 1, e), pt,
                'ray')
    # ---- derived functionals (calculus rules on concrete functionals) ----
    def pair(I, f, factory, sigmas=None, sigma_elem=None, sigma_num=None):
        return Rec('proxpair', f=f, proximal=factory, sigmas=sigmas,
                   sigma_elem=sigma_elem, sigma_num=sigma_num,
                   domain=I.getattr_value(f, 'domain'))

    def fn(I, name):
        return Func(model.ctx.func(PROXMOD, name), I.env_of(PROXMOD),
                    None)
    for w, t in ((None, 'unweighted'), (Rat.const(4), 'weight 4')):
        def sp(w=w, n=4):
            return NSpace((n,), 'float64', w)
        g = [sig, -sig, 2 * sig, Rat.const(0)]
        xg = [4 * sig, -sig / 2, 2 * sig, -3 * sig]
        B['L1Norm.translated(g)[%s]' % t] = (
            lambda I, sp=sp: I.call(I.getattr_value(inst(
                I, 'L1Norm', sp()), 'translated'), [point(sp(), g)], {}),
            xg, 'ray')
        B['3 * L1Norm[%s]' % t] = (
            lambda I, sp=sp: I.binop(ast.Mult, 3, inst(I, 'L1Norm', sp())),
            [5 * sig, -4 * sig, 2 * sig, Rat.const(0)], 'ray')
        B['L1Norm * 2[%s]' % t] = (
            lambda I, sp=sp: I.binop(ast.Mult, inst(I, 'L1Norm', sp()), 2),
            [5 * sig, -sig / 4, sig, Rat.const(0)], 'ray')
        B['L1Norm + 5[%s]' % t] = (
            lambda I, sp=sp: I.binop(ast.Add, inst(I, 'L1Norm', sp()), 5),
            [5 * sig, -sig / 4, sig, Rat.const(0)], 'ray')
        B['L2Norm.translated(g) * 2[%s]' % t] = (
            lambda I, sp=sp: I.binop(ast.Mult, I.call(I.getattr_value(inst(
                I, 'L2Norm', sp()), 'translated'), [point(sp(), g)], {}), 2),
            [7 * sig / 2, 7 * sig / 2, sig, Rat.const(0)], 'ray')
        B['FunctionalQuadraticPerturb(L1Norm, 1/(2 sigma), u)[%s]' % t] = (
            lambda I, sp=sp: inst(
                I, 'FunctionalQuadraticPerturb', inst(I, 'L1Norm', sp()),
                quadratic_coeff=1 / (2 * sig),
                linear_term=point(sp(), [Rat.const(1), Rat.const(-1),
                                         Rat.const(0), Rat.const(2)])),
            [5 * sig, -4 * sig, sig / 8, 2 * sig], 'ray')
        # a perturbation of a perturbation (same total as above)
        B['FunctionalQuadraticPerturb(FunctionalQuadraticPerturb(L1Norm))'
          '[%s]' % t] = (
            lambda I, sp=sp: inst(
                I, 'FunctionalQuadraticPerturb', inst(
                    I, 'FunctionalQuadraticPerturb', inst(I, 'L1Norm', sp()),
                    quadratic_coeff=1 / (4 * sig),
                    linear_term=point(sp(), [Rat.const(1), Rat.const(0),
                                             Rat.const(0), Rat.const(1)])),
                quadratic_coeff=1 / (4 * sig),
                linear_term=point(sp(), [Rat.const(0), Rat.const(-1),
                                         Rat.const(0), Rat.const(1)])),
            [5 * sig, -4 * sig, sig / 8, 2 * sig], 'ray')
        B['BregmanDistance(L2NormSquared, y)[%s]' % t] = (
            lambda I, sp=sp: (lambda f: inst(
                I, 'BregmanDistance', f, point(sp(), g),
                I.call(I.getattr_value(f, 'gradient'), [point(sp(), g)],
                       {})))(inst(I, 'L2NormSquared', sp())),
            [S('e0'), -S('e1'), 2 * S('e2'), Rat.const(0)], 'ray')
        # the factories with their parameters lam and g, against the
        # functional they are documented for
        lam = Rat.const(3) / 2

        def dist(I, cls, sp=sp):
            return I.binop(ast.Mult, lam, I.call(I.getattr_value(inst(
                I, cls, sp()), 'translated'), [point(sp(), g)], {}))
        B['proximal_l1(lam, g)[%s]' % t] = (
            lambda I, sp=sp, dist=dist: pair(I, dist(I, 'L1Norm'), I.call(
                fn(I, 'proximal_l1'), [sp()], {'lam': lam,
                                               'g': point(sp(), g)})),
            [4 * sig, -sig / 2, 2 * sig, -3 * sig], 'ray')
        B['proximal_l2(lam, g)[%s, far]' % t] = (
            lambda I, sp=sp, dist=dist: pair(I, dist(I, 'L2Norm'), I.call(
                fn(I, 'proximal_l2'), [sp()], {'lam': lam,
                                               'g': point(sp(), g)})),
            [sig + 6 * sig, -sig + 8 * sig, 2 * sig, Rat.const(0)], 'ray')
        B['proximal_l2(lam, g)[%s, near]' % t] = (
            lambda I, sp=sp, dist=dist: pair(I, dist(I, 'L2Norm'), I.call(
                fn(I, 'proximal_l2'), [sp()], {'lam': lam,
                                               'g': point(sp(), g)})),
            [sig + sig / 10, -sig, 2 * sig, Rat.const(0)], 'ray')
        # the conjugate factories with a data term: the proximal of the
        # conjugate of lam * ||. - g|| projects y - sigma * g (not y - g);
        # numeric step sigma = 2 so that every region test compares numbers
        g2 = [Rat.const(1), Rat.const(-1), Rat.const(2), Rat.const(0)]
        sig2 = Rat.const(2)

        def cdist(I, cls, sp=sp, g2=g2):
            return I.getattr_value(I.binop(ast.Mult, lam, I.call(
                I.getattr_value(inst(I, cls, sp()), 'translated'),
                [point(sp(), g2)], {})), 'convex_conj')
        for nm_, z in (('far', [Rat.const(3), Rat.const(4), Rat.const(0),
                               Rat.const(0)]),
                       ('near', [Rat.const(3) / 10, Rat.const(2) / 5,
                                 Rat.const(0), Rat.const(0)])):
            B['proximal_convex_conj_l2(lam, g)[%s, %s, sigma = 2]' % (
                t, nm_)] = (
                lambda I, sp=sp, cdist=cdist, g2=g2: pair(
                    I, cdist(I, 'L2Norm'), I.call(
                        fn(I, 'proximal_convex_conj_l2'), [sp()],
                        {'lam': lam, 'g': point(sp(), g2)}),
                    sigma_num=Rat.const(2)),
                [a + Rat.const(2) * b for a, b in zip(z, g2)], 'ray')
        B['proximal_l2_squared(lam, g)[%s]' % t] = (
            lambda I, sp=sp, dist=dist: pair(
                I, dist(I, 'L2NormSquared'), I.call(
                    fn(I, 'proximal_l2_squared'), [sp()],
                    {'lam': lam, 'g': point(sp(), g)})),
            [S('e0'), -S('e1'), 2 * S('e2'), Rat.const(0)], 'ray')
    # ---- one step per point (sigma an element of the space), with and
    # without the data term g, for the factories that document it ----------
    for w, t in ((None, 'unweighted'), (Rat.const(4), 'weight 4')):
        def sp(w=w, n=4):
            return NSpace((n,), 'float64', w)
        lam = Rat.const(3) / 2
        g = [sig, -sig, 2 * sig, Rat.const(0)]
        steps = [sig, 2 * sig, sig / 2, 3 * sig]
        for gt, gv in (('g', g), ('no g', None)):
            def kw(sp=sp, gv=gv):
                return {'lam': lam} if gv is None else {
                    'lam': lam, 'g': point(sp(), gv)}

            def base(I, cls, sp=sp, gv=gv):
                f0 = inst(I, cls, sp())
                if gv is not None:
                    f0 = I.call(I.getattr_value(f0, 'translated'),
                                [point(sp(), gv)], {})
                return I.binop(ast.Mult, lam, f0)

            def lin(I, sp=sp, gv=gv):
                return inst(I, 'QuadraticForm', vector=point(sp(), gv))
            B['proximal_l2_squared(lam, %s)[%s, step per point]' % (gt, t)] \
                = (lambda I, sp=sp, kw=kw, base=base: pair(
                    I, base(I, 'L2NormSquared'), I.call(
                        fn(I, 'proximal_l2_squared'), [sp()], kw()),
                    sigma_elem=steps),
                   [S('e0'), -S('e1'), 2 * S('e2'), Rat.const(0)], 'ray')
            B['proximal_l1(lam, %s)[%s, step per point]' % (gt, t)] = (
                lambda I, sp=sp, kw=kw, base=base: pair(
                    I, base(I, 'L1Norm'), I.call(
                        fn(I, 'proximal_l1'), [sp()], kw()),
                    sigma_elem=steps),
                [4 * sig, -sig / 2, 2 * sig, -9 * sig], 'ray')
            # conjugates: (lam ||. - g||^2)* = ||.||^2 / (4 lam) + <., g>,
            # (lam ||. - g||_1)* = indicator(|y_i| <= lam) + <., g>
            def conj2(I, sp=sp, gv=gv, lin=lin):
                f0 = I.binop(ast.Mult, 1 / (4 * lam),
                             inst(I, 'L2NormSquared', sp()))
                return f0 if gv is None else I.binop(ast.Add, f0, lin(I))

            def conj1(I, sp=sp, gv=gv, lin=lin):
                f0 = inst(I, 'IndicatorBox', sp(), -lam, lam)
                return f0 if gv is None else I.binop(ast.Add, f0, lin(I))
            B['proximal_convex_conj_l2_squared(lam, %s)[%s, step per '
              'point]' % (gt, t)] = (
                lambda I, sp=sp, kw=kw, conj2=conj2: pair(
                    I, conj2(I), I.call(
                        fn(I, 'proximal_convex_conj_l2_squared'), [sp()],
                        kw()), sigma_elem=steps),
                [S('e0'), -S('e1'), 2 * S('e2'), Rat.const(0)], 'ray')
            if gv is not None:
                continue      # a threshold sigma^2 vs lam is not decidable
            B['proximal_convex_conj_l1(lam, %s)[%s, step per point]'
              % (gt, t)] = (
                lambda I, sp=sp, kw=kw, conj1=conj1: pair(
                    I, conj1(I), I.call(
                        fn(I, 'proximal_convex_conj_l1'), [sp()], kw()),
                    sigma_elem=steps),
                ([sig * sig + 4, -2 * sig * sig - Rat.const(1) / 2,
                  sig * sig - 3, Rat.const(1)] if gv is not None else
                 [Rat.const(4), Rat.const(-1) / 2, Rat.const(-3),
                  Rat.const(1)]), 'ray')
    # separable sum on a product space, scalar step and one step per part
    def two():
        return NSpace((2,), 'float64', Rat.const(2))

    def sepsum(I):
        return inst(I, 'SeparableSum', inst(I, 'L1Norm', two()),
                    inst(I, 'L2NormSquared', two()))
    B['SeparableSum(L1Norm, L2NormSquared)'] = (
        sepsum, [3 * sig, -sig / 2, S('e0'), -S('e1')], 'ray')
    B['SeparableSum(L1Norm, L2NormSquared)[steps sigma, 2 sigma]'] = (
        lambda I: (lambda f: pair(I, f, I.getattr_value(f, 'proximal'),
                                  sigmas=[sig, 2 * sig]))(sepsum(I)),
        [3 * sig, -sig / 2, S('e0'), -S('e1')], 'ray')
    # left scaling by an integer and by a fraction, one step per part
    for c, ct in ((Rat.const(2), '2'), (Rat.const(3) / 2, '3/2')):
        B['expr:%s * SeparableSum(L1Norm, L2NormSquared)[steps sigma, 2 sigma]'
          % ct] = (
            lambda I, c=c: (lambda f: pair(
                I, f, I.getattr_value(f, 'proximal'),
                sigmas=[sig, 2 * sig]))(I.binop(ast.Mult, c, sepsum(I))),
            [3 * sig * c, -sig / 2, S('e0'), -S('e1')], 'ray')
    for e, et in ((1, '1'), (2, '2'), (Opaque('np.inf'), 'inf')):
        B['IndicatorNuclearNormUnitBall[singular exp %s]' % et] = (
            lambda I, e=e: inst(I, 'IndicatorNuclearNormUnitBall', mat(),
                                Opaque('np.inf'), e),
            [Rat.const(4), zero, zero, Rat.const(3)], 'ray')
    return B


def run_projection(model, build, entries, kind):
    H = H7()
    I = I7(model, {}, H)
    f = build(I)
    dom = I.getattr_value(f, 'domain')
    sig = S('sig')
    prox = I.call(I.getattr_value(f, 'proximal'), [sig], {})

    def mk(space, it):
        if isinstance(space, NPSpace):
            return NPElem(space, [mk(p_, it) for p_ in space.parts])
        a = _np.empty(space.shape, dtype=object)
        for idx in _np.ndindex(*space.shape):
            a[idx] = next(it)
        return NElem(space, NA(a, space.dt))
    x = mk(dom, iter(entries))
    p = I.call(prox, [x], {})
    if isinstance(p, NA):
        p = H.element(I, dom, p)
    ps = flat(p)
    xs = [PA.ired(to_rat(v)) for v in entries]
    ws = entry_weights(dom)
    probs = []
    if len(ps) != len(xs):
        return ['result has %d entries' % len(ps)], ps, None
    if kind[0] == 'clip':
        lo, hi = kind[1], kind[2]
        for j, (xv, pv) in enumerate(zip(xs, ps)):
            want = xv
            if lo is not None and PA.rat_sign(PA.reduce_full(lo - xv),
                                              H.signs) == 1:
                want = lo
            if hi is not None and PA.rat_sign(PA.reduce_full(xv - hi),
                                              H.signs) == 1:
                want = hi
            if not PA.same(pv, want, WIT):
                probs.append('entry %d: x = %s is mapped to %s, the nearest '
                             'point of the interval is %s'
                             % (j, _s(xv), _s(pv), _s(want)))
    elif kind[0] == 'sum':
        tot = Rat.const(0)
        for pv in ps:
            tot = tot + pv
        if not PA.same(tot, kind[1], WIT):
            probs.append('the entries of the result sum to %s, the '
                         'constraint value is %s' % (_s(PA.reduce_full(tot)),
                                                     _s(kind[1])))
        base = ws[0] * (xs[0] - ps[0])
        for j in range(1, len(ps)):
            if not PA.same(ws[j] * (xs[j] - ps[j]), base, WIT):
                probs.append('x - p is not normal to the constraint plane '
                             'in the space inner product (entries 0 and %d)'
                             % j)
                break
    return probs, ps, None


def partials_at(H, I, f, dom, ps):
    """[d f / d y_j (p)] with f's own value evaluated at y = p + t and
    differentiated symbolically; kinks give free symbols `sfree<k>`."""
    ts = ['t%d' % j for j in range(len(ps))]
    H.infinitesimal = set(ts)
    it = iter([pj + S(t) for pj, t in zip(ps, ts)])

    def mk(space):
        if isinstance(space, NPSpace):
            return NPElem(space, [mk(q) for q in space.parts])
        a = _np.empty(space.shape, dtype=object)
        for idx in _np.ndindex(*space.shape):
            a[idx] = next(it)
        return NElem(space, NA(a, space.dt))
    fy = PA.ired(to_rat(I.call(f, [mk(dom)], {})))
    zero = {t: Rat.const(0) for t in ts}
    out = []
    H.nfree = 0
    for t in ts:
        G = mdiff.diff(fy, t, sgn=True)
        out.append(PA.reduce_full(mdiff.deep_subs(G, zero, H.rebuild)))
    H.infinitesimal = set()
    return out, fy


def run_one(model, build, entries):
    H = H7()
    I = I7(model, {}, H)
    f = build(I)
    dom = I.getattr_value(f, 'domain')
    x = mk_point(dom, entries)
    sig = S('sig')
    prox = I.call(I.getattr_value(f, 'proximal'), [sig], {})
    p = I.call(prox, [mk_point(dom, entries)], {})
    if isinstance(p, NA):
        p = H.element(I, dom, p)
    ps = flat(p)
    xs = [PA.ired(to_rat(v)) for v in entries]
    ws = entry_weights(dom)
    Gs, fy = partials_at(H, I, f, dom, ps)
    probs = []
    for j, G0 in enumerate(Gs):
        lhs = ws[j] * (xs[j] - ps[j])
        E = PA.reduce_full(lhs - sig * G0)
        free = [v for v in E.vars() if isinstance(v, str)
                and v.startswith('sfree')]
        if not free:
            if not PA.same(lhs, sig * G0, WIT):
                probs.append('entry %d: p = %s, but w (x - p) / sigma = %s '
                             'while df/dy(p) = %s' % (j, _s(ps[j]),
                                                      _s(lhs / sig), _s(G0)))
            continue
        if len(free) != 1:
            raise Undecided('several subgradient unknowns in one entry')
        s = free[0]
        B_ = E.diff(s)
        A_ = E.subs({s: Rat.const(0)})
        if B_.is_zero() or mdiff._depends(B_, s):
            raise Undecided('condition not linear in the subgradient')
        sval = PA.reduce_full(-A_ / B_)
        lo = PA.rat_sign(PA.reduce_full(1 + sval), H.signs)
        hi = PA.rat_sign(PA.reduce_full(1 - sval), H.signs)
        if lo is None or hi is None:
            raise Undecided('range of the subgradient %r' % (sval,))
        if lo < 0 or hi < 0:
            probs.append('entry %d: p = %s sits at a kink, the optimality '
                         'condition needs the subgradient %s, outside '
                         '[-1, 1]' % (j, _s(ps[j]), _s(sval)))
    return probs, ps, fy


def directions(xs, ps, coordinate_only=False):
    """The finite family of rays used by the directional condition:
    +-e_j, +-(e_j +- e_k) and +-(x - p)."""
    n = len(ps)
    one, zero = Rat.const(1), Rat.const(0)
    out = []

    def unit(j, s=1):
        return [one * s if i == j else zero for i in range(n)]
    for j in range(n):
        out.append(('+e%d' % j, unit(j)))
        out.append(('-e%d' % j, unit(j, -1)))
    for j in range(n):
        if coordinate_only:
            break
        for k in range(j + 1, n):
            for sj in (1, -1):
                for sk in (1, -1):
                    d = unit(j, sj)
                    d[k] = one * sk
                    out.append(('%se%d%se%d' % ('+-'[sj < 0], j,
                                                '+-'[sk < 0], k), d))
    seg = [PA.reduce_full(x - q) for x, q in zip(xs, ps)]
    if not all(v.is_zero() for v in seg):
        out.append(('x-p', seg))
        out.append(('p-x', [-v for v in seg]))
    return out


def _is_inf(v):
    if isinstance(v, Opaque):
        return 'inf' in v.desc
    if isinstance(v, float):
        return v == float('inf')
    return False


def run_directional(model, build, entries, sigma=None, wit=None,
                    coordinate_only=False):
    """Necessary optimality condition of the proximal problem along rays:
    for every direction d of a finite family the one-sided derivative of
    t -> f(p + t d) + ||p + t d - x||^2 / (2 sigma) at t = 0+ is >= 0 (f's
    own `_call` is evaluated on the ray and expanded by `jets`); f(p) is
    finite.  Returns (problems, p, number of rays)."""
    from ..jets import Jets
    wit = wit or WIT
    H = H7()
    I = I7(model, {}, H)
    f = build(I)
    dom = I.getattr_value(f, 'domain')
    sig = S('sig') if sigma is None else sigma
    sigarg, sigs = sig, None
    factory = I.getattr_value(f, 'proximal')
    if isinstance(f, Rec) and f.kind == 'proxpair':
        # a proximal factory called directly, with the functional it is
        # documented for; optionally one step per component
        if f.attrs.get('sigmas') is not None:
            sigarg = list(f.attrs['sigmas'])
            sigs = []
            for part, sg_ in zip(dom.parts, sigarg):
                sigs += [sg_] * len(entry_weights(part))
        elif f.attrs.get('sigma_elem') is not None:
            # one step per point: sigma is an element of the space
            sigs = list(f.attrs['sigma_elem'])
            sigarg = mk_point(dom, sigs)
        elif f.attrs.get('sigma_num') is not None:
            # a numeric step: every region test is a comparison of numbers
            sig = sigarg = f.attrs['sigma_num']
        f = f.attrs['f']
    prox = I.call(factory, [sigarg], {})
    p = I.call(prox, [mk_point(dom, entries)], {})
    if isinstance(p, NA):
        p = H.element(I, dom, p)
    ps = [PA.reduce_full(v) for v in flat(p)]
    for j, v in enumerate(ps):
        if _poison(v):
            return (['entry %d of the result is not a finite number: %s'
                     % (j, _s(v))], ps, 0)
    xs = [PA.reduce_full(PA.ired(to_rat(v))) for v in entries]
    ws = entry_weights(dom)
    if sigs is not None:
        # sum_i ||z_i - x_i||^2 / (2 sigma_i): fold the steps into the
        # weights, relative to sig
        ws = [w * sig / sj for w, sj in zip(ws, sigs)]
    if len(ps) != len(xs):
        return ['the result has %d entries' % len(ps)], ps, 0
    fp = I.call(f, [mk_point(dom, ps)], {})
    if _is_inf(fp):
        return ['f(p) is infinite at p = %s' % _s([repr(v) for v in ps])], \
            ps, 0
    t = S('t')
    probs = []
    nd = 0
    for label, d in directions(xs, ps, coordinate_only):
        H.infinitesimal = {'t'}
        H.ray = Jets('t', H.signs)
        try:
            fy = I.call(f, [mk_point(dom, [q + t * dj
                                           for q, dj in zip(ps, d)])], {})
            if _is_inf(fy):
                nd += 1
                continue             # the ray leaves the domain of f
            jet = H.ray.jet(PA.ired(to_rat(fy)))
            slope = jet.b
            for j in range(len(ps)):
                slope = slope + ws[j] * (ps[j] - xs[j]) * d[j] / sig
            slope = PA.reduce_full(slope)
            try:
                sg = H.ray.sign(slope, 'the directional derivative')
            except Undecided:
                sg = None
                vals = []
                for env in wit:
                    try:
                        vals.append(PA.num_eval(slope, env))
                    except Undecided:
                        vals = []
                        break
                if vals and any(v < -1e-9 * max(1.0, abs(v)) for v in vals):
                    sg = -1
                elif vals and all(abs(v) < 1e-9 for v in vals) and \
                        PA.same(slope, Rat.const(0), wit):
                    sg = 0
                else:
                    raise
        finally:
            H.infinitesimal = set()
            H.ray = None
        nd += 1
        if sg < 0:
            probs.append('along d = %s the objective f(z) + ||z - x||^2 / '
                         '(2 sigma) decreases from p = %s: one-sided slope '
                         '%s' % (label, _s([repr(v) for v in ps]),
                                 _s(slope)))
            if len(probs) >= 2:
                break
    return probs, ps, nd


def _poison(r):
    if isinstance(r, Opaque):
        return True
    if not isinstance(r, Rat):
        return False
    for v in r.vars():
        if isinstance(v, str) and v.startswith(('uninit', 'garbage', 'nan',
                                                'inf')):
            return True
    return False


def _outcome(fn):
    """Run one evaluation; the interpreter's outcomes as a picklable
    tuple."""
    try:
        return ('ok', fn())
    except (Undecided, Fork) as e:
        return ('undecided', str(e))
    except ZeroDivisionError:
        return ('undecided', 'the result sits at a point where the value '
                'is not differentiable (division by zero in the symbolic '
                'derivative)')
    except NotAnElement as e:
        return ('violation', 'a call yields no element: %s' % e, None)
    except PyRaise as e:
        src = ast.unparse(e.node)[:70] if e.node is not None else '?'
        ln = getattr(e.node, 'lineno', None)
        if e.name == 'ZeroDivisionError':
            return ('violation', 'divides by an entry that is exactly zero '
                    'at `%s` (NumPy yields inf / nan there, the result is '
                    'not finite)' % src, ln)
        return ('violation', 'raises %s at `%s`' % (e.name, src), ln)


_JOB = {}


class _Budget(Exception):
    pass


def _with_budget(fn, seconds):
    """Run fn() under a wall-clock budget (expression swell in a normal form
    must end as UNDECIDED for that instance, not as a check that hangs)."""
    import signal
    import threading
    if threading.current_thread() is not threading.main_thread():
        return fn()

    def _alarm(signum, frame):
        raise _Budget()
    old = signal.signal(signal.SIGALRM, _alarm)
    prev = signal.alarm(seconds)
    try:
        return fn()
    except _Budget:
        return ('undecided', 'the evaluation of this instance exceeded %d s '
                '(expression swell)' % seconds)
    finally:
        signal.alarm(0)
        signal.signal(signal.SIGALRM, old)
        if prev:
            signal.alarm(max(1, prev - seconds))


def _job(name):
    import os
    budget = int(os.environ.get('VERIF_JOB_TIMEOUT', '0') or 0) or 90
    model, B = _JOB['model'], _JOB['builders']
    b, entries, kind = B[name]
    out = {}
    if kind != 'ray':
        def f6():
            probs, ps, fy = (run_projection(model, b, entries, kind)
                             if isinstance(kind, tuple)
                             else run_one(model, b, entries))
            return probs, _s([repr(v) for v in ps])
        out['R6'] = _with_budget(lambda: _outcome(f6), budget)
    if kind != 'smooth, no rays':
        def f6d():
            probs, ps, nd = run_directional(
                model, b, entries, coordinate_only=(kind == 'smooth'))
            return probs, _s([repr(v) for v in ps]), nd
        out['R6d'] = _with_budget(lambda: _outcome(f6d), budget)
    return name, out


def run(rep, model):
    import multiprocessing as mp
    import os
    B = builders(model)
    _JOB['model'], _JOB['builders'] = model, B
    names = list(B)
    import gc
    gc.collect()
    gc.freeze()           # keep the forked workers from touching old pages
    try:
        ctx = mp.get_context('fork')
        with ctx.Pool(min(16, os.cpu_count() or 1)) as pool:
            results = pool.map(_job, names, chunksize=1)
    except (OSError, ValueError):
        results = [_job(nm) for nm in names]
    finally:
        gc.unfreeze()
    n = nray = 0
    for name, out in results:
        b, entries, kind = B[name]
        rel, line = _where(model, name)
        for rule in ('R6', 'R6d'):
            if rule not in out:
                continue
            if rule == 'R6':
                n += 1
            else:
                nray += 1
            o = out[rule]
            if o[0] == 'undecided':
                rep.undecided(rule, name, o[1], rel)
            elif o[0] == 'violation':
                rep.violation(rule, name, o[1], rel, o[2] or line)
            elif o[1][0]:
                rep.violation(rule, name, '; '.join(o[1][0][:2]), rel, line)
            elif rule == 'R6':
                rep.holds('R6', name, '%s at the designated point; p = %s'
                          % ('normal-cone condition of the set'
                             if isinstance(kind, tuple) else
                             'first-order optimality of the proximal '
                             'problem', o[1][1]))
            else:
                rep.holds('R6d', name, 'f(p) finite and no descent along '
                          '%d rays from p = %s' % (o[1][2], o[1][1]))
    rep.floor('R6', 'evaluated proximal instances', n, 20)
    rep.floor('R6d', 'instances of the directional condition', nray, 80)
