"""C07, evaluated tier: concrete functionals are instantiated on weighted
model spaces, their proximal operator is applied to a designated point x
whose entries are explicit positive combinations of the parameters (so that
every region test of a piecewise formula is decided by the signs of positive
symbols), and the result p is checked against the *first-order optimality
condition of the proximal problem*

        w_j (x_j - p_j) / sigma   in   d f / d y_j (p)          for every j

where f is the functional's own value (`_call`), evaluated at y = p + t with
infinitesimal symbols t and differentiated symbolically.  At a kink of an
absolute value (p_j = 0) the derivative is the unknown s_j in [-1, 1]; the
condition is solved for s_j and the interval is decided by sign analysis.
Indicator functionals use the normal-cone condition of their set."""
from __future__ import annotations

import ast

import numpy as _np

from ..core import Undecided, AnalysisError
from ..forks import Fork
from ..ratfun import Rat, SAtom, satom
from ..symex import (Inst, Func, Builtin, Rec, PyRaise, ModuleV, Opaque,
                     is_scalar, to_rat)
from ..namodel import NA, DT, objarr, na_of
from ..spacemodel import NotAnElement
from ..spacemodel import (SMHooks, SMInterp, NSpace, NPSpace, NField, NElem,
                          NPElem, sym_elem, inner, flat)
from .. import posalg as PA
from .. import mdiff
from ..posalg import Signs
from .c05b import witness, _where
from .c09b import H9, entry_weights, _s

WIT = [witness(55), witness(56)]
POS = {'sig', 'gam', 'lam', 'r0', 'r1', 'e0', 'e1', 'e2', 'e3', 'e4', 'e5', 'dd', 'w',
       'w0', 'w1', 'w2', 'w3', 'w4', 'w5', 'p0', 'p1', 'q'}


class H7(H9):
    def __init__(self):
        H9.__init__(self)
        self.signs = Signs(set(POS))
        self.infinitesimal = set()

    def at_point(self, r):
        """The expression at t = 0 (decisions near the point p)."""
        if not self.infinitesimal:
            return r
        m = {t: Rat.const(0) for t in self.infinitesimal
             if mdiff._depends(r, t)}
        if not m:
            return r
        return mdiff.deep_subs(r, m, self.rebuild)

    def rebuild(self, kind, arg, atom):
        if kind == 'abs':
            return PA.abs_nf(arg, self.signs)
        if kind == 'sqrt':
            return PA.root(arg, 2, self.signs)
        if kind == 'root':
            return PA.root(arg, atom[2], self.signs)
        if kind == 'sgn':
            return self.sgn(arg)
        if kind == 'log':
            return PA.log_nf(arg, self.signs)
        if kind == 'exp':
            return PA.exp_nf(arg, self.signs)
        return Rat.var(satom(kind, arg, *atom[2:]))

    def atom1(self, name):
        if name == 'log':
            return lambda x: PA.log_nf(to_rat(x), self.signs)
        if name == 'exp':
            return lambda x: PA.exp_nf(to_rat(x), self.signs)
        if name in ('isfinite', 'isnan', 'isinf'):
            def fin(x):
                if isinstance(x, Opaque):
                    return {'isfinite': False, 'isnan': 'nan' in x.desc,
                            'isinf': 'inf' in x.desc}[name]
                return name == 'isfinite'
            return fin
        return H9.atom1(self, name)

    def np_func(self, I, name):
        if name == 'finfo':
            # exact arithmetic: floating-point tolerances are zero
            return lambda *a, **k: Rec('finfo', resolution=Rat.const(0),
                                       eps=Rat.const(0), tiny=Rat.const(0))
        return H9.np_func(self, I, name)

    def sgn(self, arg):
        if arg.is_zero():
            self.nfree = getattr(self, 'nfree', 0) + 1
            return Rat.var('sfree%d' % self.nfree)
        sg = PA.rat_sign(arg, self.signs)
        if sg is None:
            return arg / PA.abs_nf(arg, self.signs)
        return Rat.const(sg)

    def on_decide(self, interp, cond, node):
        k = cond.key.split(':')[0]
        if cond.rat is not None and k in ('Lt', 'LtE', 'Gt', 'GtE', 'eq0'):
            r = PA.reduce_full(self.at_point(cond.rat))
            if r.is_zero():
                if self.infinitesimal and mdiff_depends_any(
                        cond.rat, self.infinitesimal):
                    raise Undecided('the designated point lies on a region '
                                    'boundary: %r' % (cond.rat,))
                return {'Lt': False, 'LtE': True, 'Gt': False, 'GtE': True,
                        'eq0': True}[k]
            sg = PA.rat_sign(r, self.signs)
            if sg is None:
                sg = PA.const_sign(r)
            if sg is None and k == 'eq0':
                return False              # generic parameters
            if sg is None:
                raise Undecided('sign of %r at the designated point' % (r,))
            return {'Lt': sg < 0, 'LtE': sg <= 0, 'Gt': sg > 0,
                    'GtE': sg >= 0, 'eq0': False}[k]
        return H9.on_decide(self, interp, cond, node)

    def maxmin(self, I, name, x, y):
        x, y = to_rat(x), to_rat(y)
        d = PA.reduce_full(self.at_point(x - y))
        if d.is_zero():
            return x
        sg = PA.rat_sign(d, self.signs)
        if sg is None:
            sg = PA.const_sign(d)
        if sg is None:
            raise Undecided('max / min of %r and %r' % (x, y))
        big, small = (x, y) if sg > 0 else (y, x)
        return big if name.startswith('max') else small

    def ufunc_attr(self, I, x, name):
        if name in ('less_equal', 'less', 'greater_equal', 'greater',
                    'equal', 'not_equal'):
            cop = {'less_equal': ast.LtE, 'less': ast.Lt,
                   'greater_equal': ast.GtE, 'greater': ast.Gt,
                   'equal': ast.Eq, 'not_equal': ast.NotEq}[name]()

            def cmp_(other, out=None):
                if out is not None:
                    raise Undecided('comparison ufunc with out')
                o = other.data if isinstance(other, NElem) else other
                r = I.cmp1(cop, x.data, o, None)
                return BoolElem(x.space, r)
            return Builtin('ufuncs.' + name, cmp_)
        return H9.ufunc_attr(self, I, x, name)

    def on_getattr(self, interp, obj, name):
        if isinstance(obj, BoolElem):
            if name == 'ufuncs':
                return Rec('boolufuncs', logical_not=Builtin(
                    'logical_not', lambda out=None: obj.invert(out)))
            if name in ('data', 'asarray'):
                return obj.data if name == 'data' else Builtin(
                    'asarray', lambda: obj.data)
            raise PyRaise('AttributeError')
        if isinstance(obj, Rec) and name in obj.attrs:
            return obj.attrs[name]
        return H9.on_getattr(self, interp, obj, name)

    def on_subscript(self, interp, obj, idx):
        if isinstance(idx, BoolElem):
            idx = idx.data
        return H9.on_subscript(self, interp, obj, idx)


def mdiff_depends_any(r, names):
    return any(mdiff._depends(r, t) for t in names)


class BoolElem(object):
    """A boolean-valued element (result of a comparison ufunc)."""

    def __init__(self, space, data):
        self.space, self.data = space, data

    def invert(self, out=None):
        r = NA(_np.frompyfunc(lambda v: not bool(v), 1, 1)(self.data.a),
               self.data.dt)
        if out is None:
            return BoolElem(self.space, r)
        out.data = r
        return out


class I7(SMInterp):
    def _na_index(self, sl, scope, func):
        r = SMInterp._na_index(self, sl, scope, func)
        return r.data if isinstance(r, BoolElem) else r


# ---------------------------------------------------------------------------
def S(name):
    return Rat.var(name)


def spaces():
    def X(w, n=4):
        if w == 'const':
            wt = S('w')
        elif w is None:
            wt = None
        else:
            wt = NA(objarr([S('w%d' % i) for i in range(n)]), 'float64')
        return NSpace((n,), 'float64', wt)
    return X


def mk_point(dom, entries):
    it = iter(entries)

    def mk(space):
        if isinstance(space, NPSpace):
            return NPElem(space, [mk(p) for p in space.parts])
        a = _np.empty(space.shape, dtype=object)
        for idx in _np.ndindex(*space.shape):
            a[idx] = next(it)
        return NElem(space, NA(a, space.dt))
    return mk(dom)


def point(space, entries):
    a = _np.empty(space.shape, dtype=object)
    for k, idx in enumerate(_np.ndindex(*space.shape)):
        a[idx] = entries[k]
    return NElem(space, NA(a, space.dt))


def builders(model):
    """name -> (build(I) -> functional, designated entries, kind)."""
    def inst(I, cls, *a, **k):
        return I.instantiate(model.get(cls), list(a), k)
    X = spaces()
    sig, gam = S('sig'), S('gam')
    B = {}
    gen = [S('e0'), -S('e1'), 2 * S('e2'), -3 * S('e3')]
    for w in (None, 'const', 'array'):
        t = {None: 'unweighted', 'const': 'weight w',
             'array': 'weights w0..w3'}[w]
        B['L2NormSquared[%s]' % t] = (
            lambda I, w=w: inst(I, 'L2NormSquared', X(w)), gen, 'smooth')
        # soft thresholding: entries on both sides of the threshold sigma
        l1pt = [2 * sig, -3 * sig, sig / 2, -sig / 3]
        B['L1Norm[%s]' % t] = (
            lambda I, w=w: inst(I, 'L1Norm', X(w)), l1pt, 'smooth')
        hub = [2 * (sig + gam), -3 * (sig + gam), (sig + gam) / 2,
               -(sig + gam) / 3]
        B['Huber[gamma,%s]' % t] = (
            lambda I, w=w: inst(I, 'Huber', X(w), gam), hub, 'smooth')
        B['Huber[gamma=0,%s]' % t] = (
            lambda I, w=w: inst(I, 'Huber', X(w), 0), l1pt, 'smooth')
        pos = [S('e0'), 2 * S('e1'), S('e2') + S('e3'), S('e3')]
        B['KullbackLeibler[%s]' % t] = (
            lambda I, w=w: inst(I, 'KullbackLeibler', X(w)), pos, 'smooth')
        B['KullbackLeibler[prior g,%s]' % t] = (
            lambda I, w=w: inst(I, 'KullbackLeibler', X(w), prior=point(
                X(w), [S('e4'), S('e5'), S('e4') + S('e5'), 2 * S('e4')])),
            pos, 'smooth')
        B['ZeroFunctional[%s]' % t] = (
            lambda I, w=w: inst(I, 'ZeroFunctional', X(w)), gen, 'smooth')
        B['ConstantFunctional[%s]' % t] = (
            lambda I, w=w: inst(I, 'ConstantFunctional', X(w), S('c')), gen,
            'smooth')
        # projections: normal-cone conditions of the set
        lo, dd = S('l'), S('dd')
        B['IndicatorBox[l, l+d,%s]' % t] = (
            lambda I, w=w: inst(I, 'IndicatorBox', X(w), lo, lo + dd),
            [lo - S('e0'), lo + dd + S('e1'), lo + dd / 2, lo],
            ('clip', lo, lo + dd))
        B['IndicatorNonnegativity[%s]' % t] = (
            lambda I, w=w: inst(I, 'IndicatorNonnegativity', X(w)),
            [S('e0'), -S('e1'), Rat.const(0), 2 * S('e2')],
            ('clip', Rat.const(0), None))
        B['IndicatorZero[%s]' % t] = (
            lambda I, w=w: inst(I, 'IndicatorZero', X(w)), gen,
            ('clip', Rat.const(0), Rat.const(0)))
    for w in (None, 'const'):
        t = {None: 'unweighted', 'const': 'weight w'}[w]
        B['IndicatorSumConstraint[shape 2x2,%s]' % t] = (
            lambda I, w=w: inst(I, 'IndicatorSumConstraint', NSpace(
                (2, 2), 'float64', None if w is None else S('w'))), gen,
            ('sum', Rat.const(1)))
        B['IndicatorSumConstraint[shape 4,%s]' % t] = (
            lambda I, w=w: inst(I, 'IndicatorSumConstraint', X(w)), gen,
            ('sum', Rat.const(1)))
    B['IndicatorSumConstraint[product space 2 x 2]'] = (
        lambda I: inst(I, 'IndicatorSumConstraint', NPSpace(
            [NSpace((2,), 'float64'), NSpace((2,), 'float64')])), gen,
        ('sum', Rat.const(1)))
    # group norm on a power space whose weights are squares r_i^2 of
    # positive symbols, at points whose pointwise norms are 5 sigma and
    # 3 sigma (both well beyond the threshold)
    r0, r1 = S('r0'), S('r1')
    for wt, t in ((None, 'pspace'), ([r0 * r0, r1 * r1],
                                     'pspace weights r0^2, r1^2'),
                  ([Rat.const(4), Rat.const(9)], 'pspace weights 4, 9')):
        a0 = Rat.const(1) if wt is None else (r0 if t.endswith('2') else 2)
        a1 = Rat.const(1) if wt is None else (r1 if t.endswith('2') else 3)
        B['GroupL1Norm[%s]' % t] = (
            lambda I, wt=wt: inst(I, 'GroupL1Norm', NPSpace(
                [NSpace((2,), 'float64', S('w')),
                 NSpace((2,), 'float64', S('w'))], wt)),
            [3 * sig / a0, 3 * sig / a0, 4 * sig / a1, Rat.const(0)],
            'smooth')
    B['IndicatorSumConstraint[product space 1 + 3]'] = (
        lambda I: inst(I, 'IndicatorSumConstraint', NPSpace(
            [NSpace((1,), 'float64'), NSpace((3,), 'float64')])), gen,
        ('sum', Rat.const(1)))
    return B


def run_projection(model, build, entries, kind):
    H = H7()
    I = I7(model, {}, H)
    f = build(I)
    dom = I.getattr_value(f, 'domain')
    sig = S('sig')
    prox = I.call(I.getattr_value(f, 'proximal'), [sig], {})

    def mk(space, it):
        if isinstance(space, NPSpace):
            return NPElem(space, [mk(p_, it) for p_ in space.parts])
        a = _np.empty(space.shape, dtype=object)
        for idx in _np.ndindex(*space.shape):
            a[idx] = next(it)
        return NElem(space, NA(a, space.dt))
    x = mk(dom, iter(entries))
    p = I.call(prox, [x], {})
    if isinstance(p, NA):
        p = H.element(I, dom, p)
    ps = flat(p)
    xs = [PA.ired(to_rat(v)) for v in entries]
    ws = entry_weights(dom)
    probs = []
    if len(ps) != len(xs):
        return ['result has %d entries' % len(ps)], ps, None
    if kind[0] == 'clip':
        lo, hi = kind[1], kind[2]
        for j, (xv, pv) in enumerate(zip(xs, ps)):
            want = xv
            if lo is not None and PA.rat_sign(PA.reduce_full(lo - xv),
                                              H.signs) == 1:
                want = lo
            if hi is not None and PA.rat_sign(PA.reduce_full(xv - hi),
                                              H.signs) == 1:
                want = hi
            if not PA.same(pv, want, WIT):
                probs.append('entry %d: x = %s is mapped to %s, the nearest '
                             'point of the interval is %s'
                             % (j, _s(xv), _s(pv), _s(want)))
    elif kind[0] == 'sum':
        tot = Rat.const(0)
        for pv in ps:
            tot = tot + pv
        if not PA.same(tot, kind[1], WIT):
            probs.append('the entries of the result sum to %s, the '
                         'constraint value is %s' % (_s(PA.reduce_full(tot)),
                                                     _s(kind[1])))
        base = ws[0] * (xs[0] - ps[0])
        for j in range(1, len(ps)):
            if not PA.same(ws[j] * (xs[j] - ps[j]), base, WIT):
                probs.append('x - p is not normal to the constraint plane '
                             'in the space inner product (entries 0 and %d)'
                             % j)
                break
    return probs, ps, None


def partials_at(H, I, f, dom, ps):
    """[d f / d y_j (p)] with f's own value evaluated at y = p + t and
    differentiated symbolically; kinks give free symbols `sfree<k>`."""
    ts = ['t%d' % j for j in range(len(ps))]
    H.infinitesimal = set(ts)
    it = iter([pj + S(t) for pj, t in zip(ps, ts)])

    def mk(space):
        if isinstance(space, NPSpace):
            return NPElem(space, [mk(q) for q in space.parts])
        a = _np.empty(space.shape, dtype=object)
        for idx in _np.ndindex(*space.shape):
            a[idx] = next(it)
        return NElem(space, NA(a, space.dt))
    fy = PA.ired(to_rat(I.call(f, [mk(dom)], {})))
    zero = {t: Rat.const(0) for t in ts}
    out = []
    H.nfree = 0
    for t in ts:
        G = mdiff.diff(fy, t, sgn=True)
        out.append(PA.reduce_full(mdiff.deep_subs(G, zero, H.rebuild)))
    H.infinitesimal = set()
    return out, fy


def run_one(model, build, entries):
    H = H7()
    I = I7(model, {}, H)
    f = build(I)
    dom = I.getattr_value(f, 'domain')
    x = mk_point(dom, entries)
    sig = S('sig')
    prox = I.call(I.getattr_value(f, 'proximal'), [sig], {})
    p = I.call(prox, [mk_point(dom, entries)], {})
    if isinstance(p, NA):
        p = H.element(I, dom, p)
    ps = flat(p)
    xs = [PA.ired(to_rat(v)) for v in entries]
    ws = entry_weights(dom)
    Gs, fy = partials_at(H, I, f, dom, ps)
    probs = []
    for j, G0 in enumerate(Gs):
        lhs = ws[j] * (xs[j] - ps[j])
        E = PA.reduce_full(lhs - sig * G0)
        free = [v for v in E.vars() if isinstance(v, str)
                and v.startswith('sfree')]
        if not free:
            if not PA.same(lhs, sig * G0, WIT):
                probs.append('entry %d: p = %s, but w (x - p) / sigma = %s '
                             'while df/dy(p) = %s' % (j, _s(ps[j]),
                                                      _s(lhs / sig), _s(G0)))
            continue
        if len(free) != 1:
            raise Undecided('several subgradient unknowns in one entry')
        s = free[0]
        B_ = E.diff(s)
        A_ = E.subs({s: Rat.const(0)})
        if B_.is_zero() or mdiff._depends(B_, s):
            raise Undecided('condition not linear in the subgradient')
        sval = PA.reduce_full(-A_ / B_)
        lo = PA.rat_sign(PA.reduce_full(1 + sval), H.signs)
        hi = PA.rat_sign(PA.reduce_full(1 - sval), H.signs)
        if lo is None or hi is None:
            raise Undecided('range of the subgradient %r' % (sval,))
        if lo < 0 or hi < 0:
            probs.append('entry %d: p = %s sits at a kink, the optimality '
                         'condition needs the subgradient %s, outside '
                         '[-1, 1]' % (j, _s(ps[j]), _s(sval)))
    return probs, ps, fy


def run(rep, model):
    n = 0
    for name, (b, entries, kind) in builders(model).items():
        n += 1
        rel, line = _where(model, name)
        try:
            if isinstance(kind, tuple):
                probs, ps, fy = run_projection(model, b, entries, kind)
            else:
                probs, ps, fy = run_one(model, b, entries)
        except (Undecided, Fork) as e:
            rep.undecided('R6', name, str(e), rel)
            continue
        except ZeroDivisionError:
            rep.undecided('R6', name, 'the result sits at a point where the '
                          'value is not differentiable (division by zero in '
                          'the symbolic derivative)', rel)
            continue
        except NotAnElement as e:
            rep.violation('R6', name, 'a call yields no element: %s' % e, rel)
            continue
        except PyRaise as e:
            rep.violation('R6', name, 'raises %s at `%s`' % (
                e.name, ast.unparse(e.node)[:70] if e.node is not None
                else '?'), rel, getattr(e.node, 'lineno', None))
            continue
        if probs:
            rep.violation('R6', name, '; '.join(probs[:2]), rel, line)
        else:
            rep.holds('R6', name, '%s at the designated point; p = %s' % (
                'normal-cone condition of the set' if isinstance(kind, tuple)
                else 'first-order optimality of the proximal problem',
                _s([repr(v) for v in ps])))
    rep.floor('R6', 'evaluated proximal instances', n, 20)
