"""C02 continued: product spaces, discretized spaces, forwarding."""
from __future__ import annotations


def pspace_rules(rep, model):
    pass


def discr_rules(rep, model, thorough):
    pass


def forwarding_rules(rep, model):
    pass
