"""C02 continued: product-space weightings, discretized spaces (boundary
fractions), defaults and forwarding."""
from __future__ import annotations

import ast
import itertools
from fractions import Fraction as Fr

import numpy as _np

from ..core import Undecided, AnalysisError
from ..ratfun import Rat, satom
from ..symex import (Interp, Hooks, Inst, Func, Builtin, Opaque, Rec, SArr,
                     ClassV, PyRaise, is_scalar, to_rat)
from ..namodel import NA, DT, na_of, objarr, as_dt
from .. import posalg as PA
from .c02 import (WH, WI, TensorV, CompV, PV, INF, IU, FIELD, EXPONENTS,
                  pname, doc_norm, doc_inner, max_nf, scalar, call, guarded,
                  WIT, make_data, ents, tspace, NPY, WGT, PSP, DSP, PART)


# ---------------------------------------------------------------------------
# product spaces
# ---------------------------------------------------------------------------
def _norm_atom(name):
    return Rat.var(satom('norm', name))


def pspace_config(model, kind, p, field, ncomp=3):
    pos = {'c'}
    wn = ['w%d' % i for i in range(ncomp)]
    if kind == 'array':
        pos |= set(wn)
    signs = PA.Signs(pos)
    H = WH(signs)
    I = WI(model, {}, H)
    dt = DT('complex128' if field == 'C' else 'float64')
    csp = Rec('cspace', dtype=dt, field=FIELD)
    psp = Rec('pspace', dtype=dt, field=FIELD)
    cls = {'const': 'ProductSpaceConstWeighting',
           'array': 'ProductSpaceArrayWeighting'}[kind]
    pv = INF if p is INF else Rat.const(p)
    if kind == 'const':
        W = I.instantiate(model.get(cls), [Rat.var('c')], {'exponent': pv})
        weights = None
    else:
        warr = NA(objarr([Rat.var(n) for n in wn]), 'float64')
        W = I.instantiate(model.get(cls), [warr], {'exponent': pv})
        weights = [Rat.var(n) for n in wn]
    x = PV([CompV('x%d' % i, csp) for i in range(ncomp)], psp)
    y = PV([CompV('y%d' % i, csp) for i in range(ncomp)], psp)
    return I, H, W, x, y, weights, signs


class _CIP(object):
    """Symbolic component inner products (complex for complex spaces)."""


def pspace_rules(rep, model):
    n = 0
    c = Rat.var('c')
    for kind in ('const', 'array'):
        for p in EXPONENTS:
            for field in ('R', 'C'):
                tag = 'pspace-%s[p=%s,%s]' % (kind, pname(p), field)

                def doc(norms, w, signs):
                    if p is INF:
                        if kind == 'const':
                            return c * max_nf(norms, signs)
                        return max_nf([a * b for a, b in zip(w, norms)],
                                      signs)
                    tot = Rat.const(0)
                    for i, nn in enumerate(norms):
                        wi = c if kind == 'const' else w[i]
                        tot = tot + wi * PA.pow_q(nn, p, signs)
                    return PA.pow_q(tot, 1 / p, signs)

                def norm():
                    I, H, W, x, y, w, signs = pspace_config(
                        model, kind, p, field)
                    got = scalar(call(I, W, 'norm', x))
                    want = doc([_norm_atom(q.name) for q in x.parts], w,
                               signs)
                    if not PA.equal_pos(got, want, WIT):
                        return 'norm computes %r, documented %r' % (got,
                                                                    want)
                guarded(rep, 'R1', 'norm:' + tag, norm, PSP)

                def dist():
                    I, H, W, x, y, w, signs = pspace_config(
                        model, kind, p, field)
                    got = scalar(call(I, W, 'dist', x, y))
                    want = doc([_norm_atom('(%s-%s)' % (a.name, b.name))
                                for a, b in zip(x.parts, y.parts)], w,
                               signs)
                    if not PA.equal_pos(got, want, WIT):
                        return 'dist computes %r, documented %r' % (got,
                                                                    want)
                    nd = scalar(call(I, W, 'norm', H.on_binop(
                        I, ast.Sub, x, y)))
                    if not PA.equal_pos(got, nd, WIT):
                        return 'dist(x, y) = %r differs from norm(x - y) ' \
                            '= %r' % (got, nd)
                guarded(rep, 'R1', 'dist:' + tag, dist, PSP)

                def inner():
                    I, H, W, x, y, w, signs = pspace_config(
                        model, kind, p, field)
                    if p != 2:
                        try:
                            call(I, W, 'inner', x, y)
                        except PyRaise as e:
                            return None if e.name == 'NotImplementedError' \
                                else 'inner raises %s' % e.name
                        return 'inner is defined for exponent %s' % pname(p)
                    got = PA.ired(scalar(call(I, W, 'inner', x, y)))
                    want = Rat.const(0)
                    for i, (a, b) in enumerate(zip(x.parts, y.parts)):
                        wi = c if kind == 'const' else w[i]
                        want = want + wi * H.comp_inner(a, b)
                    if not PA.equal_exact(got, want, WIT):
                        return 'inner computes %r, documented %r' % (got,
                                                                     want)
                    nx = scalar(call(I, W, 'norm', x))
                    ixx = PA.ired(scalar(call(I, W, 'inner', x, x)))
                    if not PA.equal_exact(nx * nx, ixx, WIT):
                        return 'norm(x)^2 = %r differs from inner(x, x) = ' \
                            '%r' % (nx * nx, ixx)
                guarded(rep, 'R2' if p == 2 else 'R6', 'inner:' + tag, inner,
                        PSP)
                n += 3
    rep.floor('R1', 'product-space weighting evaluations', n, 60)


# ---------------------------------------------------------------------------
# discretized spaces
# ---------------------------------------------------------------------------
class DiscrV(object):
    """Discretized-space element (array-like with a tensor)."""

    isinstance_names = ('DiscretizedSpaceElement', 'LinearSpaceElement')

    def __init__(self, data, sp):
        self.data = data
        self.sp = sp


class DH(WH):
    def on_getattr(self, interp, obj, name):
        if isinstance(obj, DiscrV):
            if name == 'ndim':
                return obj.data.a.ndim
            if name == 'shape':
                return obj.data.a.shape
            if name == 'tensor':
                return TensorV(obj.data, obj.sp)
            if name == 'copy':
                return Builtin('copy', lambda: DiscrV(NA(
                    obj.data.a.copy(), obj.data.dt), obj.sp))
            if name == 'asarray':
                return Builtin('asarray', lambda **k: obj.data)
            raise PyRaise('AttributeError')
        return WH.on_getattr(self, interp, obj, name)

    def on_subscript(self, interp, obj, idx):
        if isinstance(obj, DiscrV):
            return WH.on_subscript(self, interp, obj.data, idx)
        return WH.on_subscript(self, interp, obj, idx)

    def np_func(self, I, name):
        f = WH.np_func(self, I, name)
        if name in ('asarray', 'array') and f is not None:
            return lambda v, *a, **k: f(
                v.data if isinstance(v, DiscrV) else v, *a, **k)
        return f


class DI(WI):
    def assign(self, t, v, scope, func):
        if isinstance(t, ast.Subscript):
            obj = self.ev(t.value, scope, func)
            if isinstance(obj, DiscrV):
                idx = self._na_index(t.slice, scope, func)
                self.hooks.store(self, obj.data, idx, v)
                return
        return WI.assign(self, t, v, scope, func)


def discr_config(model, p, shape, fracs, field='R'):
    """DiscretizedSpace instance over a const-weighted tensor space."""
    pos = {'cv'}
    for ax in fracs:
        for f in ax:
            if isinstance(f, Rat):
                pos |= set(v for v in f.vars() if isinstance(v, str))
    signs = PA.Signs(pos)
    H = DH(signs)
    I = DI(model, {}, H)
    pv = INF if p is INF else Rat.const(p)
    W = I.instantiate(model.get('NumpyTensorSpaceConstWeighting'),
                      [Rat.var('cv')], {'exponent': pv})
    dt = 'complex128' if field == 'C' else 'float64'
    tsp_rec = tspace(dt)

    def element(v=None, **k):
        if isinstance(v, DiscrV):
            v = v.data
        if isinstance(v, TensorV):
            return v
        return TensorV(na_of(v), tsp_rec)
    ts = Rec('tspace', is_weighted=True, exponent=pv,
             element=Builtin('tspace.element', element),
             inner=Builtin('tspace.inner',
                           lambda a, b: call(I, W, 'inner', a, b)),
             norm=Builtin('tspace.norm', lambda a: call(I, W, 'norm', a)),
             dist=Builtin('tspace.dist',
                          lambda a, b: call(I, W, 'dist', a, b)))
    ci = model.get('DiscretizedSpace')
    sp = Inst(ci)
    sp.attrs.update({
        'partition': Rec('partition', boundary_cell_fractions=tuple(
            tuple(ax) for ax in fracs)),
        'is_uniform': True, 'exponent': pv, 'tspace': ts})

    def mk(name):
        a = _np.empty(shape, dtype=object)
        for idx in _np.ndindex(*shape):
            s = ''.join(str(i) for i in idx)
            v = Rat.var(name + s)
            if field == 'C':
                v = v + IU * Rat.var(name + 'i' + s)
            a[idx] = v
        return DiscrV(NA(a, dt), tsp_rec)
    return I, H, sp, mk('x'), mk('y'), signs


def frac_weights(shape, fracs):
    """Cell fraction of every sample: product over the axes."""
    out = {}
    for idx in _np.ndindex(*shape):
        w = Rat.const(1)
        for ax, i in enumerate(idx):
            fl, fr = fracs[ax]
            if shape[ax] == 1:
                # both fractions act on the single sample
                w = w * to_rat(fl) * to_rat(fr)
            elif i == 0:
                w = w * to_rat(fl)
            elif i == shape[ax] - 1:
                w = w * to_rat(fr)
        out[idx] = w
    return out


def discr_rules(rep, model, thorough):
    ci = model.get('DiscretizedSpace')
    if ci is None or not all(m in ci.methods for m in ('_inner', '_norm',
                                                       '_dist')):
        raise AnalysisError('anchor vanished: DiscretizedSpace._inner')
    F = lambda n: Rat.var(n)
    configs = [
        ('1d', (3,), [(F('fl0'), F('fr0'))]),
        ('2d', (3, 2), [(F('fl0'), F('fr0')), (F('fl1'), F('fr1'))]),
        ('2d-some-whole', (3, 3), [(F('fl0'), 1), (1, F('fr1'))]),
        ('2d-all-whole', (2, 2), [(1, 1), (1, 1)]),
    ]
    if thorough:
        configs.append(('3d', (2, 3, 2), [(F('fl0'), F('fr0')),
                                         (F('fl1'), 1),
                                         (F('fl2'), F('fr2'))]))
    cv = Rat.var('cv')
    n = 0
    for cname, shape, fracs in configs:
        for p in EXPONENTS:
            for field in (('R', 'C') if cname in ('1d', '2d') else ('R',)):
                tag = 'discr-%s[p=%s,%s]' % (cname, pname(p), field)
                fw = frac_weights(shape, fracs)

                def weights_for(signs):
                    # inf: the boundary fractions do not enter
                    if p is INF:
                        return None
                    return [cv * fw[idx] for idx in _np.ndindex(*shape)]

                def norm():
                    I, H, sp, x, y, signs = discr_config(model, p, shape,
                                                         fracs, field)
                    got = scalar(call(I, sp, '_norm', x))
                    e = [to_rat(v) for v in x.data.a.ravel()]
                    w = weights_for(signs)
                    want = doc_norm(e, w, p, signs,
                                    cv if w is None else None)
                    if not PA.equal_pos(got, want, WIT):
                        return 'norm computes %r, documented %r' % (got,
                                                                    want)
                guarded(rep, 'R3', 'norm:' + tag, norm, DSP)

                def dist():
                    I, H, sp, x, y, signs = discr_config(model, p, shape,
                                                         fracs, field)
                    got = scalar(call(I, sp, '_dist', x, y))
                    e = [to_rat(a) - to_rat(b) for a, b in zip(
                        x.data.a.ravel(), y.data.a.ravel())]
                    w = weights_for(signs)
                    want = doc_norm(e, w, p, signs,
                                    cv if w is None else None)
                    if not PA.equal_pos(got, want, WIT):
                        return 'dist computes %r, documented %r' % (got,
                                                                    want)
                guarded(rep, 'R3', 'dist:' + tag, dist, DSP)
                n += 2
                if p == 2:
                    def inner():
                        I, H, sp, x, y, signs = discr_config(
                            model, p, shape, fracs, field)
                        got = PA.ired(scalar(call(I, sp, '_inner', x, y)))
                        xe = [to_rat(v) for v in x.data.a.ravel()]
                        ye = [to_rat(v) for v in y.data.a.ravel()]
                        want = doc_inner(xe, ye, weights_for(signs))
                        if not PA.equal_exact(got, want, WIT):
                            return 'inner computes %r, documented %r' % (
                                got, want)
                        # the operands must not be modified
                        for nm, el in (('x', x), ('y', y)):
                            for idx in _np.ndindex(*shape):
                                s = ''.join(str(i) for i in idx)
                                ref = Rat.var(nm + s)
                                if field == 'C':
                                    ref = ref + IU * Rat.var(nm + 'i' + s)
                                if not (to_rat(el.data.a[idx])
                                        - ref).is_zero():
                                    return 'operand %s is modified' % nm
                    guarded(rep, 'R3', 'inner:' + tag, inner, DSP)
                    n += 1
    rep.floor('R3', 'discretized-space evaluations', n, 60)
    _fractions(rep, model)
    _one_volume(rep, model)
    _defaults(rep, model)


def _partition(model, I, n, ax):
    """RectPartition instance over a uniform symbolic grid of n nodes."""
    c0, h = Rat.var('c0_%d' % ax), Rat.var('h%d' % ax)
    bmin, bmax = Rat.var('bmin%d' % ax), Rat.var('bmax%d' % ax)
    cvec = NA(objarr([c0 + h * k for k in range(n)]), 'float64')
    return cvec, bmin, bmax, h


def _fractions_of(model, I, ns):
    ci = model.get('RectPartition')
    if ci is None:
        raise AnalysisError('anchor vanished: RectPartition')
    part = Inst(ci)
    axes = [_partition(model, I, n, ax) for ax, n in enumerate(ns)]
    part.attrs.update({
        'grid': Rec('grid', coord_vectors=tuple(a[0] for a in axes)),
        'set': Rec('set', min_pt=[a[1] for a in axes],
                   max_pt=[a[2] for a in axes])})
    fr = I.getattr_value(part, 'boundary_cell_fractions')
    return fr, axes


def _fractions(rep, model):
    """Sum of the cell fractions times the cell side = extent per axis."""
    for n in (1, 2, 3, 5):
        def f(n=n):
            H = WH(PA.Signs({'h0'}))
            I = WI(model, {}, H)
            fr, axes = _fractions_of(model, I, [n])
            fl, frr = (to_rat(v) for v in fr[0])
            cvec, bmin, bmax, h = axes[0]
            if n == 1:
                if not (fl == Rat.const(1) and frr == Rat.const(1)):
                    return 'degenerate axis has fractions %r, %r' % (fl, frr)
                return None
            total = (Rat.const(n - 2) + fl + frr) * h
            if not (total - (bmax - bmin)).is_zero():
                return 'cells cover %r instead of the extent' % (total,)
        guarded(rep, 'R3', 'boundary_cell_fractions[n=%d]' % n, f, PART)


def _one_volume(rep, model):
    """|| one ||^2 = volume on a 2-d space whose fractions come from the
    partition itself and whose weight is the cell volume."""
    def f():
        H0 = WH(PA.Signs({'h0', 'h1'}))
        I0 = WI(model, {}, H0)
        fr, axes = _fractions_of(model, I0, [3, 2])
        fracs = [tuple(to_rat(v) for v in ax) for ax in fr]
        shape = (3, 2)
        I, H, sp, x, y, signs = discr_config(model, Fr(2), shape, fracs)
        x.data.a.fill(Rat.const(1))
        got = scalar(call(I, sp, '_norm', x))
        vol = Rat.const(1)
        for cvec, bmin, bmax, h in axes:
            vol = vol * (bmax - bmin)
        # the default weight is the cell volume h0 * h1
        g2 = PA.reduce_full(got * got).subs(
            {'cv': Rat.var('h0') * Rat.var('h1')})
        if not (PA.reduce_full(g2) - vol).n.is_zero():
            return 'norm(one)^2 = %r, the volume is %r' % (g2, vol)
    guarded(rep, 'R3', 'norm(one)^2 = volume', f, DSP)

    def g():
        # the same with unit cell sides: the default weight (the cell
        # volume) is then exactly 1.0 and the tensor space reports
        # `is_weighted == False` (NumpyTensorSpace.is_weighted: "not weighted
        # by constant 1.0")
        H0 = WH(PA.Signs({'h0', 'h1'}))
        I0 = WI(model, {}, H0)
        fr, axes = _fractions_of(model, I0, [3, 2])
        unit = {'h0': Rat.const(1), 'h1': Rat.const(1)}
        fracs = [tuple(to_rat(v).subs(unit) for v in ax) for ax in fr]
        shape = (3, 2)
        I, H, sp, x, y, signs = discr_config(model, Fr(2), shape, fracs)
        sp.attrs['tspace'].attrs['is_weighted'] = False
        x.data.a.fill(Rat.const(1))
        got = scalar(call(I, sp, '_norm', x))
        vol = Rat.const(1)
        for cvec, bmin, bmax, h in axes:
            vol = vol * (bmax - bmin)
        g2 = PA.reduce_full(got * got).subs({'cv': Rat.const(1)})
        if not (PA.reduce_full(g2) - vol).n.is_zero():
            return ('with unit cell sides (default weight exactly 1.0, '
                    'tspace.is_weighted False) norm(one)^2 = %r, the volume '
                    'is %r: the boundary cell fractions are not applied'
                    % (g2, vol))
    guarded(rep, 'R3', 'norm(one)^2 = volume[unit cell volume]', g, DSP)


class UH(WH):
    def __init__(self):
        WH.__init__(self, PA.Signs())
        self.tspace_calls = []
        self.discr_calls = []

    def on_name(self, interp, name):
        if name == 'tensor_space_impl':
            def impl(_):
                def tst(shape, dtype, **kw):
                    self.tspace_calls.append((shape, dtype, kw))
                    return Rec('tspace-made')
                b = Builtin('tspace_type', tst)
                return Rec('tspace_type_rec', default_dtype=Builtin(
                    'default_dtype', lambda: DT('float64')), call=b)
            return Builtin('tensor_space_impl', impl)
        return WH.on_name(self, interp, name)

    def on_call(self, interp, f, args, kwargs, node):
        if isinstance(f, Rec) and f.kind == 'tspace_type_rec':
            return f.attrs['call'].fn(*args, **kwargs)
        if isinstance(f, ClassV) and f.ci.name == 'DiscretizedSpace':
            self.discr_calls.append((args, kwargs))
            return Rec('discr-made')
        if isinstance(f, Func) and f.name == 'is_numeric_dtype':
            return as_dt(args[0]).d.kind in 'biufc'
        return WH.on_call(self, interp, f, args, kwargs, node)


def _defaults(rep, model):
    fn = model.ctx.func(DSP, 'uniform_discr_frompartition')
    if fn is None:
        raise AnalysisError('anchor vanished: uniform_discr_frompartition')
    cvol = Rat.var('cellvol')
    cases = [
        ('default', {}, 2, 'float64', cvol),
        ('exponent=1', {'exponent': Rat.const(1)}, 2, 'float64', cvol),
        ('exponent=inf', {'exponent': INF}, 2, 'float64', Rat.const(1)),
        ('ndim=0', {}, 0, 'float64', Rat.const(1)),
        ('complex', {}, 1, 'complex128', cvol),
        ('explicit weighting', {'weighting': Rat.var('mine')}, 2, 'float64',
         Rat.var('mine')),
        ('non-numeric dtype', {}, 2, 'U1', None),
    ]
    for name, kw, ndim, dt, want in cases:
        def f(kw=kw, ndim=ndim, dt=dt, want=want):
            H = UH()
            I = WI(model, {}, H)
            part = Rec('RectPartition', is_uniform=True, ndim=ndim,
                       shape=(3,) * ndim, cell_volume=cvol)
            I.call_func(Func(fn, I.env_of(DSP), None), [part],
                        dict(kw, dtype=DT(dt)))
            if len(H.tspace_calls) != 1:
                return '%d tensor spaces created' % len(H.tspace_calls)
            shape, dtype, k = H.tspace_calls[0]
            got = k.get('weighting')
            if want is None:
                if got is not None:
                    return 'weighting %r for a non-numeric dtype' % (got,)
            elif got is None or not (to_rat(got) - want).is_zero():
                return 'weighting %r, expected %r' % (got, want)
            ew = kw.get('exponent', Rat.const(2))
            ge = k.get('exponent')
            if not (ge is ew or (is_scalar(ge) and is_scalar(ew) and
                                 (to_rat(ge) - to_rat(ew)).is_zero())):
                return 'exponent %r handed to the tensor space' % (ge,)
            if shape != (3,) * ndim:
                return 'shape %r' % (shape,)
        guarded(rep, 'R4', 'uniform_discr_frompartition[%s]' % name, f, DSP)
    _cell_volume(rep, model)


def _cell_volume(rep, model):
    """R4c: what `uniform_discr_frompartition` takes as default weighting:
    `RectPartition.cell_sides` is the grid stride, the extent on axes with a
    single point (stride exactly 0), and `cell_volume` their product - for
    every positive stride, however small (a tolerance test on the stride is
    explored with both outcomes)."""
    from ..namodel import NAInterp, NAHooks, objarr
    from ..forks import explore, Fork
    PART = 'odl/discr/partition.py'
    ci = model.get('RectPartition')
    if ci is None:
        raise AnalysisError('anchor vanished: RectPartition')
    h = [Rat.var('h0'), Rat.const(0), Rat.var('h2')]
    e = [Rat.var('e0'), Rat.var('e1'), Rat.var('e2')]

    class PH(NAHooks):
        def on_getattr(self, interp, obj, name):
            if isinstance(obj, Inst) and obj.ci is ci:
                if name == 'grid':
                    return Rec('grid', stride=NA(objarr(list(h)), 'float64'))
                if name == 'extent':
                    return NA(objarr(list(e)), 'float64')
                if name == 'ndim':
                    return 3
                if name == 'size':
                    return 12
            return NAHooks.on_getattr(self, interp, obj, name)

        def on_name(self, interp, name):
            if name == 'float':
                return Builtin('float', lambda v=0: v)
            return NAHooks.on_name(self, interp, name)

        def on_decide(self, interp, cond, node):
            if cond.rat is not None and cond.key.startswith('eq0:'):
                return False          # generic (non-zero) symbols
            return NAHooks.on_decide(self, interp, cond, node)
    for attr, want in (('cell_sides', [h[0], e[1], h[2]]),
                       ('cell_volume', [h[0] * e[1] * h[2]])):
        cons = 'RectPartition.%s' % attr

        def once(assume):
            I = NAInterp(model, assume, PH())
            return I.getattr_value(Inst(ci), attr)
        try:
            leaves = explore(once, limit=32)
        except (Undecided, Fork) as ex:
            rep.undecided('R4c', cons, str(ex), PART)
            continue
        except PyRaise as ex:
            rep.violation('R4c', cons, 'raises %s' % ex.name, PART)
            continue
        bad = None
        for assume, r in leaves:
            got = [to_rat(v) for v in (r.a.ravel() if isinstance(r, NA)
                                       else [r])]
            if len(got) != len(want) or any(
                    not (g - w).is_zero() for g, w in zip(got, want)):
                bad = '%s is %r, expected %r%s' % (
                    attr, got, want, ' [when %s]' % '; '.join(
                        '%s is %s' % (k, v) for k, v in assume.items())
                    if assume else '')
                break
        if bad:
            rep.violation('R4c', cons, bad, PART,
                          ci.methods[attr].lineno if attr in ci.methods
                          else None)
        else:
            rep.holds('R4c', cons, 'stride, extent on single-point axes; '
                      'product (%d path%s)' % (len(leaves),
                                               's' if len(leaves) > 1
                                               else ''))


# ---------------------------------------------------------------------------
# forwarding of the space-level methods
# ---------------------------------------------------------------------------
def forwarding_rules(rep, model):
    for cls, rel in (('NumpyTensorSpace', NPY), ('ProductSpace', PSP)):
        ci = model.get(cls)
        if ci is None:
            raise AnalysisError('anchor vanished: %s' % cls)
        for meth, nargs in (('_inner', 2), ('_norm', 1), ('_dist', 2)):
            def f(ci=ci, meth=meth, nargs=nargs):
                seen = []
                w = Rec('weighting')
                for m in ('inner', 'norm', 'dist'):
                    w.attrs[m] = Builtin(m, lambda *a, m=m: seen.append(
                        (m, a)) or Rec('result:' + m))
                I = WI(model, {}, WH(PA.Signs()))
                sp = Inst(ci)
                sp.attrs['weighting'] = w
                sp.attrs['_%s__weighting' % ci.name] = w
                args = [Rec('x1'), Rec('x2')][:nargs]
                r = I.call(I.getattr_value(sp, meth), args, {})
                if len(seen) != 1:
                    return '%d weighting calls' % len(seen)
                m, a = seen[0]
                if m != meth[1:]:
                    return 'forwards to weighting.%s' % m
                if len(a) != nargs or any(x is not y
                                          for x, y in zip(a, args)):
                    return 'arguments not forwarded in order'
                if not (isinstance(r, Rec) and r.kind == 'result:' + m):
                    return 'result not returned'
            guarded(rep, 'R5', '%s.%s' % (cls, meth), f, rel)
    # LinearSpace.inner / norm / dist and the element methods
    ls = model.get('LinearSpace')
    for meth, nargs in (('inner', 2), ('norm', 1), ('dist', 2)):
        for fld in (FIELD, None):
            def f(meth=meth, nargs=nargs, fld=fld):
                class LI(WI):
                    def contains(self, cont, item, node):
                        return True
                I = LI(model, {}, WH(PA.Signs()))
                sp = Inst(ls)
                sp.attrs['field'] = fld
                sp.attrs['_LinearSpace__field'] = fld
                args = [Rec('x1'), Rec('x2')][:nargs]
                # the value that is *returned* must come from a call with
                # the arguments in order
                sp.attrs['_' + meth] = Builtin('_' + meth, lambda *a: (
                    Rat.var('val') if len(a) == nargs and all(
                        x is y for x, y in zip(a, args))
                    else Rat.var('misordered')))
                r = I.call(I.getattr_value(sp, meth), args, {})
                if not (is_scalar(r) and (to_rat(r) - Rat.var(
                        'val')).is_zero()):
                    return 'returns %r' % (r,)
            guarded(rep, 'R5', 'LinearSpace.%s[field %s]' % (
                meth, 'set' if fld is not None else 'None'), f,
                'odl/set/space.py')
    # defaults: _dist = norm(x1 - x2), _norm = sqrt(inner(x, x).real)
    def fd():
        I = WI(model, {}, WH(PA.Signs()))
        sp = Inst(ls)
        got = []
        sp.attrs['norm'] = Builtin('norm', lambda v: got.append(v) or
                                   Rat.var('n'))
        x1, x2 = TensorV(make_data('x', '1d', 'R'), tspace('float64')), \
            TensorV(make_data('y', '1d', 'R'), tspace('float64'))
        dc, m = model.lookup(ls, '_dist')
        r = I.call_func(Func(m, I.env_of(dc.rel), dc), [x1, x2], {}, sp)
        if len(got) != 1 or not isinstance(got[0], TensorV):
            return 'norm not applied to an element'
        d = [to_rat(v) for v in got[0].data.a.ravel()]
        w = [a - b for a, b in zip(ents(x1), ents(x2))]
        if any(not (p - q).is_zero() for p, q in zip(d, w)):
            return 'norm applied to %r, not to x1 - x2' % (d,)
    guarded(rep, 'R5', 'LinearSpace._dist default', fd, 'odl/set/space.py')

    def fn_():
        I = WI(model, {}, WH(PA.Signs({'q'})))
        sp = Inst(ls)
        sp.attrs['inner'] = Builtin('inner', lambda a, b: (
            Rat.var('q') if a is b else Rat.var('other')))
        dc, m = model.lookup(ls, '_norm')
        x = Rec('x')
        r = I.call_func(Func(m, I.env_of(dc.rel), dc), [x], {}, sp)
        if not PA.equal_pos(to_rat(r), PA.root(Rat.var('q'), 2,
                                               PA.Signs({'q'})), WIT):
            return 'default norm is %r, not sqrt(inner(x, x))' % (r,)
    guarded(rep, 'R5', 'LinearSpace._norm default', fn_, 'odl/set/space.py')
    # Weighting base defaults
    wc = model.get('Weighting')

    def fw():
        I = WI(model, {}, WH(PA.Signs({'q'})))
        w = Inst(wc)
        w.attrs['inner'] = Builtin('inner', lambda a, b: (
            Rat.var('q') if a is b else Rat.var('other')))
        dc, m = model.lookup(wc, 'norm')
        r = I.call_func(Func(m, I.env_of(dc.rel), dc), [Rec('x')], {}, w)
        if not PA.equal_pos(to_rat(r), PA.root(Rat.var('q'), 2,
                                               PA.Signs({'q'})), WIT):
            return 'default norm is %r, not sqrt(inner(x, x))' % (r,)
    guarded(rep, 'R5', 'Weighting.norm default', fw, WGT)
