"""C08 -- functional, convex conjugate and their proximals are mutually
consistent.  See DESIGN.md section C08 (partial)."""
from __future__ import annotations

import ast

from ..core import Report, Undecided, AnalysisError
from ..srcmodel import Model
from ..forks import explore
from ..ratfun import Rat
from ..symex import PyRaise, to_rat
from ..opalg import apply
from ..quadmodel import Quad, coef, vec, W, T
from ._funcs import instances, evaluate, equal, Ctx, FUNF
from .c09 import _loc


def check(ctx):
    rep = Report(
        'C08', ctx, 'other',
        'R1: for every derived functional with a convex_conj rule and the '
        'quadratic built-ins, the object returned by .convex_conj is '
        'evaluated by the symbolic interpreter on the weighted 1-d '
        'quadratic model and must take the values of the exact conjugate '
        '(sup_x w*x*y - F(x)) of the class denotation, identically in all '
        'parameters; applying .convex_conj twice must give back the values '
        'of the functional (involution).  R3: proximal_convex_conj denotes '
        'the Moreau decomposition x - sigma * prox_{f/sigma}(x/sigma) (in '
        'the weighted space), i.e. prox_{sigma f*}.',
        ['CPython ast', 'closed-form conjugate/proximal of a convex '
         'quadratic on the weighted line', 'operator/functional arithmetic '
         'means what the table says (C04)'],
        ['Fenchel-Young for non-quadratic functionals', 'numerical values',
         'pairing of the non-quadratic built-ins (norms / indicators)'])
    model = Model(ctx)
    n = 0
    for name, (builder, aspects) in instances().items():
        rel, line = _loc(model, name)
        for asp in ('c', 'C'):
            if asp not in aspects:
                continue
            n += 1
            tag = '%s.convex_conj' % name
            cons = name.split('[')[0] + '.convex_conj'
            try:
                for r in evaluate(model, builder, asp):
                    if equal(r['got'], r['want']):
                        rep.holds('R1', tag, 'conjugate %r' % (r['want'],))
                    else:
                        rep.violation(
                            'R1', cons,
                            '%s: %sthe returned conjugate takes the value '
                            '%r at t, the conjugate of the denotation is %r'
                            % (tag, 'value is %r; ' % (r['den'],)
                               if 'den' in r else '', r['got'], r['want']),
                            rel, line)
            except Undecided as e:
                rep.undecided('R1', tag, str(e), rel, line)
            except PyRaise as e:
                rep.violation('R1', cons, '%s: raises %s' % (tag, e.name),
                              rel, line)
        if 'c' in aspects:
            _biconj(rep, model, name, builder, rel, line)
    rep.floor('R1', 'conjugate instances', n, 12)
    _moreau(rep, model)
    return rep


def _biconj(rep, model, name, builder, rel, line):
    tag = '%s.convex_conj.convex_conj' % name
    cons = name.split('[')[0] + '.convex_conj'

    def once(assume):
        c = Ctx(model, assume)
        D = builder(c)
        x = vec(T, c.X)
        den = to_rat(apply(c.I, D, x))
        cc = c.I.getattr_value(c.I.getattr_value(D, 'convex_conj'),
                               'convex_conj')
        return den, to_rat(apply(c.I, cc, x))
    try:
        for a, (den, back) in explore(once, limit=40):
            if equal(den, back):
                rep.holds('R2', tag, 'takes the values of the functional')
            else:
                rep.violation('R2', cons, '%s takes the value %r, the '
                              'functional %r' % (tag, back, den), rel, line)
    except Undecided as e:
        rep.undecided('R2', tag, str(e), rel, line)
    except PyRaise as e:
        rep.violation('R2', cons, '%s: raises %s' % (tag, e.name), rel, line)


def _moreau(rep, model):
    from ._funcs import PROXF
    fn = model.ctx.func(PROXF, 'proximal_convex_conj')
    tag = 'proximal_convex_conj'

    def once(assume):
        from ..symex import Func
        c = Ctx(model, assume)
        f = c.f()
        fac = c.I.call_func(Func(fn, c.I.env_of(PROXF), None),
                            [c.I.getattr_value(f, 'proximal')], {})
        sig = Rat.var('sigma')
        P = c.I.call(fac, [sig], {})
        got = coef(apply(c.I, P, vec(T, c.X)))
        want = f.quad.conj().prox(sig, T)
        return got, want
    try:
        for a, (got, want) in explore(once, limit=20):
            if equal(got, want):
                rep.holds('R3', tag, 'prox of the conjugate via Moreau')
            else:
                rep.violation('R3', tag, 'maps t to %r, prox_{sigma f*}(t) '
                              'is %r' % (got, want), PROXF, fn.lineno)
    except Undecided as e:
        rep.undecided('R3', tag, str(e), PROXF, fn.lineno)
    except PyRaise as e:
        rep.violation('R3', tag, 'raises %s' % e.name, PROXF, fn.lineno)
