"""C08 -- functional, convex conjugate and their proximals are mutually
consistent.  See DESIGN.md section C08 (partial)."""
from __future__ import annotations

import ast

from ..core import Report, Undecided, AnalysisError
from ..srcmodel import Model
from ..forks import explore
from ..ratfun import Rat
from ..symex import PyRaise, to_rat
from ..opalg import apply
from ..quadmodel import Quad, coef, vec, W, T
from ._funcs import instances, evaluate, equal, Ctx, FUNF
from .c09 import _loc


def check(ctx):
    rep = Report(
        'C08', ctx, 'other',
        'R1: for every derived functional with a convex_conj rule and the '
        'quadratic built-ins, the object returned by .convex_conj is '
        'evaluated by the symbolic interpreter on the weighted 1-d '
        'quadratic model and must take the values of the exact conjugate '
        '(sup_x w*x*y - F(x)) of the class denotation, identically in all '
        'parameters; applying .convex_conj twice must give back the values '
        'of the functional (involution).  R3: proximal_convex_conj denotes '
        'the Moreau decomposition x - sigma * prox_{f/sigma}(x/sigma) (in '
        'the weighted space), i.e. prox_{sigma f*}.  R4: conjugate pairing '
        'table: norms and unit-ball indicators (Lp, group-L1, nuclear) are '
        'conjugate to each other with the dual exponent p/(p-1) (1 <-> inf) '
        'in both directions, for p in {1, 2, inf, 3, 3/2}; the Kullback-'
        'Leibler pairs forward space and prior.  R5: concrete '
        'functionals evaluated at designated points on weighted model '
        'spaces: Fenchel-Young with equality at the gradient (symbolic '
        'differentiation of the evaluated value), the inequality at y = '
        'g/2 and 2g where its sign is decidable, f** = f (inf outside the '
        'domain of an indicator), Moreau decomposition entrywise.',
        ['CPython ast', 'closed-form conjugate/proximal of a convex '
         'quadratic on the weighted line', 'operator/functional arithmetic '
         'means what the table says (C04)', 'NumPy primitives mean what '
         'the array model says'],
        ['Fenchel-Young at pairs (x, y) other than the designated ones',
         'clauses skipped and counted per instance (NotImplementedError, '
         'Lambert W, kinks at the designated point)',
         'infimal convolution (no evaluable value in the library)'])
    model = Model(ctx)
    n = 0
    for name, (builder, aspects) in instances().items():
        rel, line = _loc(model, name)
        for asp in ('c', 'C'):
            if asp not in aspects:
                continue
            n += 1
            tag = '%s.convex_conj' % name
            cons = name.split('[')[0] + '.convex_conj'
            try:
                for r in evaluate(model, builder, asp):
                    if equal(r['got'], r['want']):
                        rep.holds('R1', tag, 'conjugate %r' % (r['want'],))
                    else:
                        rep.violation(
                            'R1', cons,
                            '%s: %sthe returned conjugate takes the value '
                            '%r at t, the conjugate of the denotation is %r'
                            % (tag, 'value is %r; ' % (r['den'],)
                               if 'den' in r else '', r['got'], r['want']),
                            rel, line)
            except Undecided as e:
                rep.undecided('R1', tag, str(e), rel, line)
            except PyRaise as e:
                rep.violation('R1', cons, '%s: raises %s' % (tag, e.name),
                              rel, line)
        if 'c' in aspects:
            _biconj(rep, model, name, builder, rel, line)
    rep.floor('R1', 'conjugate instances', n, 12)
    _moreau(rep, model)
    _pairing(rep, model)
    from . import c08b
    c08b.run(rep, model)
    return rep


def _biconj(rep, model, name, builder, rel, line):
    tag = '%s.convex_conj.convex_conj' % name
    cons = name.split('[')[0] + '.convex_conj'

    def once(assume):
        c = Ctx(model, assume)
        D = builder(c)
        x = vec(T, c.X)
        den = to_rat(apply(c.I, D, x))
        cc = c.I.getattr_value(c.I.getattr_value(D, 'convex_conj'),
                               'convex_conj')
        return den, to_rat(apply(c.I, cc, x))
    try:
        for a, (den, back) in explore(once, limit=40):
            if equal(den, back):
                rep.holds('R2', tag, 'takes the values of the functional')
            else:
                rep.violation('R2', cons, '%s takes the value %r, the '
                              'functional %r' % (tag, back, den), rel, line)
    except Undecided as e:
        rep.undecided('R2', tag, str(e), rel, line)
    except PyRaise as e:
        rep.violation('R2', cons, '%s: raises %s' % (tag, e.name), rel, line)


def _moreau(rep, model):
    from ._funcs import PROXF
    fn = model.ctx.func(PROXF, 'proximal_convex_conj')
    tag = 'proximal_convex_conj'

    def once(assume):
        from ..symex import Func
        c = Ctx(model, assume)
        f = c.f()
        fac = c.I.call_func(Func(fn, c.I.env_of(PROXF), None),
                            [c.I.getattr_value(f, 'proximal')], {})
        sig = Rat.var('sigma')
        P = c.I.call(fac, [sig], {})
        got = coef(apply(c.I, P, vec(T, c.X)))
        want = f.quad.conj().prox(sig, T)
        return got, want
    try:
        for a, (got, want) in explore(once, limit=20):
            if equal(got, want):
                rep.holds('R3', tag, 'prox of the conjugate via Moreau')
            else:
                rep.violation('R3', tag, 'maps t to %r, prox_{sigma f*}(t) '
                              'is %r' % (got, want), PROXF, fn.lineno)
    except Undecided as e:
        rep.undecided('R3', tag, str(e), PROXF, fn.lineno)
    except PyRaise as e:
        rep.violation('R3', tag, 'raises %s' % e.name, PROXF, fn.lineno)


# --------------------------------------------------------------------------
# R4: conjugate pairing table -- norms and unit-ball indicators are
# conjugate with the *dual* exponent, in both directions
def _pairing(rep, model):
    from ..symex import (Interp, Hooks, Inst, ClassV, Rec, Opaque, Builtin,
                         PyRaise, is_scalar, to_rat)
    from fractions import Fraction as Fr
    DEFF_ = 'odl/solvers/functional/default_functionals.py'
    INF = Opaque('inf')

    class PH(Hooks):
        def __init__(self):
            self.made = []

        def on_name(self, interp, name):
            if name == 'float':
                return Builtin('float', lambda v=0: INF if (
                    v == 'inf' or v is INF) else to_rat(v))
            return NotImplemented

        def on_call(self, interp, f, args, kwargs, node):
            if isinstance(f, ClassV) and interp.model.is_subclass(
                    f.ci, 'Functional'):
                r = Rec('made:' + f.ci.name, cls=f.ci.name, args=list(args),
                        kwargs=dict(kwargs))
                self.made.append(r)
                return r
            return NotImplemented

        def on_getattr(self, interp, obj, name):
            from ..symex import NPV
            if obj is NPV and name == 'inf':
                return INF
            if isinstance(obj, Rec) and name in obj.attrs:
                return obj.attrs[name]
            return NotImplemented

    class PI(Interp):
        def equal(self, l, r, node):
            if l is INF or r is INF:
                return l is r
            return Interp.equal(self, l, r, node)

    def dual(p):
        if p is INF:
            return Rat.const(1)
        if p == 1:
            return INF
        return Rat.const(Fr(p) / (Fr(p) - 1))

    def same(a, b):
        if a is INF or b is INF:
            return a is b
        return is_scalar(a) and is_scalar(b) and (to_rat(a) - to_rat(
            b)).is_zero()

    EXPS = [Fr(1), Fr(2), INF, Fr(3), Fr(3, 2)]
    dom = Rec('domain')

    def ex(p):
        return p if p is INF else Rat.const(p)

    def single(cls, attrs_of, partner, exps_of):
        """attrs_of(p...) -> instance attrs; exps_of(record) -> exponents
        handed to the partner constructor."""
        ci = model.get(cls)
        if ci is None:
            raise AnalysisError('anchor vanished: %s' % cls)
        return ci

    table = []
    # (class, number of exponents, attrs builder, partner, extractor)
    def a_lp(p):
        return {'exponent': ex(p[0])}

    def a_group(p):
        return {'pointwise_norm': Rec('PointwiseNorm', exponent=ex(p[0]))}

    def a_nuc(p):
        return {'outernorm': Rec('LpNorm', exponent=ex(p[0])),
                'pwisenorm': Rec('PointwiseNorm', exponent=ex(p[1]))}

    def a_inuc(p):
        return {'_IndicatorNuclearNormUnitBall__norm': Rec(
            'NuclearNorm', outernorm=Rec('LpNorm', exponent=ex(p[0])),
            pwisenorm=Rec('PointwiseNorm', exponent=ex(p[1])))}

    def x_kw(r, n):
        a = list(r.attrs['args'][1:])
        kw = r.attrs['kwargs']
        if n == 1:
            return [kw['exponent'] if 'exponent' in kw else (
                a[0] if a else None)]
        names = ['outer_exp', 'singular_vector_exp']
        return [kw[names[i]] if names[i] in kw else (
            a[i] if i < len(a) else None) for i in range(2)]

    table = [
        ('LpNorm', 1, a_lp, 'IndicatorLpUnitBall'),
        ('IndicatorLpUnitBall', 1, a_lp, 'LpNorm'),
        ('GroupL1Norm', 1, a_group, 'IndicatorGroupL1UnitBall'),
        ('IndicatorGroupL1UnitBall', 1, a_group, 'GroupL1Norm'),
        ('NuclearNorm', 2, a_nuc, 'IndicatorNuclearNormUnitBall'),
        ('IndicatorNuclearNormUnitBall', 2, a_inuc, 'NuclearNorm'),
    ]
    n = 0
    for cls, nexp, mk, partner in table:
        ci = model.get(cls)
        if ci is None or model.lookup(ci, 'convex_conj')[1] is None:
            raise AnalysisError('anchor vanished: %s.convex_conj' % cls)
        import itertools as _it
        for ps in _it.product(EXPS, repeat=nexp):
            tag = '%s[%s].convex_conj' % (cls, ','.join(
                'inf' if p is INF else str(p) for p in ps))
            n += 1
            try:
                h = PH()
                I = PI(model, {}, h)
                inst = Inst(ci)
                inst.attrs.update(mk(ps))
                inst.attrs['_Operator__domain'] = dom
                r = I.getattr_value(inst, 'convex_conj')
                probs = []
                FIXED = {'L1Norm': Rat.const(1), 'L2Norm': Rat.const(2)}
                if isinstance(r, Rec) and partner == 'LpNorm' and \
                        r.attrs.get('cls') in FIXED:
                    # the fixed-exponent subclasses of LpNorm
                    if not same(FIXED[r.attrs['cls']], dual(ps[0])):
                        probs.append('conjugate is %s, the dual exponent is '
                                     '%r' % (r.attrs['cls'], dual(ps[0])))
                    elif not r.attrs['args'] or r.attrs['args'][0] is not \
                            dom:
                        probs.append('not on the same space')
                elif not (isinstance(r, Rec) and r.attrs.get('cls') ==
                          partner):
                    probs.append('conjugate is %r, expected a %s'
                                 % (r, partner))
                else:
                    if not r.attrs['args'] or r.attrs['args'][0] is not dom:
                        if r.attrs['kwargs'].get('space') is not dom:
                            probs.append('not on the same space')
                    got = x_kw(r, nexp)
                    for g, p in zip(got, ps):
                        if g is None or not same(g, dual(p)):
                            probs.append(
                                'exponent %r handed on for p = %s, the dual '
                                'exponent is %r' % (
                                    g, 'inf' if p is INF else p, dual(p)))
                if probs:
                    rep.violation('R4', cls + '.convex_conj', '%s: %s'
                                  % (tag, probs[0]), DEFF_,
                                  model.lookup(ci, 'convex_conj')[1].lineno)
                else:
                    rep.holds('R4', tag, 'conjugate %s with the dual '
                              'exponent' % partner)
            except Undecided as e:
                rep.undecided('R4', tag, str(e), DEFF_)
            except PyRaise as e:
                rep.violation('R4', cls + '.convex_conj', '%s: raises %s'
                              % (tag, e.name), DEFF_)
    # prior-carrying pairs
    for cls, partner in (('KullbackLeibler', 'KullbackLeiblerConvexConj'),
                         ('KullbackLeiblerConvexConj', 'KullbackLeibler'),
                         ('KullbackLeiblerCrossEntropy',
                          'KullbackLeiblerCrossEntropyConvexConj'),
                         ('KullbackLeiblerCrossEntropyConvexConj',
                          'KullbackLeiblerCrossEntropy')):
        ci = model.get(cls)
        tag = cls + '.convex_conj'
        n += 1
        try:
            h = PH()
            I = PI(model, {}, h)
            inst = Inst(ci)
            prior = Rec('prior')
            inst.attrs['_%s__prior' % cls] = prior
            inst.attrs['_Operator__domain'] = dom
            r = I.getattr_value(inst, 'convex_conj')
            ok = isinstance(r, Rec) and r.attrs.get('cls') == partner and \
                r.attrs['args'][:1] == [dom] and (
                    prior in r.attrs['args'] or prior in
                    r.attrs['kwargs'].values())
            if ok:
                rep.holds('R4', tag, 'conjugate %s, same space and prior'
                          % partner)
            else:
                rep.violation('R4', tag, 'conjugate is %r' % (r,), DEFF_)
        except Undecided as e:
            rep.undecided('R4', tag, str(e), DEFF_)
    rep.floor('R4', 'conjugate pairs', n, 70)
