"""C03, evaluated tier: the operator instances of the evaluated tiers of C05
(linear operators), C06 (nonlinear operators) and C09 (functionals) are called
on model spaces

  * out of place: the input keeps its entries;
  * in place on an output holding arbitrary symbols: the very output object
    is returned (or None), it holds the out-of-place values -- none of its
    previous contents --, and the input keeps its entries.

All comparisons are identities in the symbolic entries, weights and
parameters."""
from __future__ import annotations

import ast

from ..core import Undecided, AnalysisError
from ..forks import Fork
from ..ratfun import Rat
from ..symex import PyRaise, to_rat
from ..namodel import NA
from ..spacemodel import NotAnElement
from ..spacemodel import (SMInterp, NSpace, NPSpace, NField, NElem, NPElem,
                          sym_elem, garbage_elem, flat)
from .. import posalg as PA
from .c05b import witness, _where

WIT = [witness(35), witness(36)]


def _instances(model):
    from . import c05b, c06b, c09b
    S = c05b.spaces()
    for name, b in c05b.builders(model).items():
        yield 'linear', name, c05b.H5, (lambda I, b=b: b(I, S))
    # the operators returned as adjoints are operators too (closure classes
    # such as ResizingOperatorAdjoint exist only there)
    def adj(b):
        def build(I):
            try:
                return I.getattr_value(b(I, S), 'adjoint')
            except PyRaise:
                return None          # no adjoint: C05 decides that
        return build
    for name, b in c05b.builders(model).items():
        yield 'adjoint', name, c05b.H5, adj(b)
    for name, b in c06b.builders(model).items():
        yield 'nonlinear', name, c06b.H9, b
    for name, b in c09b.builders(model).items():
        yield 'functional', name, c09b.H9, b


def _poisoned(r):
    def walk(x):
        for v in x.vars():
            if isinstance(v, str) and v.startswith(('uninit', 'garbage')):
                return True
            if isinstance(v, tuple):
                for z in v[1:]:
                    if hasattr(z, 'vars') and walk(z):
                        return True
        return False
    return walk(r)


def evaluate(model, Hcls, build):
    H = Hcls()
    I = SMInterp(model, {}, H)
    A = build(I)
    if A is None:
        return None
    dom = I.getattr_value(A, 'domain')
    ran = I.getattr_value(A, 'range')

    def pt(space, name):
        if isinstance(space, NField):
            return Rat.var(name)
        return sym_elem(space, name)

    def ent(space, v):
        if isinstance(space, NField):
            return [PA.ired(to_rat(v))]
        if isinstance(v, NA):
            v = H.element(I, space, v)
        return flat(v)
    probs = []
    ref = ent(dom, pt(dom, 'x'))
    x = pt(dom, 'x')
    y1 = I.call(A, [x], {})
    y1e = ent(ran, y1)
    if not isinstance(dom, NField):
        if not _same(ent(dom, x), ref):
            probs.append('the out-of-place call modifies its input')
    if isinstance(ran, NField) or isinstance(dom, NField):
        return probs, len(y1e), False
    # in place, the output holding arbitrary previous contents
    x = pt(dom, 'x')
    out = garbage_elem(ran)
    try:
        r = I.call(A, [x], {'out': out})
    except PyRaise as e:
        probs.append('the in-place call raises %s at `%s`' % (
            e.name, ast.unparse(e.node)[:60] if e.node is not None else '?'))
        return probs, len(y1e), True
    if r is not None and r is not out:
        probs.append('the in-place call returns another object than `out`')
    oe = ent(ran, out)
    if len(oe) != len(y1e):
        probs.append('in-place result has %d entries, out-of-place %d'
                     % (len(oe), len(y1e)))
    else:
        for k, (a, b) in enumerate(zip(oe, y1e)):
            if _poisoned(a) or _poisoned(b):
                probs.append('entry %d of the %s result depends on the '
                             'previous contents of `out` / uninitialised '
                             'memory: %s' % (k, 'in-place' if _poisoned(a)
                                             else 'out-of-place',
                                             _s(a if _poisoned(a) else b)))
                break
            if not PA.same(a, b, WIT):
                probs.append('entry %d of the in-place result is %s, the '
                             'out-of-place value is %s' % (k, _s(a), _s(b)))
                break
    if not _same(ent(dom, x), ref):
        probs.append('the in-place call modifies its input')
    return probs, len(y1e), True


def _same(a, b):
    return len(a) == len(b) and all((p - q).is_zero() for p, q in zip(a, b))


def _s(v):
    t = repr(v)
    return t if len(t) <= 160 else t[:160] + ' ...'


def run(rep, model):
    n = nin = 0
    for kind, name, Hcls, b in _instances(model):
        n += 1
        rel, line = _where(model, name.replace('expr:', ''))
        cons = '%s:%s' % (kind, name)
        try:
            from ..core import with_budget
            r = with_budget(lambda: evaluate(model, Hcls, b))
            if r is None:
                n -= 1
                continue
            probs, m, inpl = r
        except (Undecided, Fork) as e:
            rep.undecided('R11', cons, str(e), rel)
            continue
        except PyRaise as e:
            rep.violation('R11', cons, 'raises %s at `%s`' % (
                e.name, ast.unparse(e.node)[:70] if e.node is not None
                else '?'), rel, getattr(e.node, 'lineno', None))
            continue
        except NotAnElement as e:
            rep.violation('R11', cons, 'a call yields no element: %s' % e,
                          rel)
            continue
        nin += 1 if inpl else 0
        if probs:
            rep.violation('R11', cons, '; '.join(probs), rel, line)
        else:
            rep.holds('R11', cons, '%d entries: input untouched%s' % (
                m, ', in-place on an arbitrary output equals out-of-place, '
                'same object returned' if inpl else ''))
    rep.floor('R11', 'evaluated call instances', n, 400)
    rep.floor('R11', 'instances called in place', nin, 280)
