"""C05 -- every exposed adjoint satisfies <Ax, y> = <x, A*y>.
See DESIGN.md section C05 (structural part)."""
from __future__ import annotations

import ast

from ..core import Report, Undecided, AnalysisError
from ..srcmodel import Model
from ..forks import explore
from ..ratfun import Rat
from .. import vs
from ..symex import (Interp, Inst, OpV, Vec, PVec, SpaceV, FieldV, NI,
                     PyRaise, Func)
from ..opalg import OpHooks, make_interp, apply, flags, OPFILE

DOPS = 'odl/operator/default_ops.py'


class Ctx5(object):
    def __init__(self, I, field):
        self.I = I
        self.field = field
        self.X = SpaceV('X', field)
        self.Y = SpaceV('Y', field)
        self.Z = SpaceV('Z', field)
        if field == 'R':
            I.real_scalars.update({'s', 'a', 'b'})
            I.real_vecs.update({'v', 'u', 'w', 'x', 'h', 'm'})
        I.nonzero.extend([Rat.var('s')])

    def lin(self, name, d, r):
        return self.I.opsym(name, d, r, True)

    def nonlin(self, name, d, r):
        return self.I.opsym(name, d, r, False)


# name -> builder(ctx) -> (instance, domain space, range space)
def _builders(model):
    def inst(I, cls, *args, **kw):
        return I.instantiate(model.get(cls), list(args), kw)

    B = {}
    B['OperatorSum'] = lambda c: (inst(
        c.I, 'OperatorSum', c.lin('A', c.X, c.Y), c.lin('B', c.X, c.Y)),
        c.X, c.Y)
    B['OperatorComp'] = lambda c: (inst(
        c.I, 'OperatorComp', c.lin('A', c.Y, c.Z), c.lin('B', c.X, c.Y)),
        c.X, c.Z)
    B['OperatorLeftScalarMult'] = lambda c: (inst(
        c.I, 'OperatorLeftScalarMult', c.lin('A', c.X, c.Y), Rat.var('s')),
        c.X, c.Y)
    B['OperatorRightScalarMult'] = lambda c: (inst(
        c.I, 'OperatorRightScalarMult', c.lin('A', c.X, c.Y), Rat.var('s')),
        c.X, c.Y)
    B['OperatorLeftVectorMult'] = lambda c: (inst(
        c.I, 'OperatorLeftVectorMult', c.lin('A', c.X, c.Y),
        Vec(vs.sym('v'), c.Y)), c.X, c.Y)
    B['OperatorRightVectorMult'] = lambda c: (inst(
        c.I, 'OperatorRightVectorMult', c.lin('A', c.X, c.Y),
        Vec(vs.sym('v'), c.X)), c.X, c.Y)
    B['ScalingOperator'] = lambda c: (inst(
        c.I, 'ScalingOperator', c.X, Rat.var('s')), c.X, c.X)
    B['IdentityOperator'] = lambda c: (inst(
        c.I, 'IdentityOperator', c.X), c.X, c.X)
    B['MultiplyOperator'] = lambda c: (inst(
        c.I, 'MultiplyOperator', Vec(vs.sym('m'), c.X)), c.X, c.X)
    B['ZeroOperator'] = lambda c: (inst(
        c.I, 'ZeroOperator', c.X, c.Y), c.X, c.Y)
    # nested expression: (s * (A + B)) o C  -- exercises the rules together
    def nested(c):
        I = c.I
        A, Bo = c.lin('A', c.Y, c.Z), c.lin('B', c.Y, c.Z)
        C = c.lin('C', c.X, c.Y)
        sm = inst(I, 'OperatorSum', A, Bo)
        sc = inst(I, 'OperatorLeftScalarMult', sm, Rat.var('s'))
        return inst(I, 'OperatorComp', sc, C), c.X, c.Z
    B['nested:(s*(A+B))oC'] = nested
    return B


class Hooks5(OpHooks):
    def on_decide(self, interp, cond, node):
        # `complex(s).imag == 0`: under the True arm the scalar is real
        if cond.rat is not None and cond.key.startswith('eq0:'):
            vars_ = cond.rat.vars()
            im = [v for v in vars_ if isinstance(v, tuple) and v[0] == 'imag']
            if len(vars_) == 1 and im:
                # imag(conj z) = 0 iff imag(z) = 0: decide on the expression
                # with conjugations stripped so both get the same answer
                inner = im[0][1]
                m = {v: Rat.var(v[1]) for v in inner.vars()
                     if isinstance(v, tuple) and len(v) == 2
                     and v[0] == 'conj'}
                base = inner.subs(m) if m else inner
                val = interp.decide('imagzero:%r' % (base,), node)
                if val:
                    interp.real_scalars.update(base.vars())
                return val
        return NotImplemented


def adjoint_instance(model, name, builder, field):
    """Returns list of leaves: dict(got, want, ...)."""
    def once(assume):
        I = Interp(model, assume, Hooks5())
        c = Ctx5(I, field)
        op, dom, ran = builder(c)
        u = Vec(vs.sym('u'), dom)
        w = Vec(vs.sym('w'), ran)
        res = {}
        den = apply(I, op, u)
        try:
            adj = I.getattr_value(op, 'adjoint')
        except PyRaise as e:
            res['outcome'] = 'raises ' + e.name
            return res
        got = apply(I, adj, w)
        want = vs.move(den.val, w.val, I.reg, 'u', I.real_scalars,
                       I.real_vecs)
        # conj of real things is the identity: normalise both sides
        gv = _real_norm(got.val, I)
        wv = _real_norm(want, I)
        res['outcome'] = 'value'
        res['got'], res['want'] = vs.freeze(gv), vs.freeze(wv)
        res['got_show'], res['want_show'] = vs.show(gv), vs.show(wv)
        res['den_show'] = vs.show(den.val)
        # R2: adjoint maps range -> domain
        d, r, lin = flags(I, adj)
        res['adj_dom'], res['adj_ran'], res['adj_lin'] = d, r, lin
        res['dom'], res['ran'] = dom, ran
        # R3: involution  (A*)* acts like A
        try:
            adj2 = I.getattr_value(adj, 'adjoint')
            back = apply(I, adj2, u)
            res['back'] = vs.freeze(_real_norm(back.val, I))
            res['den'] = vs.freeze(_real_norm(den.val, I))
            res['back_show'] = vs.show(back.val)
        except PyRaise as e:
            res['back_err'] = e.name
        return res
    return [r for a, r in explore(once, limit=100)]


def _real_norm(lf, I):
    """Apply conj(z) = z for scalars/vectors declared real."""
    out = {}
    for k, v in lf.items():
        kk = _real_atom(k, I)
        vv = v
        m = {}
        for var in v.vars():
            if isinstance(var, tuple) and len(var) == 2 and \
                    var[0] == 'conj' and var[1] in I.real_scalars:
                m[var] = Rat.var(var[1])
        if m:
            vv = v.subs(m)
        out[kk] = out.get(kk, vs.ZERO) + vv
    return {k: v for k, v in out.items() if not v.is_zero()}


def _real_atom(k, I):
    if k[0] == 'conj' and k[1][0] == 'sym' and k[1][1] in I.real_vecs:
        return k[1]
    if k[0] == 'mul':
        return vs.mul_atoms([_real_atom(f, I) for f in k[1]])
    if k[0] == 'app' and isinstance(k[2], tuple) and k[2] and isinstance(
            k[2][0], str):
        return ('app', k[1], _real_atom(k[2], I))
    return k


def check(ctx):
    rep = Report(
        'C05', ctx, 'other',
        'Structural part.  R1: for every operator-arithmetic class and the '
        'hand-written linear operators of default_ops the object returned '
        'by .adjoint is obtained by symbolic interpretation of the property '
        'body and applied to a symbolic w; the result must equal the formal'
        ' adjoint of the class denotation (derived from its own _call), '
        'computed by moving the operator through the inner product with the'
        ' rules (A+B)*=A*+B*, (AB)*=B*A*, (sA)*=conj(s)A*, (v.A)*=A*.conj(v)'
        ' over real and complex fields.  R2: adjoint.domain == range and '
        'adjoint.range == domain.  R3: (A*)* acts like A.  R8 (evaluated '
        'tier): the default operators (scaling, identity, multiply incl. '
        'field domains, inner product, real / imaginary part, complex '
        'embedding with real, imaginary and general scalars, zero) and '
        'expressions over them are instantiated on small model spaces with '
        'symbolic entries, symbolic constant and per-entry weights, real '
        'and complex dtypes; <A x, y> = <x, A* y> must hold as an identity '
        '(real parts when exactly one space is real) and the adjoint must '
        'map range -> domain.',
        ['CPython ast', 'vector-space and inner-product axioms of the free '
         'algebra; conj(conj z) = z; real symbols self-conjugate'],
        ['adjoints that depend on numerical kernels (resize accumulation, '
         'sampling, interpolation)', 'operators the statement exempts '
         '(resampling, ray transforms, deformation)',
         'FunctionalLeftVectorMult.adjoint (field-valued inner operator)'])
    model = Model(ctx)
    builders = _builders(model)
    n = 0
    for name, b in builders.items():
        cls = name.split(':')[0]
        ci = model.classes.get(cls)
        rel = ci.rel if ci else OPFILE
        line = None
        if ci is not None:
            dc, m = model.lookup(ci, 'adjoint')
            line = getattr(m, 'lineno', None)
            rel = dc.rel if dc else rel
        for field in ('R', 'C'):
            n += 1
            tag = '%s.adjoint[%s]' % (name, field)
            cons = '%s.adjoint' % name
            try:
                leaves = adjoint_instance(model, name, b, field)
            except Undecided as e:
                rep.undecided('R1', tag, str(e), rel, line)
                continue
            except PyRaise as e:
                rep.violation('R1', cons, '%s: raises %s for linear operands'
                              % (tag, e.name), rel, line)
                continue
            for res in leaves:
                if res['outcome'] != 'value':
                    rep.violation('R1', cons, '%s: %s for linear operands'
                                  % (tag, res['outcome']), rel, line)
                    continue
                if res['got'] != res['want']:
                    rep.violation(
                        'R1', cons,
                        '%s: A(u) = %s; the returned adjoint maps w to %s, '
                        'the formal adjoint is %s'
                        % (tag, res['den_show'], res['got_show'],
                           res['want_show']), rel, line)
                else:
                    rep.holds('R1', tag, 'A* w = %s' % res['want_show'])
                if res['adj_dom'] != res['ran'] or \
                        res['adj_ran'] != res['dom']:
                    rep.violation(
                        'R2', cons,
                        '%s: adjoint maps %r -> %r, expected %r -> %r'
                        % (tag, res['adj_dom'], res['adj_ran'], res['ran'],
                           res['dom']), rel, line)
                else:
                    rep.holds('R2', tag, 'adjoint : range -> domain')
                if 'back' in res:
                    if res['back'] != res['den']:
                        rep.violation(
                            'R3', cons, '%s: adjoint.adjoint maps u to %s, '
                            'the operator to %s' % (tag, res['back_show'],
                                                    res['den_show']), rel,
                            line)
                    else:
                        rep.holds('R3', tag, '(A*)* = A')
                elif 'back_err' in res:
                    rep.violation('R3', cons, '%s: adjoint.adjoint raises %s'
                                  % (tag, res['back_err']), rel, line)
    rep.count('adjoint_instances', n)
    rep.floor('R1', 'adjoint instances', n, 20)
    from . import c05b
    c05b.run(rep, model)
    # R9w: adjoints of the orthogonal wavelet transforms (the inverse scaled
    # by the whole cell volume, for every subset of transformed axes): the
    # rule of C18-R9, an adjoint statement, evaluated here as well
    from . import c18
    c18._wavelet_adjoint(rep, model, rule='R9w')
    return rep
