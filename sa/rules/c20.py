"""C20 -- equality, hashing, membership and element creation are coherent.
See DESIGN.md section C20 (E5 eq/hash key analysis)."""
from __future__ import annotations

import ast

from ..core import Report, Undecided, AnalysisError
from ..srcmodel import Model, bind_call, return_exprs
from ..paths import walk_paths, eval_bool, strip_doc
from ..forks import Fork

FILES = ['odl/set/sets.py', 'odl/set/domain.py', 'odl/set/space.py',
         'odl/space/base_tensors.py', 'odl/space/npy_tensors.py',
         'odl/space/pspace.py', 'odl/space/weighting.py',
         'odl/discr/grid.py', 'odl/discr/partition.py',
         'odl/discr/discr_space.py', 'odl/space/space_utils.py']

# Single named exceptions (rule, class) -> reason
EXCEPTIONS = {
    ('R4', 'UniversalSpace'):
        'cannot be constructed (LinearSpace.__init__ rejects the field '
        'UniversalSet()), so its unhashable/asymmetric __eq__ is unreachable'
        ' -- printed as a diagnostic (F13)',
}


# --------------------------------------------------------------------------
# atoms of an __eq__ body
class Atom(object):
    def __init__(self, kind, **kw):
        self.kind = kind
        self.__dict__.update(kw)

    def __repr__(self):
        d = dict(self.__dict__)
        d.pop('kind')
        d.pop('node', None)
        return '%s%s' % (self.kind, d if d else '')


def _is_name(n, name):
    return isinstance(n, ast.Name) and n.id == name


def _attr_of(n, who):
    """``who.attr`` / ``getattr(who, 'attr', d)`` / ``len(who)`` ->
    attribute name, else None."""
    if isinstance(n, ast.Attribute) and _is_name(n.value, who):
        return n.attr
    if isinstance(n, ast.Call) and _is_name(n.func, 'getattr') and \
            len(n.args) >= 2 and _is_name(n.args[0], who) and \
            isinstance(n.args[1], ast.Constant):
        return n.args[1].value
    if isinstance(n, ast.Call) and _is_name(n.func, 'len') and \
            len(n.args) == 1 and _is_name(n.args[0], who):
        return '__len__'
    return None


def _type_of(n, who):
    return (isinstance(n, ast.Call) and _is_name(n.func, 'type')
            and len(n.args) == 1 and _is_name(n.args[0], who))


def classify(n, S, O):
    """Classify one conjunct of an ``__eq__`` return expression."""
    # other is self
    if isinstance(n, ast.Compare) and len(n.ops) == 1:
        l, r, op = n.left, n.comparators[0], n.ops[0]
        if isinstance(op, ast.Is) and {ast.unparse(l), ast.unparse(r)} == \
                {S, O}:
            return Atom('identity', node=n)
        if isinstance(op, (ast.Is, ast.Eq)) and (
                (_type_of(l, S) and _type_of(r, O))
                or (_type_of(l, O) and _type_of(r, S))):
            return Atom('type', node=n)
        # attribute comparison
        for a, b in ((l, r), (r, l)):
            sa, ob = _attr_of(a, S), _attr_of(b, O)
            if sa is not None and ob is not None:
                mode = {ast.Eq: 'eq', ast.Is: 'is'}.get(type(op))
                if mode is None:
                    break
                if sa != ob:
                    return Atom('asym', attr=sa, other_attr=ob, node=n)
                return Atom('cmp', attr=sa, mode=mode, node=n)
    if isinstance(n, ast.Call):
        fn = ast.unparse(n.func)
        if fn == 'isinstance' and len(n.args) == 2 and _is_name(n.args[0], O):
            return Atom('isinstance', cls=ast.unparse(n.args[1]), node=n)
        if fn in ('np.all', 'all') and len(n.args) == 1:
            inner = n.args[0]
            if isinstance(inner, ast.Compare):
                a = classify(inner, S, O)
                if a.kind == 'cmp' and a.mode == 'eq':
                    return Atom('cmp', attr=a.attr,
                                mode='all_eq' if fn == 'np.all'
                                else 'all_eq_py', node=n)
            if isinstance(inner, ast.GeneratorExp) and \
                    len(inner.generators) == 1:
                g = inner.generators[0]
                it = g.iter
                # all(x == y for x, y in zip(self.a, other.a))
                # all(np.array_equal(x, y) for x, y in zip(...))
                if isinstance(it, ast.Call) and _is_name(it.func, 'zip') \
                        and len(it.args) == 2:
                    sa = _attr_of(it.args[0], S) or _attr_of(it.args[1], S)
                    ob = _attr_of(it.args[0], O) or _attr_of(it.args[1], O)
                    if sa and ob and sa == ob and isinstance(
                            g.target, ast.Tuple):
                        names = {e.id for e in g.target.elts
                                 if isinstance(e, ast.Name)}
                        elt = inner.elt
                        if isinstance(elt, ast.Compare) and isinstance(
                                elt.ops[0], ast.Eq) and {
                                    ast.unparse(elt.left),
                                    ast.unparse(elt.comparators[0])} == names:
                            return Atom('cmp', attr=sa, mode='zip_eq',
                                        node=n)
                        if isinstance(elt, ast.Call) and ast.unparse(
                                elt.func) == 'np.array_equal' and {
                                    ast.unparse(x) for x in elt.args} == names:
                            return Atom('cmp', attr=sa, mode='array_equal',
                                        node=n)
                # all(x in other for x in self) and variants
                elt = inner.elt
                if isinstance(elt, ast.Compare) and isinstance(
                        elt.ops[0], ast.In) and isinstance(g.target,
                                                           ast.Name) \
                        and _is_name(elt.left, g.target.id):
                    return Atom('member', iter=ast.unparse(it),
                                container=ast.unparse(elt.comparators[0]),
                                node=n)
        if fn == 'np.array_equal' and len(n.args) == 2:
            for a, b in ((n.args[0], n.args[1]), (n.args[1], n.args[0])):
                sa, ob = _attr_of(a, S), _attr_of(b, O)
                if sa and ob and sa == ob:
                    return Atom('cmp', attr=sa, mode='array_equal', node=n)
        # super().__eq__(other)
        if isinstance(n.func, ast.Attribute) and n.func.attr == '__eq__' and \
                isinstance(n.func.value, ast.Call) and _is_name(
                    n.func.value.func, 'super'):
            return Atom('super', node=n)
    if isinstance(n, ast.Compare) and len(n.ops) == 1 and isinstance(
            n.ops[0], (ast.In, ast.NotIn)):
        return Atom('in', text=ast.unparse(n), node=n)
    return Atom('opaque', text=ast.unparse(n), node=n)


def conjuncts(expr):
    if isinstance(expr, ast.BoolOp) and isinstance(expr.op, ast.And):
        out = []
        for v in expr.values:
            out.extend(conjuncts(v))
        return out
    return [expr]


class EqModel(object):
    """__eq__ as:  fastpath  or  (conjunction of atoms)."""

    def __init__(self):
        self.fastpath = False
        self.atoms = []
        self.paths = []
        self.opaque = []
        self.abstract = False


def eq_model(model, ci, fdef, depth=0):
    """Extract the EqModel of ``fdef`` (an ``__eq__`` defined in class ci)."""
    em = EqModel()
    S = fdef.args.args[0].arg
    O = fdef.args.args[1].arg
    body = strip_doc(fdef.body)
    if len(body) == 1 and isinstance(body[0], ast.Raise):
        em.abstract = True
        return em
    paths = walk_paths(body)
    true_paths = []
    for p in paths:
        term = p[-1]
        if term[0] != 'return':
            if term[0] == 'raise':
                continue
            raise Undecided('__eq__ path without return')
        rv = term[1].value
        assumes = [(e[1], e[2]) for e in p if e[0] == 'assume']
        if any(e[0] == 'stmt' and not isinstance(e[1], ast.Expr) for e in p):
            raise Undecided('statement other than if/return in __eq__')
        if isinstance(rv, ast.Constant) and rv.value is False:
            continue
        conj = []
        for t, val in assumes:
            conj.append((t, val))
        if isinstance(rv, ast.Constant) and rv.value is True:
            true_paths.append((conj, []))
        else:
            true_paths.append((conj, conjuncts(rv)))
    # Each true-path: assumptions + returned conjuncts.  Recognise the
    # identity fast path; everything else must be a single "main" path.
    main = []
    for conj, ret in true_paths:
        pos = []
        for t, val in conj:
            if val:
                pos.extend(conjuncts(t))
            else:
                # negated guard: `not isinstance(..) or other.space != ..`
                pos.extend(_negate(t))
        atoms = [classify(c, S, O) for c in pos + ret]
        if any(a.kind == 'identity' for a in atoms) and not ret:
            em.fastpath = True
            continue
        main.append(atoms)
    if not main:
        raise Undecided('__eq__ has no non-trivial true path')
    if len(main) > 4:
        raise Undecided('__eq__ has %d non-trivial true paths' % len(main))
    em.paths = []
    for atoms in main:
        path = []
        for a in atoms:
            if a.kind == 'not_identity':
                continue
            if a.kind == 'super':
                sup_ci, sup_fn = _next_in_mro(model, ci, '__eq__')
                if sup_fn is None:
                    raise Undecided('super().__eq__ does not resolve')
                sub = eq_model(model, sup_ci, sup_fn, depth + 1)
                if sub.abstract:
                    raise Undecided('super().__eq__ is abstract')
                if len(sub.paths) != 1:
                    raise Undecided('super().__eq__ has several true paths')
                path.extend(sub.paths[0])
                em.fastpath = em.fastpath or sub.fastpath
            else:
                path.append(a)
        em.paths.append(path)
    # the atoms every true path establishes come first; rules that need
    # "some comparison exists" look at the union
    em.atoms = list(em.paths[0])
    for pth in em.paths[1:]:
        for a in pth:
            if not any(b.kind == a.kind and b.__dict__.get('attr') ==
                       a.__dict__.get('attr') and b.__dict__.get('mode') ==
                       a.__dict__.get('mode') for b in em.atoms):
                em.atoms.append(a)
    return em


def _negate(t):
    """Atoms known to hold when test ``t`` is False."""
    if isinstance(t, ast.UnaryOp) and isinstance(t.op, ast.Not):
        return conjuncts(t.operand)
    if isinstance(t, ast.BoolOp) and isinstance(t.op, ast.Or):
        out = []
        for v in t.values:
            out.extend(_negate(v))
        return out
    if isinstance(t, ast.Compare) and len(t.ops) == 1:
        inv = {ast.NotEq: ast.Eq, ast.IsNot: ast.Is, ast.NotIn: ast.In,
               ast.Is: ast.IsNot, ast.Eq: ast.NotEq, ast.In: ast.NotIn}
        op = type(t.ops[0])
        if op in inv:
            new = ast.Compare(left=t.left, ops=[inv[op]()],
                              comparators=t.comparators)
            if op in (ast.Is,) and isinstance(
                    t.comparators[0], ast.Constant) is False and \
                    {ast.unparse(t.left), ast.unparse(t.comparators[0])} \
                    == {'self', 'other'}:
                return [ast.Constant(value='__not_identity__')]
            return [ast.fix_missing_locations(ast.copy_location(new, t))]
    return [ast.UnaryOp(op=ast.Not(), operand=t)]


def _next_in_mro(model, ci, name):
    m = model.mro(ci)
    for c in m[1:]:
        if name in c.methods:
            return c, c.methods[name]
    return None, None


# --------------------------------------------------------------------------
class HashKey(object):
    def __init__(self):
        self.has_type = False
        self.attrs = {}          # attr -> set of transforms
        self.unhashable = []     # (text, lineno)
        self.opaque = []
        self.raw_bytes = set()   # attrs hashed through raw .tobytes()
        self.by_identity = set()  # attrs hashed through id()


def _resolve_local(fdef, name):
    for s in fdef.body:
        if isinstance(s, ast.Assign) and len(s.targets) == 1 and _is_name(
                s.targets[0], name):
            return s.value
    return None


def hash_key(model, ci, fdef):
    hk = HashKey()
    S = fdef.args.args[0].arg
    rets = return_exprs(fdef)
    if len(rets) != 1:
        raise Undecided('__hash__ with %d returns' % len(rets))
    rv = rets[0].value
    if not (isinstance(rv, ast.Call) and _is_name(rv.func, 'hash')
            and len(rv.args) == 1):
        raise Undecided('__hash__ does not return hash(<key>)')
    key = rv.args[0]
    elems = key.elts if isinstance(key, ast.Tuple) else [key]

    def elem(e, transforms=()):
        if isinstance(e, ast.Name) and e.id != S:
            d = _resolve_local(fdef, e.id)
            if d is not None:
                return elem(d, transforms)
            if e.id in model.classes:
                return          # a fixed class object: constant
            hk.opaque.append(ast.unparse(e))
            return
        if _type_of(e, S):
            hk.has_type = True
            return
        if isinstance(e, ast.Attribute) and isinstance(
                e.value, ast.Name) and e.value.id == S and e.attr == \
                '__class__':
            hk.has_type = True
            return
        a = _attr_of(e, S)
        if a is not None:
            hk.attrs.setdefault(a, set()).update(transforms)
            return
        if isinstance(e, ast.Call):
            fn = e.func
            # super().__hash__()
            if isinstance(fn, ast.Attribute) and fn.attr == '__hash__' and \
                    isinstance(fn.value, ast.Call) and _is_name(
                        fn.value.func, 'super'):
                sup_ci, sup_fn = _next_in_mro(model, ci, '__hash__')
                if sup_fn is None or not isinstance(sup_fn,
                                                    ast.FunctionDef):
                    raise Undecided('super().__hash__ does not resolve')
                sub = hash_key(model, sup_ci, sup_fn)
                hk.has_type = hk.has_type or sub.has_type
                for k, v in sub.attrs.items():
                    hk.attrs.setdefault(k, set()).update(v)
                hk.unhashable.extend(sub.unhashable)
                hk.opaque.extend(sub.opaque)
                hk.raw_bytes |= sub.raw_bytes
                hk.by_identity |= sub.by_identity
                return
            if isinstance(fn, ast.Attribute) and fn.attr == 'tobytes' and \
                    not e.args:
                base = fn.value
                a2 = _attr_of(base, S)
                if a2 is not None:
                    hk.raw_bytes.add(a2)
                    hk.attrs.setdefault(a2, set()).add('tobytes')
                    return
                if isinstance(base, ast.Name) and transforms and \
                        transforms[-1][0] == 'iter':
                    # element of an iterated attribute
                    hk.raw_bytes.add(transforms[-1][1])
                    return
                # (x + 0.0).tobytes() etc.: value-normalised bytes
                for sub in ast.walk(base):
                    a3 = _attr_of(sub, S)
                    if a3 is not None:
                        hk.attrs.setdefault(a3, set()).add('normbytes')
                return
            fname = ast.unparse(fn)
            if fname in ('set', 'list', 'dict') and len(e.args) <= 1:
                hk.unhashable.append((ast.unparse(e), e.lineno))
                for sub in e.args:
                    elem(sub, transforms + (fname,))
                return
            if fname in ('tuple', 'frozenset', 'str', 'repr', 'float',
                         'int', 'hash', 'id') and len(e.args) == 1:
                if fname == 'id':
                    a5 = _attr_of(e.args[0], S)
                    if a5 is not None:
                        hk.by_identity.add(a5)
                return elem(e.args[0], transforms + (fname,))
        if isinstance(e, (ast.List, ast.Set, ast.Dict, ast.ListComp,
                          ast.SetComp, ast.DictComp)):
            hk.unhashable.append((ast.unparse(e), e.lineno))
            return
        if isinstance(e, ast.GeneratorExp) and len(e.generators) == 1:
            g = e.generators[0]
            a4 = _attr_of(g.iter, S)
            if a4 is not None:
                hk.attrs.setdefault(a4, set()).add('iter')
                return elem(e.elt, transforms + (('iter', a4),))
        if isinstance(e, ast.Tuple):
            for x in e.elts:
                elem(x, transforms)
            return
        if isinstance(e, ast.Constant):
            return
        hk.opaque.append(ast.unparse(e))

    for e in elems:
        elem(e)
    return hk


# --------------------------------------------------------------------------
def _iter_attrs(model, ci):
    """Attributes of self that iteration / len / membership of an instance
    reads (one level): from __iter__, __getitem__, __len__."""
    out = {}
    for name in ('__iter__', '__getitem__', '__len__', '__contains__'):
        c, m = model.lookup(ci, name)
        if isinstance(m, ast.FunctionDef):
            S = m.args.args[0].arg
            out[name] = {n.attr for n in ast.walk(m)
                         if isinstance(n, ast.Attribute)
                         and _is_name(n.value, S)}
    return out


def _contains_is_membership_in(model, ci, attr):
    """Is ``x in self`` implemented as ``x in self.<attr>``?"""
    c, m = model.lookup(ci, '__contains__')
    if not isinstance(m, ast.FunctionDef):
        return False
    S = m.args.args[0].arg
    O = m.args.args[1].arg
    rets = return_exprs(m)
    if len(rets) != 1:
        return False
    rv = rets[0].value
    return (isinstance(rv, ast.Compare) and len(rv.ops) == 1
            and isinstance(rv.ops[0], ast.In) and _is_name(rv.left, O)
            and _attr_of(rv.comparators[0], S) == attr)


def _leaf_users(model, eq_ci):
    """Concrete classes whose effective __eq__ is the one defined in eq_ci."""
    out = []
    for c in model.classes.values():
        if not model.is_subclass(c, eq_ci.name):
            continue
        d, m = model.lookup(c, '__eq__')
        if d is not eq_ci:
            continue
        subs = [x for x in model.classes.values()
                if x is not c and model.is_subclass(x, c.name)]
        if not subs:
            out.append(c)
    return out


# --------------------------------------------------------------------------
def check(ctx):
    rep = Report(
        'C20', ctx, 'proof',
        'For every class of the anchored files that defines __eq__ or '
        '__hash__ the attribute sets, comparison modes and type tests of '
        'both methods are extracted through super() chains and compared: '
        'hash key is a function of what __eq__ compares on every path that '
        'returns True (R1), value '
        'comparison is not hashed by representation (R1c), broadcasting '
        'comparisons are shape-guarded (R1d), a type in the key needs type '
        'identity in __eq__ (R2), the key is hashable (R3), __eq__ comes '
        'with __hash__ (R4), __eq__ is reflexive and its type test '
        'symmetric (R5), membership is space equality and element() returns'
        ' members unchanged (R6), derived-space constructors forward every '
        'identity-defining attribute (R7).',
        ['CPython ast', 'Python data model: a class defining __eq__ without '
         '__hash__ is unhashable; hash() of set/list/dict raises',
         'attribute == is reflexive for the attribute types used (tuples, '
         'dtypes, spaces; NaN-valued floats excepted)'],
        ['transitivity on floating-point data',
         'array-like conversion of arbitrary inputs in element()',
         'element indexing commutes with asarray (NumPy semantics)'])
    model = Model(ctx)
    scope = [c for c in model.classes.values() if c.rel in FILES
             and ('__eq__' in c.methods or '__hash__' in c.methods
                  or '__hash__' in c.class_attrs)]
    scope.sort(key=lambda c: (c.rel, c.node.lineno))
    rep.floor('R1', 'classes defining __eq__/__hash__', len(scope), 30)
    rep.count('classes', len(scope))

    eqs, hks = {}, {}
    for ci in scope:
        # effective methods
        eci, efn = model.lookup(ci, '__eq__')
        hci, hfn = model.lookup(ci, '__hash__')
        if isinstance(efn, ast.FunctionDef):
            try:
                eqs[ci.name] = eq_model(model, eci, efn)
            except Undecided as e:
                rep.undecided('R1', ci.name + '.__eq__', str(e), eci.rel,
                              efn.lineno)
        if isinstance(hfn, ast.FunctionDef):
            try:
                hks[ci.name] = hash_key(model, hci, hfn)
            except Undecided as e:
                rep.undecided('R1', ci.name + '.__hash__', str(e), hci.rel,
                              hfn.lineno)

    for ci in scope:
        eci, efn = model.lookup(ci, '__eq__')
        hci, hfn = model.lookup(ci, '__hash__')
        em, hk = eqs.get(ci.name), hks.get(ci.name)
        is_element = model.is_subclass(ci, 'LinearSpaceElement')

        # ---- R4: __eq__ without __hash__ ----------------------------------
        if '__eq__' in ci.methods and '__hash__' not in ci.methods and \
                '__hash__' not in ci.class_attrs and not is_element and \
                not (em is not None and em.abstract):
            if ('R4', ci.name) in EXCEPTIONS:
                rep.diagnostic('%s defines __eq__ without __hash__ (%s)'
                               % (ci.name, EXCEPTIONS[('R4', ci.name)]))
                rep.holds('R4', ci.name, 'excepted: ' +
                          EXCEPTIONS[('R4', ci.name)])
            else:
                rep.violation('R4', ci.name, 'defines __eq__ but no '
                              '__hash__: instances are unhashable', ci.rel,
                              ci.methods['__eq__'].lineno)
            continue
        if is_element:
            hv = ci.class_attrs.get('__hash__')
            d, v = model.lookup(ci, '__hash__')
            if isinstance(v, ast.FunctionDef):
                rep.violation('R4', ci.name, 'mutable element type defines '
                              '__hash__', d.rel, v.lineno)
            else:
                rep.holds('R4', ci.name, 'element type: unhashable by '
                          'design')
            # reflexivity of element equality: identity fast path
            if em is not None:
                if em.fastpath:
                    rep.holds('R5', ci.name + '.__eq__',
                              'identity fast path')
                else:
                    _reflexive(rep, model, ci, eci, efn, em)
            continue
        if em is None or hk is None:
            continue
        if em.abstract:
            continue

        # ---- R1: hash subset of eq, on every path that returns True ---------
        iters = _iter_attrs(model, ci)
        cons = ci.name + '.__hash__'
        worst = None
        all_eq_attrs = set()
        for pth in (em.paths or [em.atoms]):
            eq_attrs = {a.attr for a in pth if a.kind == 'cmp'}
            for a in pth:
                if a.kind == 'member':
                    # `for x in self` / `x in other` read what __iter__ /
                    # __getitem__ / __contains__ read
                    for k in ('__iter__', '__getitem__', '__contains__'):
                        eq_attrs |= iters.get(k, set())
                    # explicit attribute iteration `for x in self.sets`
                    for txt in (a.iter, a.container):
                        if '.' in txt:
                            eq_attrs.add(txt.split('.', 1)[1])
                if a.kind == 'cmp' and a.attr == '__len__':
                    eq_attrs |= iters.get('__len__', set())
            # private-name aliases: self.__x read via property x
            eq_attrs |= {x.split('__')[-1] for x in eq_attrs if '__' in x}
            all_eq_attrs |= eq_attrs
            extra = {a for a in hk.attrs if a not in eq_attrs
                     and a.split('__')[-1] not in eq_attrs}
            if extra and worst is None:
                worst = (extra, eq_attrs)
        eq_attrs = all_eq_attrs
        if worst:
            extra, pattrs = worst
            rep.violation(
                'R1', cons,
                'hash key reads attribute(s) %s that __eq__ (defined in %s) '
                'does not compare%s: equal objects can hash differently'
                % (sorted(extra), eci.name,
                   ' on the path that compares only %s' % sorted(pattrs)
                   if len(em.paths) > 1 else ''), hci.rel, hfn.lineno)
        elif hk.opaque:
            rep.undecided('R1', cons, 'unrecognised key component(s) %s'
                          % hk.opaque, hci.rel, hfn.lineno)
        else:
            rep.holds('R1', cons, 'key attributes %s are compared by '
                      '__eq__ %s' % (sorted(hk.attrs), sorted(eq_attrs)))

        # ---- R1c: value comparison hashed by representation -----------------
        for a in em.atoms:
            if a.kind == 'cmp' and a.attr in hk.raw_bytes:
                if a.mode == 'is':
                    rep.holds('R1c', cons + ':' + a.attr,
                              'byte key of an attribute compared by '
                              'identity')
                else:
                    rep.violation(
                        'R1c', cons,
                        '%s is compared by value (%s) but hashed through '
                        'tobytes(): -0.0 == 0.0 while the byte strings '
                        'differ, so equal objects hash differently'
                        % (a.attr, a.mode), hci.rel, hfn.lineno)

        for a in em.atoms:
            if a.kind == 'cmp' and a.attr in hk.by_identity:
                if a.mode == 'is':
                    rep.holds('R1c', cons + ':' + a.attr,
                              'identity key of an attribute compared by '
                              'identity')
                else:
                    rep.violation(
                        'R1c', cons,
                        '%s is compared by value (%s) but hashed through '
                        'id(): two equal objects that are not the same '
                        'object (a bound method looked up twice, an equal '
                        'callable instance) hash differently'
                        % (a.attr, a.mode), hci.rel, hfn.lineno)

        # ---- R1d: broadcasting comparisons need a shape guard ---------------
        bc = [a for a in em.atoms if a.kind == 'cmp' and a.mode == 'all_eq']
        if bc:
            guard = any(a.kind == 'cmp' and (
                a.attr in ('shape', 'ndim', '__len__', 'size')
                or a.mode == 'array_equal') and a.mode != 'all_eq'
                for a in em.atoms)
            econs = ci.name + '.__eq__'
            if guard:
                rep.holds('R1d', econs, 'np.all(==) dominated by a '
                          'shape/ndim/len comparison')
            else:
                rep.violation(
                    'R1d', econs,
                    'np.all(self.%s == other.%s) broadcasts and no '
                    'shape/ndim/len comparison guards it: objects of '
                    'different dimension compare equal'
                    % (bc[0].attr, bc[0].attr), eci.rel, efn.lineno)

        # ---- R2: type in the key needs type identity in __eq__ --------------
        has_type_id = any(a.kind == 'type' for a in em.atoms)
        inst = [a for a in em.atoms if a.kind == 'isinstance']
        if hk.has_type and not has_type_id:
            users = _leaf_users(model, eci)
            # also leaves reaching this eq through super() chains
            users2 = set(u.name for u in users)
            for c in model.classes.values():
                d, m = model.lookup(c, '__eq__')
                if d is None or d is eci or c.name in users2:
                    continue
                # does d's __eq__ chain through super to eci without a type
                # identity test?
                if d.name in eqs and eci in model.mro(d) and not any(
                        a.kind == 'type' for a in eqs[d.name].atoms) and \
                        not [x for x in model.classes.values()
                             if x is not c and model.is_subclass(x, c.name)]:
                    pass
            if ci is eci or eci in model.mro(ci):
                leaves = _leaf_users(model, model.lookup(ci, '__eq__')[0])
            if len(leaves) >= 2:
                rep.violation(
                    'R2', cons,
                    'hash key contains type(self) but __eq__ (in %s) only '
                    'tests isinstance(other, %s); the concrete classes %s '
                    'share that __eq__, so instances of two of them can be '
                    'equal with different hashes'
                    % (eci.name, inst[0].cls if inst else '?',
                       sorted(l.name for l in leaves)[:4]),
                    hci.rel, hfn.lineno)
            else:
                rep.holds('R2', cons, 'isinstance test with a single '
                          'concrete class %s' % [l.name for l in leaves])
        elif hk.has_type:
            rep.holds('R2', cons, 'type identity in __eq__')

        # ---- R3: hashability of the key ---------------------------------------
        if hk.unhashable:
            rep.violation(
                'R3', cons, 'hash key contains the unhashable value %s: '
                'hash() raises TypeError' % hk.unhashable[0][0], hci.rel,
                hk.unhashable[0][1])
        else:
            rep.holds('R3', cons, 'key built from hashable constructors')

        # ---- R5: reflexivity / symmetry ------------------------------------------
        _reflexive(rep, model, ci, eci, efn, em)

    # ---- R6 membership and element fast path ------------------------------------
    _membership(ctx, rep, model)
    _derived_pspace(rep, model)
    _derived_tensor(rep, model)
    _getitem_weights(rep, model)
    _pspace_elem_getitem(rep, model)
    # ---- R7 derived spaces ----------------------------------------------------
    _derived(ctx, rep, model, eqs)
    return rep


def _reflexive(rep, model, ci, eci, efn, em):
    cons = ci.name + '.__eq__'
    if em.abstract:
        return
    bad = []
    und = []
    for a in em.atoms:
        if a.kind in ('type', 'identity'):
            continue
        if a.kind == 'isinstance':
            base = a.cls.split('.')[-1]
            if base in model.classes and not model.is_subclass(ci, base):
                bad.append('isinstance(other, %s) is False for other = self'
                           % a.cls)
            continue
        if a.kind == 'cmp':
            continue            # self.a <op> self.a
        if a.kind == 'member':
            # all(x in C for x in I) with other := self
            it = a.iter.replace('other', 'self')
            cont = a.container.replace('other', 'self')
            if it == cont and it != 'self':
                continue        # x in self.a for x in self.a
            if it == 'self' and cont == 'self':
                iters = _iter_attrs(model, ci)
                src = iters.get('__iter__') or iters.get('__getitem__') \
                    or set()
                src = {s.split('__')[-1] for s in src}
                if len(src) == 1 and _contains_is_membership_in(
                        model, ci, list(src)[0]):
                    continue
                bad.append(
                    '`%s` iterates the constituents of self and tests them '
                    'with `in self`, which is element membership '
                    '(__contains__), not identity of constituents: '
                    'x == x is False' % ast.unparse(a.node))
                continue
            und.append(ast.unparse(a.node))
            continue
        if a.kind == 'in':
            # `other in self.space` for elements: other = self -> self in
            # self.space  (true by construction)
            continue
        if a.kind == 'opaque':
            t = a.text
            if t == "'__not_identity__'":
                continue
            # other is None -> excluded; dist == 0
            if 'is None' in t or 'is not None' in t or '.dist(' in t \
                    or t.startswith('not '):
                continue
            und.append(t)
            continue
        if a.kind == 'asym':
            bad.append('compares self.%s with other.%s' % (a.attr,
                                                           a.other_attr))
    if bad and not em.fastpath:
        rep.violation('R5', cons, 'not reflexive: ' + bad[0], eci.rel,
                      efn.lineno)
    elif bad:
        # fast path hides the non-reflexive body only for the same object;
        # equal-but-distinct objects still hit it: report
        rep.violation('R5', cons, 'body not reflexive for an equal copy: '
                      + bad[0], eci.rel, efn.lineno)
    elif und:
        rep.undecided('R5', cons, 'unrecognised conjunct(s) %s' % und,
                      eci.rel, efn.lineno)
    else:
        rep.holds('R5', cons, 'reflexive (fast path=%s, %d conjuncts '
                  'self-comparing)' % (em.fastpath, len(em.atoms)))
    # symmetry of containment tests: `all(s in other.A for s in self.A)` is
    # one inclusion; a == b and b == a agree only if the mirrored inclusion
    # is tested as well (or the test is of another, symmetric kind)
    mem = [a for a in em.atoms if a.kind == 'member']
    def side(t):
        return 'O' if 'other' in t else ('S' if 'self' in t else '?')
    dirs = {(side(a.iter), side(a.container)) for a in mem}
    if ('S', 'O') in dirs and ('O', 'S') not in dirs:
        rep.violation('R5', cons, 'not symmetric: `%s` tests that the '
                      'constituents of self are among those of other, the '
                      'converse inclusion is not tested; a == b is True and '
                      'b == a False when a has fewer constituents' % (
                          ast.unparse([a for a in mem if (side(a.iter), side(
                              a.container)) == ('S', 'O')][0].node),),
                      eci.rel, efn.lineno)
    elif ('O', 'S') in dirs and ('S', 'O') not in dirs:
        rep.violation('R5', cons, 'not symmetric: only the constituents of '
                      'other are looked up in self', eci.rel, efn.lineno)
    elif mem:
        rep.holds('R5', cons + ':symmetry', 'both inclusions are tested')
    # symmetry of the type test: isinstance(other, K) is symmetric iff no
    # subclass of K overrides __eq__ with a stricter test... checked as:
    # every class below K that overrides __eq__ calls super().__eq__ or
    # uses an isinstance test against a superclass-compatible class.
    inst = [a for a in em.atoms if a.kind == 'isinstance']
    if inst and not any(a.kind == 'type' for a in em.atoms):
        base = inst[0].cls.split('.')[-1]
        if base in model.classes:
            asym = []
            for c in model.classes.values():
                if c is ci or not model.is_subclass(c, ci.name):
                    continue
                if '__eq__' in c.methods:
                    src = ast.unparse(c.methods['__eq__'])
                    if 'super(' not in src and 'isinstance' in src:
                        asym.append(c.name)
            # stricter isinstance test in a subclass = asymmetric pair
            if asym and ci.name not in ('Weighting',):
                rep.diagnostic('%s.__eq__ uses isinstance; subclasses %s '
                               'override __eq__ independently' % (ci.name,
                                                                   asym))


def _membership(ctx, rep, model):
    for clsname in ('LinearSpace', 'TensorSpace'):
        ci = model.get(clsname)
        m = ci.methods.get('__contains__')
        if m is None:
            raise AnalysisError('anchor vanished: %s.__contains__' % clsname)
        S, O = m.args.args[0].arg, m.args.args[1].arg
        rets = return_exprs(m)
        ok = False
        if len(rets) == 1:
            rv = rets[0].value
            if isinstance(rv, ast.Compare) and len(rv.ops) == 1 and \
                    isinstance(rv.ops[0], ast.Eq):
                sides = [rv.left, rv.comparators[0]]
                for a, b in (sides, sides[::-1]):
                    if _attr_of(a, O) == 'space' and _is_name(b, S):
                        ok = True
        cons = clsname + '.__contains__'
        if ok:
            rep.holds('R6', cons, 'other.space == self')
        else:
            rep.violation('R6', cons, 'membership is not `other.space == '
                          'self`: %s' % (ast.unparse(rets[0].value)
                                         if rets else 'no return'),
                          ci.rel, m.lineno)
    # subclasses must not override __contains__ with something else
    for c in model.subclasses('LinearSpace'):
        if c.name in ('LinearSpace', 'TensorSpace'):
            continue
        if '__contains__' in c.methods and c.rel in FILES:
            m = c.methods['__contains__']
            src = ast.unparse(m)
            if 'isinstance(other, LinearSpaceElement)' in src and \
                    c.name == 'UniversalSpace':
                continue
            rep.undecided('R6', c.name + '.__contains__',
                          'space class overrides __contains__', c.rel,
                          m.lineno)

    # element(inp) returns inp itself when inp in self (and order is None)
    for rel, clsname in (('odl/space/npy_tensors.py', 'NumpyTensorSpace'),
                         ('odl/space/pspace.py', 'ProductSpace'),
                         ('odl/discr/discr_space.py', 'DiscretizedSpace')):
        fn = ctx.method(rel, clsname, 'element')
        params = [a.arg for a in fn.args.args]
        inp = params[1]
        cons = clsname + '.element'
        forced = {
            '%s is None' % inp: False, '%s is not None' % inp: True,
            '%s in self' % inp: True,
        }
        for p in params[2:]:
            if p in ('order', 'data_ptr'):
                forced['%s is None' % p] = True
                forced['%s is not None' % p] = False

        def atom_value(t):
            s = ast.unparse(t)
            return forced.get(s)

        def decide(test, events):
            return eval_bool(test, atom_value)
        try:
            paths = walk_paths(strip_doc(fn.body), decide)
        except Undecided as e:
            rep.undecided('R6', cons, str(e), rel, fn.lineno)
            continue
        bad = None
        npaths = 0
        for p in paths:
            # only paths on which nothing contradicts the forced facts
            npaths += 1
            consumed = False
            for ev in p:
                if ev[0] == 'stmt':
                    s = ev[1]
                    # rebinding or consuming inp before the fast path
                    for n in ast.walk(s):
                        if isinstance(n, ast.Call):
                            for a in list(n.args) + [k.value
                                                     for k in n.keywords]:
                                if _is_name(a, inp):
                                    consumed = True
                    if isinstance(s, ast.Assign) and any(
                            _is_name(t, inp) for t in s.targets):
                        consumed = True
                elif ev[0] == 'assume':
                    # was the fast-path test decided here?
                    pass
            term = p[-1]
            first_decision = None
            if term[0] == 'return' and _is_name(term[1].value, inp) and \
                    not consumed:
                continue
            # a path that did not take the `inp in self` fast path although
            # it was forced true can only exist if the test is missing or
            # conjoined with another undecided atom
            took = [ev for ev in p if ev[0] == 'assume'
                    and ('%s in self' % inp) in ast.unparse(ev[1])]
            if took and all(ev[2] is False for ev in took):
                # fast-path test present but conjoined with an undecided
                # atom evaluated False: fine (e.g. explicit order given)
                continue
            bad = (term, consumed)
            break
        if bad is not None:
            term, consumed = bad
            rep.violation(
                'R6', cons,
                'for an input that already belongs to the space the call '
                'does not return the input itself (%s%s)'
                % ('path ends in %s' % term[0],
                   ', input converted first' if consumed else ''),
                rel, (term[1].lineno if term[1] is not None else fn.lineno))
        else:
            rep.holds('R6', cons, 'returns inp itself when inp in self '
                      '(%d paths)' % npaths)


# --------------------------------------------------------------------------
def _deps(fn, expr, selfnames, model, ci, seen=None):
    """Attributes of self that ``expr`` is data-dependent on, through locals
    of ``fn`` and ``self.method(...)`` calls."""
    out = set()
    seen = seen if seen is not None else set()
    for n in ast.walk(expr):
        if isinstance(n, ast.Attribute) and isinstance(n.value, ast.Name) \
                and n.value.id in selfnames:
            out.add(n.attr)
            # self.method(...) -> what the method reads
            c, m = model.lookup(ci, n.attr)
            if isinstance(m, ast.FunctionDef) and n.attr not in seen \
                    and not n.attr.startswith('__'):
                seen.add(n.attr)
                S = m.args.args[0].arg if m.args.args else 'self'
                for k in ast.walk(m):
                    if isinstance(k, ast.Attribute) and _is_name(k.value, S):
                        out.add(k.attr)
        if isinstance(n, ast.Name) and n.id not in selfnames and \
                n.id not in seen:
            seen.add(n.id)
            for s in ast.walk(fn):
                if isinstance(s, ast.Assign):
                    for t in s.targets:
                        for tn in ast.walk(t):
                            if _is_name(tn, n.id):
                                out |= _deps(fn, s.value, selfnames, model,
                                             ci, seen)
                if isinstance(s, ast.comprehension):
                    for tn in ast.walk(s.target):
                        if _is_name(tn, n.id):
                            out |= _deps(fn, s.iter, selfnames, model, ci,
                                         seen)
    return out


def _derived(ctx, rep, model, eqs):
    """R7: constructor calls in derived-space methods forward every
    identity-defining attribute."""
    targets = [
        # (rel, class, method, identity attrs required, selfnames,
        #  attrs supplied by the operation itself)
        ('odl/space/base_tensors.py', 'TensorSpace', '_astype',
         {'shape'}, {'self'}, {'dtype'}),
        ('odl/space/npy_tensors.py', 'NumpyTensorSpace', 'byaxis',
         {'shape', 'dtype', 'weighting'}, {'space', 'self'}, set()),
        ('odl/space/npy_tensors.py', 'NumpyTensor', '__getitem__',
         {'dtype', 'weighting'}, {'self'}, {'shape'}),
        ('odl/space/pspace.py', 'ProductSpace', 'astype',
         {'spaces', 'weighting'}, {'self'}, set()),
        ('odl/space/pspace.py', 'ProductSpace', 'real_space',
         {'spaces', 'weighting'}, {'self'}, set()),
        ('odl/space/pspace.py', 'ProductSpace', 'complex_space',
         {'spaces', 'weighting'}, {'self'}, set()),
        ('odl/space/pspace.py', 'ProductSpace', '__getitem__',
         {'spaces', 'weighting'}, {'self'}, set()),
        ('odl/discr/discr_space.py', 'DiscretizedSpace', '_astype',
         {'partition', 'tspace'}, {'self'}, set()),
        ('odl/discr/discr_space.py', 'DiscretizedSpace', 'byaxis_in',
         {'partition'}, {'space', 'self'}, set()),
    ]
    n_calls = 0
    for rel, clsname, meth, need, selfnames, given in targets:
        ci = model.get(clsname)
        fn = ctx.method(rel, clsname, meth)
        cons = '%s.%s' % (clsname, meth)
        ctor_names = {clsname, 'type(self)', 'type(space)',
                      'type(self.space)'}
        if clsname == 'NumpyTensor':
            ctor_names = {'type(self.space)', 'NumpyTensorSpace'}
        # weighting lives on the space for elements
        calls = [n for n in ast.walk(fn) if isinstance(n, ast.Call)
                 and ast.unparse(n.func) in ctor_names]
        if not calls:
            rep.undecided('R7', cons, 'no constructor call of the derived '
                          'space found', rel, fn.lineno)
            continue
        for call in calls:
            n_calls += 1
            deps = set()
            for a in list(call.args) + [k.value for k in call.keywords]:
                if isinstance(a, ast.Starred):
                    a = a.value
                deps |= _deps(fn, a, selfnames, model, ci)
            if clsname == 'NumpyTensor':
                # through self.space.<attr>
                deps |= {n.attr for a in ast.walk(fn) for n in [a]
                         if isinstance(n, ast.Attribute)
                         and ast.unparse(n.value) == 'self.space'
                         and _reaches(fn, n, call)}
            # `kwargs['weighting'] = ...; **kwargs`
            for k in call.keywords:
                if k.arg is None:
                    for s in ast.walk(fn):
                        if isinstance(s, ast.Assign) and isinstance(
                                s.targets[0], ast.Subscript) and \
                                ast.unparse(s.targets[0].value) == \
                                ast.unparse(k.value):
                            deps |= _deps(fn, s.value, selfnames, model, ci)
            missing = {a for a in need if a not in deps
                       and ('_' + a) not in deps}
            if missing:
                rep.violation(
                    'R7', cons,
                    'derived space `%s` is built without anything derived '
                    'from %s, which %s.__eq__ compares: the result silently '
                    'loses it' % (ast.unparse(call)[:70],
                                  sorted('self.' + m for m in missing),
                                  clsname if clsname != 'NumpyTensor'
                                  else 'NumpyTensorSpace'),
                    rel, call.lineno)
            else:
                rep.holds('R7', cons + ':L%d' % (call.lineno - fn.lineno),
                          'forwards %s' % sorted(need))
    rep.floor('R7', 'derived-space constructor calls', n_calls, 12)

    # R7b: shape-changing derivations must special-case ArrayWeighting
    for rel, clsname, meth in (
            ('odl/space/npy_tensors.py', 'NumpyTensorSpace', 'byaxis'),
            ('odl/space/npy_tensors.py', 'NumpyTensor', '__getitem__')):
        fn = ctx.method(rel, clsname, meth)
        cons = '%s.%s' % (clsname, meth)
        passes_w = any(isinstance(n, ast.Call) and any(
            k.arg == 'weighting' for k in n.keywords) for n in ast.walk(fn))
        special = any(
            isinstance(n, ast.Call) and _is_name(n.func, 'isinstance')
            and len(n.args) == 2 and 'weighting' in ast.unparse(n.args[0])
            and 'ArrayWeighting' in ast.unparse(n.args[1])
            for n in ast.walk(fn))
        if passes_w and not special:
            rep.violation(
                'R7b', cons,
                'forwards the space weighting to a space of a different '
                'shape without special-casing ArrayWeighting (the sibling '
                'derivations slice the weight array): the full-size array '
                'is rejected by the constructor for every sliced shape',
                rel, fn.lineno)
        else:
            rep.holds('R7b', cons, 'ArrayWeighting is special-cased')


def _reaches(fn, node, call):
    return node.lineno <= call.end_lineno


# --------------------------------------------------------------------------
# R7c: derived product spaces, evaluated.  The weights and the exponent of
# the result are decoded from what is handed to the ProductSpace constructor
# (a weighting object carries its exponent; a plain array / number takes the
# `exponent` keyword, default 2) and must be the sliced weights and the
# exponent of the parent.
# R7d: TensorSpace._astype evaluated.  A floating-point target keeps the
# weighting object -- which also carries the exponent -- whatever the
# weighting is (the trivial constant 1 with exponent p included).
def _derived_tensor(rep, model):
    from ..symex import (Interp, Inst, ClassV, TypeV, Rec, Builtin, PyRaise,
                         Func, is_scalar, to_rat)
    from ..namodel import NA, NAHooks, NAInterp, DT, objarr
    from ..ratfun import Rat
    BT = 'odl/space/base_tensors.py'
    fn = model.ctx.method(BT, 'TensorSpace', '_astype')
    ci = model.get('NumpyTensorSpace')
    wconst = model.get('NumpyTensorSpaceConstWeighting')
    warr = model.get('NumpyTensorSpaceArrayWeighting')
    if fn is None or ci is None or wconst is None or warr is None:
        raise AnalysisError('anchor vanished: TensorSpace._astype / '
                            'NumpyTensorSpace weightings')

    class H(NAHooks):
        def on_call(self, interp, f, args, kwargs, node):
            if isinstance(f, (ClassV, TypeV)) and getattr(
                    getattr(f, 'ci', None), 'name', None) == \
                    'NumpyTensorSpace':
                return Rec('made-space', args=list(args),
                           kwargs=dict(kwargs))
            return NotImplemented

        def on_getattr(self, interp, obj, name):
            if isinstance(obj, Rec) and name in obj.attrs:
                return obj.attrs[name]
            return NAHooks.on_getattr(self, interp, obj, name)

        def on_decide(self, interp, cond, node):
            if cond.rat is not None and cond.key.startswith('eq0:'):
                return False       # generic constant c and exponent p
            return NotImplemented

    def space(kind, exponent):
        sp = Inst(ci)
        sp.attrs['_TensorSpace__shape'] = (2, 3)
        sp.attrs['_TensorSpace__dtype'] = DT('float64')
        if kind == 'array':
            w = Inst(warr)
            w.attrs['_ArrayWeighting__array'] = NA(objarr(
                [[Rat.var('w%d%d' % (i, j)) for j in range(3)]
                 for i in range(2)]), 'float64')
        else:
            w = Inst(wconst)
            w.attrs['_ConstWeighting__const'] = Rat.const(1) \
                if kind == 'const 1' else Rat.var('c')
        w.attrs['_Weighting__exponent'] = exponent
        w.attrs['_Weighting__impl'] = 'numpy'
        sp.attrs['_NumpyTensorSpace__weighting'] = w
        return sp, w
    n = 0
    for kind in ('const 1', 'const c', 'array'):
        for exponent in (Rat.const(2), Rat.const(1), Rat.var('p')):
            for target in ('float32', 'float64', 'complex64', 'complex128',
                           'int64', 'bool'):
                n += 1
                cons = 'TensorSpace._astype[weighting %s, exponent %r -> ' \
                    '%s]' % (kind, exponent, target)
                I = NAInterp(model, {}, H())
                sp, w = space(kind, exponent)
                try:
                    r = I.call_func(Func(fn, I.env_of(BT), model.get(
                        'TensorSpace')), [sp, DT(target)], {})
                except (Undecided, Fork) as e:
                    rep.undecided('R7d', cons, str(e), BT, fn.lineno)
                    continue
                except PyRaise as e:
                    rep.violation('R7d', cons, 'raises %s' % e.name, BT,
                                  fn.lineno)
                    continue
                if not (isinstance(r, Rec) and r.kind == 'made-space'):
                    rep.undecided('R7d', cons, 'result %r' % (r,), BT,
                                  fn.lineno)
                    continue
                probs = []
                shape = r.attrs['args'][0] if r.attrs['args'] else \
                    r.attrs['kwargs'].get('shape')
                if tuple(shape) != (2, 3):
                    probs.append('shape %r' % (shape,))
                dt = r.attrs['kwargs'].get(
                    'dtype', r.attrs['args'][1] if len(r.attrs['args']) > 1
                    else None)
                if not (isinstance(dt, DT) and dt == DT(target)):
                    probs.append('dtype %r' % (dt,))
                if target not in ('int64', 'bool'):
                    kw = r.attrs['kwargs']
                    got = kw.get('weighting')
                    if got is w:
                        if kw.get('exponent') is not None:
                            probs.append('weighting and exponent both given')
                    elif got is None:
                        # the constructor default: constant 1 with the
                        # given exponent (2 if none)
                        e2 = kw.get('exponent', Rat.const(2))
                        same_e = is_scalar(e2) and (
                            to_rat(e2) - exponent).is_zero()
                        if kind != 'const 1' or not same_e:
                            probs.append(
                                'the new space gets the default weighting '
                                '(constant 1, exponent %r) instead of the '
                                'weighting %s with exponent %r'
                                % (e2, kind, exponent))
                    else:
                        probs.append('weighting=%r is not the weighting of '
                                     'the space' % (got,))
                if probs:
                    rep.violation('R7d', cons, '; '.join(probs), BT,
                                  fn.lineno)
                else:
                    rep.holds('R7d', cons, 'shape, dtype%s forwarded' % (
                        '' if target in ('int64', 'bool')
                        else ', weighting object'))
    rep.floor('R7d', 'derived tensor spaces', n, 50)


# R7e: NumpyTensor.__getitem__ evaluated on an element of an array-weighted
# space: the space of the selection carries the weights of exactly the
# selected entries (shape-preserving permutations included), the exponent,
# and the selected data.
def _getitem_weights(rep, model):
    import numpy as _np
    from ..symex import (Inst, ClassV, TypeV, Rec, Builtin, PyRaise, Func,
                         is_scalar, to_rat)
    from ..namodel import NA, NAHooks, NAInterp, DT, objarr
    from ..ratfun import Rat
    NPYT = 'odl/space/npy_tensors.py'
    ci = model.get('NumpyTensor')
    csp = model.get('NumpyTensorSpace')
    warr = model.get('NumpyTensorSpaceArrayWeighting')
    if ci is None or '__getitem__' not in ci.methods or csp is None or \
            warr is None:
        raise AnalysisError('anchor vanished: NumpyTensor.__getitem__')
    fn = ci.methods['__getitem__']

    class H(NAHooks):
        def on_call(self, interp, f, args, kwargs, node):
            nm = getattr(getattr(f, 'ci', None), 'name', None)
            if isinstance(f, (ClassV, TypeV)) and nm == 'NumpyTensorSpace':
                sp = Rec('made-space', args=list(args), kwargs=dict(kwargs))
                sp.attrs['element'] = Builtin(
                    'element', lambda arr=None, **k: Rec(
                        'made-element', space=sp, data=arr))
                return sp
            if isinstance(f, (ClassV, TypeV)) and nm == \
                    'NumpyTensorSpaceArrayWeighting':
                return Rec('made-weighting', array=args[0],
                           exponent=kwargs.get('exponent', args[1] if len(
                               args) > 1 else Rat.const(2)))
            return NotImplemented

        def on_getattr(self, interp, obj, name):
            if isinstance(obj, Rec) and name in obj.attrs:
                return obj.attrs[name]
            return NAHooks.on_getattr(self, interp, obj, name)

    def sym(tag, shape):
        a = _np.empty(shape, dtype=object)
        for idx in _np.ndindex(*shape):
            a[idx] = Rat.var(tag + ''.join(map(str, idx)))
        return a
    SH = (3, 2)
    INDICES = [
        ('x[::-1]', slice(None, None, -1)),
        ('x[:, ::-1]', (slice(None), slice(None, None, -1))),
        ('x[[2, 0, 1]]', [2, 0, 1]),
        ('x[:]', slice(None)),
        ('x[1:]', slice(1, None)),
        ('x[0]', 0),
        ('x[:, 1]', (slice(None), 1)),
        ('x[::2]', slice(None, None, 2)),
        ('x[[0, 2], [1, 0]]', ([0, 2], [1, 0])),
    ]
    n = 0
    for tag, idx in INDICES:
        n += 1
        cons = 'NumpyTensor.__getitem__[%s, array weighting]' % tag
        try:
            W = sym('w', SH)
            D = sym('x', SH)
            sp = Inst(csp)
            sp.attrs['_TensorSpace__shape'] = SH
            sp.attrs['_TensorSpace__dtype'] = DT('float64')
            w = Inst(warr)
            w.attrs['_ArrayWeighting__array'] = NA(W, 'float64')
            w.attrs['_Weighting__exponent'] = Rat.var('p')
            w.attrs['_Weighting__impl'] = 'numpy'
            sp.attrs['_NumpyTensorSpace__weighting'] = w
            x = Inst(ci)
            x.attrs['_LinearSpaceElement__space'] = sp
            x.attrs['_NumpyTensor__data'] = NA(D, 'float64')
            I = NAInterp(model, {}, H())
            r = I.call_func(Func(fn, I.env_of(NPYT), ci), [x, idx], {})
            if not (isinstance(r, Rec) and r.kind == 'made-element'):
                raise Undecided('result %r' % (r,))
            want_d = D[idx]
            want_w = W[idx]
            probs = []
            got_d = r.attrs['data']
            if not isinstance(got_d, NA) or got_d.a.shape != want_d.shape \
                    or any(not (to_rat(a) - to_rat(b)).is_zero()
                           for a, b in zip(got_d.a.ravel(),
                                           want_d.ravel())):
                probs.append('data %r' % (got_d,))
            kw = r.attrs['space'].attrs['kwargs']
            args = r.attrs['space'].attrs['args']
            shape = args[0] if args else kw.get('shape')
            if tuple(shape) != want_d.shape:
                probs.append('space shape %r for a selection of shape %r'
                             % (shape, want_d.shape))
            gw = kw.get('weighting')
            ga = gw.attrs.get('array') if isinstance(gw, Rec) else (
                gw.attrs.get('_ArrayWeighting__array') if isinstance(
                    gw, Inst) else None)
            if not isinstance(ga, NA) or ga.a.shape != want_w.shape or any(
                    not (to_rat(a) - to_rat(b)).is_zero()
                    for a, b in zip(ga.a.ravel(), want_w.ravel())):
                probs.append('the selection %s has weights %s, the weights '
                             'of the selected entries are %s' % (
                                 tag, None if not isinstance(ga, NA)
                                 else ga.a.tolist(), want_w.tolist()))
            ex = kw.get('exponent')
            gex = gw.attrs.get('exponent') if isinstance(gw, Rec) else (
                gw.attrs.get('_Weighting__exponent') if isinstance(
                    gw, Inst) else None)
            for e in (ex, gex):
                if e is not None and not (is_scalar(e) and (
                        to_rat(e) - Rat.var('p')).is_zero()):
                    probs.append('exponent %r' % (e,))
            if probs:
                rep.violation('R7e', cons, '; '.join(probs), NPYT, fn.lineno)
            else:
                rep.holds('R7e', cons, 'data, weights of the selected '
                          'entries, exponent')
        except (Undecided, Fork) as e:
            rep.undecided('R7e', cons, str(e), NPYT, fn.lineno)
        except PyRaise as e:
            rep.violation('R7e', cons, 'raises %s' % e.name, NPYT,
                          fn.lineno)
    rep.floor('R7e', 'element selections', n, 9)


def _pspace_elem_getitem(rep, model):
    """R7f: `ProductSpaceElement.__getitem__` with tuple indices evaluated on
    a power-space element with symbolic entries: the selected entries are
    those NumPy's indexing selects from the stacked array (an integer in the
    last place keeps an axis of size one, as documented), for positive and
    negative integers, slices and lists."""
    import numpy as _np
    from ..spacemodel import (SMInterp, SMHooks, NSpace, NPSpace, NElem,
                              NPElem, sym_elem, flat)
    from ..namodel import NA
    from ..symex import ClassV, Func, PyRaise, Rec, is_scalar, to_rat
    from ..ratfun import Rat
    PSP = 'odl/space/pspace.py'
    ci = model.get('ProductSpaceElement')
    if ci is None or '__getitem__' not in ci.methods:
        raise AnalysisError('anchor vanished: ProductSpaceElement.'
                            '__getitem__')
    fn = ci.methods['__getitem__']

    class H(SMHooks):
        def on_call(self, interp, f, args, kwargs, node):
            if isinstance(f, ClassV) and f.ci.name == 'ProductSpace':
                w = kwargs.get('weighting')
                if isinstance(w, Rec) and w.kind == 'pweighting':
                    w = w.attrs['weights']
                return NPSpace(list(args), w)
            return SMHooks.on_call(self, interp, f, args, kwargs, node)

        def on_getattr(self, interp, obj, name):
            if isinstance(obj, NPSpace) and name == 'weighting':
                return Rec('pweighting', weights=obj.weights)
            return SMHooks.on_getattr(self, interp, obj, name)

        def on_binop(self, interp, op, l, r):
            if isinstance(l, slice) or isinstance(r, slice) or (
                    isinstance(l, list) and is_scalar(r)) or (
                        isinstance(r, list) and is_scalar(l)):
                raise PyRaise('TypeError')     # Python's own rule
            return SMHooks.on_binop(self, interp, op, l, r)

        def on_subscript(self, interp, obj, idx):
            if isinstance(obj, NPSpace) and isinstance(idx, list):
                # ProductSpace.__getitem__(list): the listed components with
                # their weights (C20-R7c)
                return NPSpace([obj.parts[i] for i in idx],
                               [obj.weights[i] for i in idx])
            r = SMHooks.on_subscript(self, interp, obj, idx)
            if isinstance(obj, NElem) and isinstance(r, NA):
                # NumpyTensor.__getitem__: an array-valued selection is an
                # element of the space with the selected shape (C20-R7e)
                return NElem(NSpace(r.a.shape, obj.space.dt, None), r)
            return r
    n = 0
    cases = [(slice(None), 1), (slice(None), -1), (slice(None), -3),
             (slice(None), slice(1, 3)), (slice(None), slice(None, None, 2)),
             (slice(0, 1), 2), ([1, 0], 0), ([1, 0], -2),
             (slice(None), [0, 2]), (1, -1), (0, slice(0, 2))]
    for idx in cases:
        n += 1
        cons = 'ProductSpaceElement.__getitem__[%s]' % (idx,)
        try:
            I = SMInterp(model, {}, H())
            X = NSpace((3,), 'float64', None)
            wts = [Rat.var('p0'), Rat.var('p1')]
            P = NPSpace([X, X], list(wts))
            x = sym_elem(P, 'x')
            stacked = _np.array([list(flat(p)) for p in x.parts],
                                dtype=object)
            want = stacked[tuple(idx)]
            want = [want] if not isinstance(want, _np.ndarray) else list(
                want.ravel())
            r = I.call_func(Func(fn, I.env_of(PSP), ci), [idx], {}, x)
            if isinstance(r, NPElem):
                got = [v for p in r.parts for v in flat(p)]
            elif isinstance(r, NElem):
                got = list(flat(r))
            elif is_scalar(r):
                got = [to_rat(r)]
            else:
                raise Undecided('result %r' % (r,))
            wsel = None
            if isinstance(r, NPElem) and not isinstance(idx[0], int):
                # the component weights of the selected components
                wsel = list(_np.array(wts, dtype=object)[idx[0]])
                gw = r.space.weights
                gw = [Rat.const(1)] * len(r.parts) if gw is None else (
                    list(gw) if isinstance(gw, (list, tuple)) else
                    [gw] * len(r.parts))
            if len(got) != len(want) or any(
                    not (to_rat(g) - to_rat(w)).is_zero()
                    for g, w in zip(got, want)):
                rep.violation('R7f', cons, 'selects %r, the stacked array '
                              'indexed the same way gives %r' % (got, want),
                              PSP, fn.lineno)
            elif wsel is not None and (len(gw) != len(wsel) or any(
                    not (to_rat(a) - to_rat(b)).is_zero()
                    for a, b in zip(gw, wsel))):
                rep.violation('R7f', cons, 'the selection lies in a product '
                              'space with component weights %r, the selected '
                              'components have the weights %r' % (gw, wsel),
                              PSP, fn.lineno)
            else:
                rep.holds('R7f', cons, 'the entries NumPy indexing selects')
        except Undecided as e:
            rep.undecided('R7f', cons, str(e), PSP, fn.lineno)
        except PyRaise as e:
            rep.violation('R7f', cons, 'raises %s' % e.name, PSP, fn.lineno)
    rep.floor('R7f', 'product-space element selections', n, 10)


def _derived_pspace(rep, model):
    import numpy as _np
    from ..symex import (Interp, Inst, ClassV, Rec, Builtin, PyRaise,
                         is_scalar, to_rat)
    from ..namodel import NA, NAHooks, NAInterp, objarr, na_of
    from ..ratfun import Rat
    PSP = 'odl/space/pspace.py'
    ci = model.get('ProductSpace')
    if ci is None:
        raise AnalysisError('anchor vanished: ProductSpace')

    class H(NAHooks):
        def __init__(self):
            self.made = []

        def on_call(self, interp, f, args, kwargs, node):
            if isinstance(f, ClassV) and f.ci.name == 'ProductSpace':
                r = Rec('made-pspace', spaces=list(args), kwargs=dict(kwargs))
                self.made.append(r)
                return r
            if isinstance(f, ClassV) and f.ci.name == \
                    'ProductSpaceArrayWeighting':
                return Rec('ProductSpaceArrayWeighting', array=args[0],
                           exponent=args[1] if len(args) > 1 else
                           kwargs.get('exponent', Rat.const(2)))
            if isinstance(f, ClassV) and f.ci.name == \
                    'ProductSpaceConstWeighting':
                return Rec('ProductSpaceConstWeighting', const=args[0],
                           exponent=args[1] if len(args) > 1 else
                           kwargs.get('exponent', Rat.const(2)))
            return NotImplemented

        def on_getattr(self, interp, obj, name):
            if isinstance(obj, Rec):
                if name in obj.attrs:
                    return obj.attrs[name]
                raise PyRaise('AttributeError')
            return NAHooks.on_getattr(self, interp, obj, name)

    class II(NAInterp):
        def _isinst1(self, v, nm):
            if isinstance(v, Rec) and v.kind.endswith('Weighting'):
                return nm in (v.kind, 'Weighting',
                              'ArrayWeighting' if 'Array' in v.kind
                              else 'ConstWeighting')
            if isinstance(v, Rec) and v.kind == 'subspace':
                return nm in ('LinearSpace', 'TensorSpace')
            return NAInterp._isinst1(self, v, nm)

    p = Rat.var('p')
    W = [Rat.var('w%d' % i) for i in range(4)]

    def parent(kind):
        sp = Inst(ci)
        def sub(i):
            r = Rec('subspace', tag=i)
            r.attrs['astype'] = Builtin('astype', lambda dt: sub(i))
            r.attrs['real_space'] = r
            r.attrs['complex_space'] = r
            return r
        parts = tuple(sub(i) for i in range(4))
        if kind == 'array':
            w = Rec('ProductSpaceArrayWeighting',
                    array=NA(objarr(list(W)), 'float64'), exponent=p)
        else:
            w = Rec('ProductSpaceConstWeighting', const=Rat.var('c'),
                    exponent=p)
        sp.attrs['_ProductSpace__spaces'] = parts
        sp.attrs['_ProductSpace__weighting'] = w
        sp.attrs['_LinearSpace__field'] = Rec('field')
        return sp, parts, w

    def decode(made):
        kw = made.attrs['kwargs']
        w = kw.get('weighting')
        if isinstance(w, Rec) and w.kind.endswith('Weighting'):
            ex = w.attrs['exponent']
            if 'Array' in w.kind:
                ws = [to_rat(x) for x in na_of(w.attrs['array']).a.ravel()]
            else:
                ws = ('const', to_rat(w.attrs['const']))
        else:
            ex = kw.get('exponent', Rat.const(2))
            if w is None:
                ws = ('const', Rat.const(1))
            elif is_scalar(w):
                ws = ('const', to_rat(w))
            else:
                ws = [to_rat(x) for x in na_of(w).a.ravel()]
        return ws, ex

    ops = [('__getitem__', [slice(1, None)], [1, 2, 3]),
           ('__getitem__', [slice(None)], [0, 1, 2, 3]),
           ('__getitem__', [[0, 2]], [0, 2]),
           ('__getitem__', [(slice(None, 2),)], [0, 1]),
           ('astype', ['float32'], [0, 1, 2, 3]),
           ('real_space', None, [0, 1, 2, 3]),
           ('complex_space', None, [0, 1, 2, 3])]
    n = 0
    for kind in ('array', 'const'):
        for meth, args, sel in ops:
            cons = 'ProductSpace.%s[%s weighting%s]' % (
                meth, kind, '' if args is None else ',%r' % (args[0],))
            n += 1
            try:
                h = H()
                I = II(model, {}, h)
                sp, parts, w = parent(kind)
                if args is None:
                    sp.attrs['dtype'] = 'float64'
                    r = I.getattr_value(sp, meth)
                else:
                    if meth == 'astype':
                        sp.attrs['dtype'] = 'float64'
                        from ..namodel import DT
                        args = [DT(args[0])]
                    r = I.call(I.getattr_value(sp, meth), list(args), {})
                if not (isinstance(r, Rec) and r.kind == 'made-pspace'):
                    rep.undecided('R7c', cons, 'result %r' % (r,), PSP)
                    continue
                ws, ex = decode(r)
                probs = []
                if not (is_scalar(ex) and (to_rat(ex) - p).is_zero()):
                    probs.append('exponent %r instead of the parent\'s p'
                                 % (ex,))
                if kind == 'array':
                    want = [W[i] for i in sel]
                    if not isinstance(ws, list) or len(ws) != len(want) or \
                            any(not (a - b).is_zero()
                                for a, b in zip(ws, want)):
                        probs.append('weights %r instead of %r' % (ws, want))
                else:
                    if ws != ('const', Rat.var('c')) and not (
                            isinstance(ws, tuple) and (
                                ws[1] - Rat.var('c')).is_zero()):
                        probs.append('weighting %r instead of the constant c'
                                     % (ws,))
                tags = [getattr(s, 'attrs', {}).get('tag')
                        for s in r.attrs['spaces']]
                if tags != sel:
                    probs.append('parts %r instead of %r' % (tags, sel))
                if probs:
                    rep.violation('R7c', cons, '; '.join(probs), PSP)
                else:
                    rep.holds('R7c', cons, 'parts, weights and exponent '
                              'carried over')
            except Undecided as e:
                rep.undecided('R7c', cons, str(e), PSP)
            except PyRaise as e:
                rep.violation('R7c', cons, 'raises %s' % e.name, PSP)
    rep.floor('R7c', 'derived product spaces', n, 14)
