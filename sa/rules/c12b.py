"""C12, evaluated tier R8: the linear solvers on a concrete 2 x 2 system whose
data (operator and right-hand side) are multiplied by a scale factor `eps`
that tends to 0+ or to infinity.

The iterates of conjugate gradients, CG on the normal equations, Landweber
(with the relaxation scaled accordingly) and Kaczmarz do not depend on such a
factor, so

  * CG and CGN must be exact after two steps, and the energy-norm error resp.
    the residual must not increase in the first step,
  * Landweber and Kaczmarz must not increase the residual resp. the distance
    to the solution,

for *every* scale.  The solver functions are interpreted on model spaces with
`MatrixOperator`s; every branch condition is a rational function of `eps`
with numeric coefficients and is decided by its leading term for eps -> 0+
resp. eps -> infinity.  A stopping or breakdown test that compares a scaled
quantity with an absolute constant takes the wrong branch in one of the two
regimes and the exactness fails there."""
from __future__ import annotations

import ast

import numpy as _np

from ..core import Undecided
from ..forks import Fork
from ..ratfun import Rat, SAtom
from fractions import Fraction

from ..symex import Func, PyRaise, Rec, to_rat
from ..namodel import NA, objarr
from ..spacemodel import (SMHooks, SMInterp, NSpace, NElem, NotAnElement,
                          flat)
from .. import posalg as PA
from ..posalg import Signs
from . import c11

EPS = 'eps'


def lead_sign(r, regime):
    """Sign of a rational function of eps with numeric coefficients for
    eps -> 0+ ('small') or eps -> infinity ('large')."""
    r = PA.reduce_full(r)
    if r.n.is_zero():
        return 0
    sub = {}
    for v in r.vars():
        if isinstance(v, SAtom) and v[0] == 'abs' and isinstance(v[1], Rat):
            # |u| continues with the sign u has in this regime
            sub[v] = v[1] * lead_sign(v[1], regime)
        elif v != EPS:
            raise Undecided('scale analysis of %r' % (r,))
    if sub:
        return lead_sign(r.subs(sub), regime)

    def lead(p):
        best = None
        for m, c in p.t.items():
            d = sum(e for v, e in m)
            if best is None or (d < best[0] if regime == 'small'
                                else d > best[0]):
                best = (d, c)
        return (best[1] > 0) - (best[1] < 0)
    return lead(r.n) * lead(r.d)


class H12(SMHooks):
    def __init__(self, regime):
        SMHooks.__init__(self)
        self.signs = Signs({EPS})
        self.regime = regime

    def np_func(self, I, name):
        if name == 'finfo':
            # machine constants are absolute numbers, independent of the
            # scale of the data
            c = Rat.const(Fraction(1, 2 ** 52))
            return lambda *a, **k: Rec('finfo', eps=c, resolution=c * 4503,
                                       tiny=c * c * c)
        return SMHooks.np_func(self, I, name)

    def on_decide(self, interp, cond, node):
        k = cond.key.split(':')[0]
        if cond.rat is not None and k in ('Lt', 'LtE', 'Gt', 'GtE', 'eq0'):
            sg = lead_sign(cond.rat, self.regime)
            return {'Lt': sg < 0, 'LtE': sg <= 0, 'Gt': sg > 0,
                    'GtE': sg >= 0, 'eq0': sg == 0}[k]
        return SMHooks.on_decide(self, interp, cond, node)


def _vec(space, vals):
    return NElem(space, NA(objarr([Rat.coerce(v) for v in vals]), space.dt))


def _matop(I, model, rows, scale):
    a = _np.empty((len(rows), len(rows[0])), dtype=object)
    for i, row in enumerate(rows):
        for j, v in enumerate(row):
            a[i, j] = Rat.coerce(v) * scale
    dom = NSpace((len(rows[0]),), 'float64')
    ran = NSpace((len(rows),), 'float64')
    return I.instantiate(model.get('MatrixOperator'),
                         [NA(a, 'float64')], {'domain': dom, 'range': ran})


def _solve2(rows, rhs):
    (a, b), (c, d) = [[Rat.coerce(v) for v in r] for r in rows]
    r0, r1 = [Rat.coerce(v) for v in rhs]
    det = a * d - b * c
    return [(d * r0 - b * r1) / det, (a * r1 - c * r0) / det]


class _Tape(object):
    """callback recording the iterates."""

    def __init__(self):
        self.xs = []


def _run(model, name, regime, rows, rhs, extra, niter):
    H = H12(regime)
    I = SMInterp(model, {}, H)
    eps = Rat.var(EPS)
    op = _matop(I, model, rows, eps)
    dom = I.getattr_value(op, 'domain')
    ran = I.getattr_value(op, 'range')
    x = _vec(dom, [0] * len(rows[0]))
    y = _vec(ran, [Rat.coerce(v) * eps for v in rhs])
    fn = model.ctx.func(c11.ITER, name)
    f = Func(fn, I.env_of(c11.ITER), None)
    iterates = []
    for k in range(1, niter + 1):
        xk = _vec(dom, [0] * len(rows[0]))
        I.call_func(f, [op, xk, y], dict(extra(eps), niter=k))
        iterates.append([PA.reduce_full(v) for v in flat(xk)])
    return iterates


def _err2(x, sol, rows=None):
    """Squared Euclidean error, or the energy-norm error e^T A e."""
    e = [xi - si for xi, si in zip(x, sol)]
    if rows is None:
        return e[0] * e[0] + e[1] * e[1]
    tot = Rat.const(0)
    for i in range(2):
        for j in range(2):
            tot = tot + e[i] * Rat.coerce(rows[i][j]) * e[j]
    return tot


def _res2(x, rows, rhs):
    tot = Rat.const(0)
    for i in range(len(rows)):
        ri = -Rat.coerce(rhs[i])
        for j in range(len(x)):
            ri = ri + Rat.coerce(rows[i][j]) * x[j]
        tot = tot + ri * ri
    return tot


SPD = [[2, 1], [1, 3]]
GEN = [[2, 1], [-1, 3]]
RHS = [1, 2]


def cases():
    """name -> (solver, matrix, extra keywords, steps, kind)."""
    return {
        'conjugate_gradient': ('conjugate_gradient', SPD, lambda e: {}, 2,
                               'exact-energy'),
        'conjugate_gradient_normal': ('conjugate_gradient_normal', GEN,
                                      lambda e: {}, 2, 'exact-residual'),
        # admissible relaxation 1 / ||A||_F^2 (scales with eps^-2)
        'landweber': ('landweber', GEN,
                      lambda e: {'omega': 1 / (15 * e * e)}, 3, 'residual'),
    }


def evaluate(model, name, regime):
    solver, rows, extra, niter, kind = cases()[name]
    its = _run(model, solver, regime, rows, RHS, extra, niter)
    sol = _solve2(rows, RHS)
    probs = []
    zero = [Rat.const(0), Rat.const(0)]
    seq = [zero] + its
    if kind.startswith('exact'):
        last = its[-1]
        for j in range(2):
            if not PA.reduce_full(last[j] - sol[j]).n.is_zero():
                probs.append('after %d steps entry %d is %r, the solution '
                             'is %r' % (niter, j, last[j], sol[j]))
                break
    for k in range(len(seq) - 1):
        if kind == 'exact-energy':
            a, b = _err2(seq[k], sol, rows), _err2(seq[k + 1], sol, rows)
            what = 'energy-norm error'
        else:
            a, b = _res2(seq[k], rows, RHS), _res2(seq[k + 1], rows, RHS)
            what = 'residual'
        try:
            sg = lead_sign(b - a, regime)
        except Undecided:
            sg = None
        if sg is None:
            raise Undecided('monotonicity of the %s in step %d' % (what,
                                                                   k + 1))
        if sg > 0:
            probs.append('the %s increases in step %d' % (what, k + 1))
            break
    return probs, its


def run(rep, model):
    n = 0
    for name in cases():
        fn = model.ctx.func(c11.ITER, cases()[name][0])
        for regime, rt in (('small', 'data scaled by eps -> 0+'),
                           ('large', 'data scaled by eps -> infinity')):
            cons = '%s[%s]' % (name, rt)
            n += 1
            try:
                probs, its = evaluate(model, name, regime)
            except (Undecided, Fork) as e:
                rep.undecided('R8', cons, str(e), c11.ITER, fn.lineno)
                continue
            except NotAnElement as e:
                rep.violation('R8', cons, 'a call yields no element: %s' % e,
                              c11.ITER, fn.lineno)
                continue
            except PyRaise as e:
                rep.violation('R8', cons, 'raises %s at `%s`' % (
                    e.name, ast.unparse(e.node)[:70] if e.node is not None
                    else '?'), c11.ITER, getattr(e.node, 'lineno', fn.lineno))
                continue
            if probs:
                rep.violation('R8', cons, '; '.join(probs[:2]), c11.ITER,
                              fn.lineno)
            else:
                rep.holds('R8', cons, 'iterates independent of the scale: '
                          'last iterate %r' % (its[-1],))
    rep.floor('R8', 'scaled solver runs', n, 6)
